#!/usr/bin/env python3
"""Print TLA+ code-point tuples for strings: tools/cp.py foo 'a b'  ->  <<102, 111, 111>> ..."""
import sys
def cp(s): return "<<" + ", ".join(str(ord(c)) for c in s) + ">>"
if __name__ == "__main__":
    for a in sys.argv[1:]:
        print(f"\\* {a!r}\n{cp(a)}")
