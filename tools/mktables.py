#!/usr/bin/env python3
"""Regenerate the tables that are derived from data files:
   DESIGN.md section 11.4 (from known_findings.json) and seeded/README.md (from seeded/*/meta.json)."""
import json, os, re
V = os.path.dirname(os.path.dirname(os.path.abspath(__file__)))
kf = json.load(open(os.path.join(V, "known_findings.json")))["entries"]

def esc(s): return s.replace("|", "\\|").replace("\n", " ")
fixed = ["| property | commit | what failed |", "|---|---|---|"] + [f"| {e['property']} | `{e['commit']}` | {esc(e['what'])} |" for e in kf if e["status"] == "fixed"]
known = ["| property | deviation | what fails, and why it is not repaired |", "|---|---|---|"] + [f"| {e['property']} | `{e['deviation']}` | {esc(e['what'])} |" for e in kf if e["status"] == "known"]
p = os.path.join(V, "DESIGN.md")
s = open(p).read()
def put(s, tag, lines):
    a, b = f"<!-- {tag}:begin -->", f"<!-- {tag}:end -->"
    assert a in s and b in s, tag
    return s[: s.index(a) + len(a)] + "\n" + "\n".join(lines) + "\n" + s[s.index(b):]
s = put(s, "fixed-table", fixed)
s = put(s, "known-table", known)
open(p, "w").write(s)

rows = ["| seeded change | property | what it does | needs | caught by (replay file = clause) | not caught by |", "|---|---|---|---|---|---|"]
sd = os.path.join(V, "seeded")
for n in sorted(os.listdir(sd)):
    mp = os.path.join(sd, n, "meta.json")
    if not os.path.exists(mp): continue
    m = json.load(open(mp))
    cb = "; ".join(f"{k}: {', '.join(v)}" for k, v in m.get("caught_by", {}).items()) or "-"
    rows.append(f"| `{n}` | {m['property']} | {esc(m['summary'])} | {esc(m['needs'])} | {esc(cb)} | {', '.join(m.get('not_caught_by', [])) or '-'} |")
readme = f"""# Seeded breaking changes

Each directory holds one change to SigmaHQ/pySigma that breaks a listed property while the package still imports and
the pinned test suite still passes. All of them were written by independent sub-agents that were given only the text of one
property and a scratch worktree of the repository - nothing from /verif.

    patch.diff   the change (applies to the current /repo HEAD; never committed there)
    demo.py      the author's own demonstration: exit 0 on the unchanged code, exit 1 with the change
    meta.json    property, what the change needs to manifest, which checks were run against it and what they reported

`tools/seeded.py confirm <name>` re-establishes the three facts (demo 0 without / 1 with, pinned suite passes with the
change); `tools/seeded.py run <name>` / `tools/seeded.py all [--tier thorough] [--record]` apply the patch to a scratch
worktree of /repo's HEAD, run the checks named in meta.json with `VERIF_REPO` pointing at it (evidence and replay files
go to the scratch directory) and remove the worktree. The same by hand: `git -C /repo apply <patch.diff>`, `./check <ID>`,
`git -C /repo checkout -- .`.

{chr(10).join(rows)}

History of misses (what was strengthened, see DESIGN.md 11.5): C13 (no field-reference target in the probe rule), C08
(no two equal rule objects), C12 and C15 (pipeline fixtures without stateful transformations: strict mapping check,
templated condition), C06 (no list of regular expressions in the item library), C18 (canonical spellings only), C20 (no
backend with partially supported regex flags), C02 (every text parsed for one rule only), C11 (no leading-wildcard
selector in the filtered rule).
"""
open(os.path.join(sd, "README.md"), "w").write(readme)
print("tables written:", len(fixed) - 2, "fixed,", len(known) - 2, "known,", len(rows) - 2, "seeded")
