#!/venv/bin/python
"""Seeded breaking changes (seeded/<name>/): confirm them and run the checks against them.

  tools/seeded.py confirm <name>    demo exits 0 without / 1 with the change; pinned suite passes with it
  tools/seeded.py run <name> [--tier quick|thorough]
                                    run the checks listed in meta.json against the changed tree and
                                    report which ones print a VIOLATION line
  tools/seeded.py all               `run` for every seeded change, one summary line each

Everything happens in a scratch worktree of /repo's HEAD under $SEEDED_TMP (default /tmp/seedrun);
/repo itself is never touched and the worktree is removed afterwards.
"""
import json, os, shutil, subprocess, sys

VERIF = os.path.dirname(os.path.dirname(os.path.abspath(__file__)))
REPO = "/repo"
TMP = os.environ.get("SEEDED_TMP", "/tmp/seedrun")


def sh(cmd, **kw):
    return subprocess.run(cmd, text=True, capture_output=True, **kw)


class Worktree:
    def __init__(self, name, patched):
        self.dir = os.path.join(TMP, name + ("-with" if patched else "-without"))
        self.patch = os.path.join(VERIF, "seeded", name, "patch.diff") if patched else None

    def __enter__(self):
        os.makedirs(TMP, exist_ok=True)
        sh(["git", "-C", REPO, "worktree", "remove", "--force", self.dir])
        r = sh(["git", "-C", REPO, "worktree", "add", "--detach", self.dir, "HEAD"])
        if r.returncode:
            raise SystemExit("worktree add failed: " + r.stderr)
        if self.patch:
            r = sh(["git", "-C", self.dir, "apply", self.patch])
            if r.returncode:
                raise SystemExit("patch does not apply to the current tree: " + r.stderr)
        return self.dir

    def __exit__(self, *a):
        sh(["git", "-C", REPO, "worktree", "remove", "--force", self.dir])
        shutil.rmtree(self.dir, ignore_errors=True)
        sh(["git", "-C", REPO, "worktree", "prune"])


def meta(name):
    return json.load(open(os.path.join(VERIF, "seeded", name, "meta.json")))


def demo(name, wt):
    m = meta(name)
    env = dict(os.environ, PYTHONPATH=wt, PYTHONHASHSEED="0")
    r = sh(["/venv/bin/python", os.path.join(VERIF, "seeded", name, m["demo"])], env=env, cwd=wt)
    return r.returncode, (r.stdout + r.stderr)


def confirm(name):
    ok = True
    with Worktree(name, False) as wt:
        rc, _ = demo(name, wt)
        print(f"{name}: demo without the change: exit {rc}")
        ok &= rc == 0
    with Worktree(name, True) as wt:
        rc, out = demo(name, wt)
        print(f"{name}: demo with the change: exit {rc}")
        ok &= rc == 1
        r = sh(["/venv/bin/python", os.path.join(VERIF, "tools", "baseline.py")], env=dict(os.environ, VERIF_REPO=wt))
        line = (r.stdout.strip().splitlines() or ["?"])[-1]
        print(f"{name}: pinned suite with the change: {line}")
        ok &= r.returncode == 0
    return ok


def run(name, tier):
    m = meta(name)
    res = {}
    with Worktree(name, True) as wt:
        for pid in m["checks"]:
            env = dict(os.environ, VERIF_REPO=wt, VERIF_EVIDENCE_DIR=os.path.join(TMP, "evidence"),
                       VERIF_REPLAY_DIR=os.path.join(TMP, "replay"))
            r = sh([os.path.join(VERIF, "check"), pid, "--tier", tier], env=env)
            viol = [l for l in r.stdout.splitlines() if l.startswith("VIOLATION")]
            res[pid] = {"exit": r.returncode, "violations": viol[:3]}
            if "--first" in sys.argv and r.returncode == 1 and viol:  # (a sweep: the first check that reports it is enough)
                break
    caught = [p for p, v in res.items() if v["exit"] == 1 and v["violations"]]
    broken = [p for p, v in res.items() if v["exit"] not in (0, 1)]
    if broken:
        print(f"{name}: MACHINERY FAILURE in {broken}")
    if "--record" in sys.argv:  # remember in meta.json which checks report this change, and how
        m["caught_by"] = {p: [l.split("replay=")[-1].split("/")[-1].replace(".json", "") for l in res[p]["violations"]] for p in caught}
        m["not_caught_by"] = [p for p in m["checks"] if p in res and p not in caught]
        m["not_run"] = [p for p in m["checks"] if p not in res]
        m["ran"] = f"tools/seeded.py run {name} --tier {tier}: patch applied to a scratch worktree of /repo HEAD, ./check <id> with VERIF_REPO pointing at it"
        with open(os.path.join(VERIF, "seeded", name, "meta.json"), "w") as f:
            json.dump(m, f, indent=1)
    print(f"{name}: property={m['property']} tier={tier} caught_by={caught or 'NONE'}")
    for p in caught:
        print("   ", res[p]["violations"][0])
    return bool(caught), res


def main():
    a = sys.argv[1:]
    if not a:
        raise SystemExit(__doc__)
    tier = a[a.index("--tier") + 1] if "--tier" in a else "quick"
    if a[0] == "confirm":
        sys.exit(0 if confirm(a[1]) else 1)
    if a[0] == "run":
        sys.exit(0 if run(a[1], tier)[0] else 1)
    if a[0] == "all":
        names = sorted(n for n in os.listdir(os.path.join(VERIF, "seeded")) if os.path.exists(os.path.join(VERIF, "seeded", n, "meta.json")))
        missed = [n for n in names if not run(n, tier)[0]]
        print(f"{len(names) - len(missed)}/{len(names)} seeded changes caught; missed: {missed}")
        sys.exit(0 if not missed else 1)
    raise SystemExit(__doc__)


if __name__ == "__main__":
    main()
