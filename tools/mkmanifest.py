#!/usr/bin/env python3
"""Regenerate MANIFEST.json from the table below (keeps it valid at all times)."""
import json, os
HERE = os.path.dirname(os.path.dirname(os.path.abspath(__file__)))
MC = "model_checking"
CLAIMED = {
 "C02": dict(level=MC,
   text="TLC model-checks the reference shift/reduce parser of spec/CondLang.tla as a state machine (every AST <=2 operators x 4 print styles: never errs, terminates, same tree/truth table), then TLC-generated condition texts are replayed into SigmaCondition.parse() and TLC judges each returned tree against the denotation it derives from the text itself, for all 2^n assignments.",
   note="Trusted: TLC, the CondLang semantics (lexer: whole words; not>and>or; selectors; underscore rule), the driver's dump of the condition tree. Selectors matching nothing and non-sentences are Unspecified (not judged).",
   technique="TLA+ reference parser (state machine) model-checked with TLC; TLC-generated cases replayed into the code; TLC judges the recorded results",
   ref="6/C02"),
 "C05": dict(level=MC,
   text="TLC model-checks spec/SigmaStr.tla (source parser as a per-character state machine over every text <=4/5: a faithful plain form exists, every escaping configuration of the family is decodable by the target's own decoder). TLC-enumerated source strings and field names are then replayed into SigmaString / TextQueryBackend and TLC decodes each recorded rendering (parts, plain form re-parsed, convert(), convert_value_str(), regex form via the set of subjects Python's re matches, slices, quoted field names) and compares with the parts denoted by the source.",
   note="Trusted: TLC, SigmaStr semantics (backslash escapes only * ? and backslash), the configuration family in StrConfigs.tla (all well-formed: escape char is itself escaped), Python's re.fullmatch as definition of regex matching. One recorded deviation (Dev_PlainBackslashBeforeSpecial).",
   technique="TLA+ string/escaping model checked with TLC; exhaustive TLC-generated strings replayed into the code; TLC decodes and judges recorded renderings",
   ref="6/C05"),
 "C04": dict(level=MC,
   text="TLC model-checks spec/Encoding.tla (UTF-8/UTF-16/Base64 by integer arithmetic; for every payload <=3/4 characters with 1-4 byte encodings: Base64 decode inverts encode, the maximal offset triple covers every alignment, each element is implied by the payload alone and is maximal, locality lemma). TLC-enumerated payloads x 13 modifier chains are replayed into SigmaDetectionItem.from_mapping and TLC judges the recorded values byte-exactly (base64, wide/utf16/utf16be) and, for base64offset, against 15 prefixes x 7 suffixes of neighbour bytes (covering + implied).",
   note="Trusted: TLC, the arithmetic definitions in Encoding.tla (cross-checked by round trip and RFC test vectors inside MC_Encoding), neighbour bytes restricted to {00,FF} justified by the model-checked locality lemma. One recorded deviation (utf16 BOM).",
   technique="TLA+ byte-level encoding model checked with TLC (alignment theorem); TLC-generated payloads replayed into the modifiers; TLC judges recorded values",
   ref="6/C04"),
 "C18": dict(level=MC,
   text="TLC model-checks spec/Cidr.tla (prefix length stepped 0..32 over 5 base addresses: the octet-aligned block set is an exact disjoint cover; ExactCover detects a missing, an outside and an overlapping block; agreement with brute force for /24../32; RFC 5952 vectors; unsoundness witness for the IPv6 text-prefix algorithm). TLC-generated networks (every IPv4 prefix length, IPv6 0..128) are replayed into SigmaCIDRExpression.expand() and a native-CIDR backend; TLC decides IPv4 exactness by octet-interval arithmetic over the whole network (no sampling), IPv6 coverage on corner addresses in canonical text, and the native template fields.",
   note="Trusted: TLC, Cidr.tla (interval arithmetic, RFC 5952 canonical form). IPv6 coverage is decided on <=36 corner addresses per network, not on all addresses. One recorded deviation (IPv6 text prefix).",
   technique="TLA+ CIDR model checked with TLC; TLC-generated networks replayed into the code; TLC decides exact cover by interval arithmetic",
   ref="6/C18"),
 "C03": dict(level=MC,
   text="TLC model-checks the modifier chain machine of spec/Modifiers.tla (one transition per modifier, all chains <=2/3 over the 33-entry table from 39 seed values: list modifiers monotone and separate from value modifiers, wildcard modifiers idempotent and only adding end wildcards, cased keeps content, windash yields exactly 5^k distinct variants differing only at parameter dashes, expand conserves characters). TLC-generated (value, chain) cases are replayed into SigmaDetectionItem.from_mapping and TLC compares the recorded values/linking/negation with the machine's result (expansions as bags), a required rejection with any Sigma error.",
   note="Trusted: TLC, Modifiers.tla as rendering of the Sigma specification + pySigma documentation; outcomes the documents leave open are Unspecified (possibly invalid regex text, wide/utf16 (C04), numeric modifier after a timestamp part, fieldref of escaped characters, CIDR texts outside the seed table).",
   technique="TLA+ modifier chain state machine model-checked with TLC; TLC-generated chains replayed into the code; TLC judges recorded item state",
   ref="6/C03"),
 "C01": dict(level=MC,
   text="TLC model-checks MC_Render: the grouping design of TextQueryBackend (compare_precedence / convert_condition_or|and|not|group, transcribed as a token-by-token rendering state machine) is sound for every boolean tree <=2/3 operators x all 6 target precedence orders x parenthesize - the rendered text, read back with the TARGET grammar (spec/QueryLang.tla, Pratt evaluator driven by K.prec), has the tree's truth table. TLC-generated (rule, configuration) pairs are converted by the real backend code through a /verif backend subclass that only sets class data; TLC parses each emitted query from raw code points and compares it, over all truth assignments of the canonical atoms (field, match kind, decoded value), with the rule's meaning derived from its source form (spec/Detection.tla + Modifiers + CondLang).",
   note="Trusted: TLC; Detection/Modifiers/CondLang as the reference semantics of Sigma; QueryLang as the semantics of the /verif target syntax; the backend family's templates (harness/backend.py, class data only). Atoms are compared syntactically after canonicalisation (startswith/endswith/contains/in-list/not-equals/not-exists spellings decode to the same atom), i.e. distinct atoms are treated as independent. Three recorded deviations (raw field in native CIDR; two in not-equals mode).",
   technique="TLA+ models of rule semantics and of the target query language; design model-checked with TLC; TLC-generated rules x configurations replayed into the converter; TLC parses and judges every emitted query by truth table",
   ref="6/C01"),
 "C09": dict(level=MC,
   text="TLC model-checks spec/Collection.tla (MC_Collection): for every rule-set shape <=5/6 documents and EVERY permutation the system resolves references, orders depth-first and converts one rule per transition; invariants: a correlation rule is converted only after everything it refers to, the emitted set is permutation-independent and follows the generate rule, the order is a stable permutation. Negative control: the same model with the former ordering (sorted() with a partial order, transcribed from CPython's binary insertion sort) must be refuted by TLC. Conformance: every (shape, permutation, load path in {from_yaml, from_dicts, merge, load_ruleset}) is run on the real code; the recorded trace Load/Resolve(order)/Convert(d)*/Output is replayed through the spec's conversion state machine by TLC and all runs of one shape must yield the same (document, query) pairs.",
   note="Trusted: TLC, Collection.tla, the driver's recording of rule order and conversion callback events (public callback parameter of Backend.convert). Documents referenced both with and without generate are Unspecified and not generated.",
   technique="TLA+ state machine of reference resolution/ordering/conversion model-checked over all permutations; traces of the real code validated against it with TLC",
   ref="6/C09"),
 "C08": dict(level=MC,
   text="TLC model-checks spec/Conversion.tla (MC_Conversion): every collection of 1..3/4 rule kinds x collect on/off converted step by step (apply / convert / emit / fail): per-rule pipeline state and class templates never carry into the next rule, emitted queries equal the per-rule 'alone' result, a failing rule yields no query and one error record, strict mode stops at the first failure, termination. Conformance: every kind sequence (7 kinds, 4 failure stages, every position) x collect x with/without a correlation rule is converted by the real backend with a stateful pipeline and output format; TLC decides the accounting relation between the collection's output/error records and fresh per-rule conversions.",
   note="Trusted: TLC, Conversion.tla, the driver (fresh backend/pipeline/rule objects for the 'alone' reference; error records read from backend.errors). Non-Sigma exceptions such as NotImplementedError for features a backend lacks are outside this property's failure stages.",
   technique="TLA+ conversion state machine with failure transitions model-checked with TLC; TLC-generated collections replayed into the code; TLC judges the recorded accounting",
   ref="6/C08"),
 "C15": dict(level=MC,
   text="TLC model-checks the Mechanism model spec/PipelineObjects.tla (pipeline objects, item->owner back pointers re-assigned by '+', class-level backend pipeline shared by instances, per-rule state reset in apply, re-owning at apply): every history <=5/7 of {init backend A/B, convert windows/linux rule with A/B}, with shared or separate user pipeline objects, satisfies HistoryFree (each conversion yields what fresh objects yield). Negative control: the pre-repair mechanism (no re-owning) must be refuted - TLC finds 'init A; init B; convert A'. Conformance: TLC-enumerated histories over {create backend sharing the pipeline object or not, init, convert rule/collection of 7 kinds incl. failures at every stage and inside negated not-equals rendering} + 4 probes are replayed on real objects; TLC compares each probe with its conversion in a newly started interpreter and with the abstract result the model predicts (state seen, gated item applied).",
   note="Trusted: TLC, PipelineObjects.tla, the driver, process start as 'fresh' reference. Probes share condition strings, detection names and field names with earlier rules (parse cache, tracking sets).",
   technique="TLA+ mechanism model of pipeline ownership/state model-checked with TLC (with negative control); TLC-generated operation histories replayed into real objects; TLC judges probe results against a fresh-interpreter oracle and the model's abstract result",
   ref="6/C15"),
 "C14": dict(level=MC,
   text="TLC model-checks the Ideal composition algebra spec/PipelineCompose.tla (MC_PipelineCompose: '+' reduced one step per transition in ANY order over every permutation of a 5-pipeline pool - result is the concatenation in operand order, later vars override, empty pipeline is identity, the resolver's (priority, name) order is permutation-free) and the ownership Mechanism (MC_PipelineObjects). Conformance: TLC enumerates operations (all operand sequences x all bracketings of '+', all resolver argument orders, backend/user/format triples, reuse histories) together with the reference definition the spec demands; the driver performs them on real objects and converts two probes; TLC checks that the result equals ONE pipeline built from the reference definition, that the reference output is the spec's stage composition (postprocessing per query in item order, finalizers once) of the raw queries, merged vars, applied flags and the pipeline's own state after a direct apply.",
   note="Trusted: TLC, PipelineCompose.tla, the item/postprocessing/finalizer text library shared by driver and judge. Resolver ties: names are unique in a resolver, so (priority, name) is total; 'stable' is vacuous there.",
   technique="TLA+ composition algebra and ownership mechanism model-checked with TLC; TLC-generated operations replayed into real pipeline objects; TLC judges outputs against the spec's reference definition and stage semantics",
   ref="6/C14"),
 "C17": dict(level=MC,
   text="TLC model-checks spec/Placeholders.tla (MC_Placeholders: a value with placeholders pushed through a pipeline one item per transition - number of results = product of the handled tables, first placeholder outermost, unhandled placeholders survive, handled ones are gone, none invented) on top of the modifier machine (expand). TLC-generated (value, modifier chain, placeholder pipeline, variable table) cases are converted by the real pipeline + backend; TLC parses the query with the target grammar and compares it with the rule's meaning after the spec's own placeholder rewriting (OR of all combinations), demands a Sigma error naming a left-over placeholder otherwise, and searches every decoded predicate for a raw %name%.",
   note="Trusted: TLC, Placeholders/Detection/QueryLang specs, /verif backend templates. Unspecified (accepted either way, but never a raw placeholder): query-expression items on mixed strings, regex + placeholder pipeline, empty variable lists, boolean entries. One recorded deviation (alternatives AND-linked under 'all').",
   technique="TLA+ placeholder-expansion model checked with TLC; TLC-generated cases replayed through real pipelines and backend; TLC parses and judges queries / error records",
   ref="6/C17"),
 "C11": dict(level=MC,
   text="TLC model-checks the filter renaming MECHANISM against the Ideal (MC_Filter): for every rule condition x filter condition over overlapping / keyword- / digit- / underscore-leading names, the combined condition over the combined, prefixed namespace has the truth table of (rule) AND (filter) over separate namespaces - and TLC exhibits the two captures the mechanism admits (a rule pattern starting with '_', an underscore-leading filter name under a filter pattern). Conformance: TLC-generated (rule set, filter set) pairs are loaded and converted by the real code under two draws of the random prefix; TLC parses the queries and checks per rule and condition: filtered iff the filter applies (log-source containment, rule list by name / id / any / empty), meaning = (rule) AND (filters) with predicates tagged R_/F_ by provenance, bystander rules byte-identical to the unfiltered conversion.",
   note="Trusted: TLC, Filter/Detection/CondLang/QueryLang specs, /verif backend templates. Equal random prefixes for two stacked filters (probability 26^-10) are not forced. One recorded deviation (underscore-leading filter names).",
   technique="TLA+ model of filter renaming checked against the ideal semantics with TLC; TLC-generated rule/filter sets replayed into the code; TLC parses and judges the filtered queries",
   ref="6/C11"),
 "C13": dict(level=MC,
   text="TLC model-checks the group semantics of spec/Gating.tla (MC_Gating: empty group always holds, linking = conjunction/disjunction, negation flips non-empty groups, expression evaluator = truth table, stepping through all assignments). TLC-generated gate configurations (pools with a true and a false instance of every built-in rule / detection-item / field-name condition type, list or map form, default/and/or/expression linking, negation, EMPTY groups under every setting; each group alone exhaustively + seeded 12x12x10 product) are put on a marker transformation behind a state-setting and a renaming item; after ProcessingPipeline.apply() the driver records which detection items, field-list entries and the rule carry the marker; TLC evaluates the gate on the abstract rule and compares.",
   note="Trusted: TLC, Gating.tla (documented meaning of each condition type; match_string restricted to '^literal' patterns), the abstract post-state of the two preceding items (confirmed by the trace: tracking sets, renamed fields). One recorded deviation (field-level applied-condition second check).",
   technique="TLA+ gating semantics model-checked with TLC; TLC-generated condition configurations replayed into real pipelines; TLC judges where the marker acted",
   ref="6/C13"),
}
REASON_NOT_BUILT = "check not built yet in this round (see DESIGN.md section 6 for the planned TLA+ model); not claimed until its judge is sound"
ALL = [f"C{i:02d}" for i in range(1, 21)]
m = {
 "version": 1,
 "setup_cmd": "./setup.sh",
 "hooks": {"guard": "PYSIGMA_VERIF", "enable": "no in-repo hooks: checks import pySigma from /repo's working tree (PYTHONPATH) and observe it through public API; PYSIGMA_VERIF=1 only switches on /verif-side recorders",
           "baseline_off_cmd": "cd /repo && /venv/bin/python -m pytest -ra -q -p no:cacheprovider --timeout=900 --continue-on-collection-errors",
           "source_commits": [], "add_only": True},
 "engines": [{"name": "tlc", "path": "/verif/harness/tlc.py", "serves_properties": sorted(CLAIMED), "kind_free_text": "TLC 1.8 model checker: mode A (model checking of spec/*.tla), mode B (case/behaviour generation), mode C (judging observations / trace validation)"}],
 "checks": [],
 "notes": "See DESIGN.md. known_findings.json lists recorded/fixed defects.",
 "not_applicable": [],
}
for pid in ALL:
    if pid in CLAIMED:
        c = CLAIMED[pid]
        m["checks"].append({
            "property_id": pid,
            "quick_cmd": f"./check {pid} --tier quick",
            "thorough_cmd": f"./check {pid} --tier thorough",
            "evidence_file": f"/verif/evidence/{pid}.json",
            "replay_cmd_template": f"./check {pid} --replay {{path}}",
            "engine": "tlc",
            "level_claimed": {"category": c["level"], "text": c["text"], "design_ref": c["ref"]},
            "level_note": c["note"],
            "technique": c["technique"],
        })
    else:
        m["not_applicable"].append({"property_id": pid, "reason": REASON_NOT_BUILT})
json.dump(m, open(os.path.join(HERE, "MANIFEST.json"), "w"), indent=1)
print("claimed:", sorted(CLAIMED))
