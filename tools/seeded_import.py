#!/usr/bin/env python3
"""Take a sub-agent's change over from its scratch worktree: tools/seeded_import.py <worktree> <property> <name> <round> <checks,comma> <summary> <needs>
Writes seeded/<name>/{patch.diff,demo.py,meta.json}; confirm and run it with tools/seeded.py afterwards."""
import json, os, subprocess, sys

wt, pid, name, rnd, checks, summary, needs = sys.argv[1:8]
d = os.path.join(os.path.dirname(__file__), "..", "seeded", name)
os.makedirs(d, exist_ok=True)
diff = subprocess.run(["git", "-C", wt, "diff", "--", "sigma"], capture_output=True, text=True, check=True).stdout
assert diff.strip(), "no change in " + wt
open(os.path.join(d, "patch.diff"), "w").write(diff)
demo = open(os.path.join(wt, f"demo_{pid}.py")).read()
open(os.path.join(d, "demo.py"), "w").write(demo)
files = [l[6:] for l in diff.splitlines() if l.startswith("+++ b/")]
json.dump({"property": pid, "name": name, "summary": summary, "file": ", ".join(files), "needs": needs, "round": int(rnd),
           "origin": "independent sub-agent given only the property text, a scratch worktree and the places of the earlier changes to avoid",
           "demo": "demo.py", "checks": checks.split(",")}, open(os.path.join(d, "meta.json"), "w"), indent=1)
print(name, files)
