#!/bin/sh
# run every check of a tier in sequence: tools/run_all.sh quick|thorough [ids...]
tier=${1:-quick}; shift
ids=${*:-C01 C02 C03 C04 C05 C06 C07 C08 C09 C10 C11 C12 C13 C14 C15 C16 C17 C18 C19 C20}
cd "$(dirname "$0")/.."
rc=0
for c in $ids; do
  ./check $c --tier $tier 2>&1 | grep -E "^VIOLATION|^KNOWN-FINDING|^\[C|MACHINERY" | cut -c1-220 || true
done
