#!/usr/bin/env python3
"""Writes spec/LoaderDocs.tla: base documents for the C07/C06 generators as TLA+ trees (data only)."""
import os, sys
sys.path.insert(0, os.path.dirname(__file__))
from cp import cp

RULE = {
    "title": "Base rule", "id": "11111111-1111-4111-8111-111111111111", "name": "base_rule", "status": "test",
    "description": "d", "references": ["https://example.org/a"], "author": "me", "date": "2024-01-31", "modified": "2024/02/01",
    "tags": ["attack.t1059", "attack.execution"], "level": "high", "falsepositives": ["none"],
    "fields": ["fieldA"], "related": [{"id": "22222222-2222-4222-8222-222222222222", "type": "derived"}],
    "taxonomy": "sigma", "license": "MIT", "scope": ["server"], "custom_attr": "x",
    "logsource": {"category": "process_creation", "product": "windows", "service": "s", "definition": "def"},
    "detection": {"sel": {"fieldA|contains": ["a", "b"], "fieldB": 1}, "flt": [{"fieldC": None}, {"fieldD|re": "x.*"}], "kw": ["k1", "k2"],
                  "condition": ["sel and not flt", "1 of kw*"]},
}
CORR = {
    "title": "Base correlation", "id": "33333333-3333-4333-8333-333333333333", "name": "base_corr", "status": "test", "level": "low",
    "correlation": {"type": "value_count", "rules": ["base_rule", "11111111-1111-4111-8111-111111111111"], "group-by": ["g1", "al"],
                    "timespan": "5m", "aliases": {"al": {"base_rule": "fieldA"}}, "condition": {"gte": 2, "field": "f"}, "generate": True},
}
CORR_EXT = {
    "title": "Base extended correlation", "name": "base_ext",
    "correlation": {"type": "temporal", "timespan": "1h", "group-by": ["g1"], "condition": "base_rule and not other_rule"},
}
FILTER = {
    "title": "Base filter", "id": "44444444-4444-4444-8444-444444444444", "description": "f",
    "logsource": {"category": "process_creation", "product": "windows"},
    "filter": {"rules": ["base_rule"], "selection": {"fieldE|startswith": "x"}, "condition": "not selection"},
}
GLOBAL = {
    "action": "global", "level": "critical", "tags": ["attack.g0001"], "logsource": {"product": "gp"},
    "detection": {"gsel": {"g": 1}},
}

def node(v):
    if isinstance(v, dict):
        return '[t |-> "map", kv |-> <<%s>>, items |-> <<>>, s |-> <<>>, n |-> 0, d |-> 1, b |-> FALSE]' % ", ".join("<<%s, %s>>" % (cp(k), node(x)) for k, x in v.items())
    if isinstance(v, list):
        return '[t |-> "list", kv |-> <<>>, items |-> <<%s>>, s |-> <<>>, n |-> 0, d |-> 1, b |-> FALSE]' % ", ".join(node(x) for x in v)
    if isinstance(v, bool):
        return '[t |-> "bool", kv |-> <<>>, items |-> <<>>, s |-> <<>>, n |-> 0, d |-> 1, b |-> %s]' % ("TRUE" if v else "FALSE")
    if v is None:
        return '[t |-> "null", kv |-> <<>>, items |-> <<>>, s |-> <<>>, n |-> 0, d |-> 1, b |-> FALSE]'
    if isinstance(v, int):
        return '[t |-> "int", kv |-> <<>>, items |-> <<>>, s |-> <<>>, n |-> %d, d |-> 1, b |-> FALSE]' % v
    return '[t |-> "str", kv |-> <<>>, items |-> <<>>, s |-> %s, n |-> 0, d |-> 1, b |-> FALSE]' % cp(v)

out = ["----------------------------- MODULE LoaderDocs -----------------------------",
       "(* Base documents (rule, correlation rule, extended correlation rule, filter, global action document) as trees; written",
       "   by tools/gen_c07_docs.py.  node == [t, kv, items, s, n, d, b] with t in map/list/str/int/float/bool/null. *)",
       "EXTENDS Integers, Sequences",
       "BaseRule == " + node(RULE), "BaseCorr == " + node(CORR), "BaseCorrExt == " + node(CORR_EXT), "BaseFilter == " + node(FILTER),
       "BaseGlobal == " + node(GLOBAL),
       "============================================================================="]
open(os.path.join(os.path.dirname(__file__), "..", "spec", "LoaderDocs.tla"), "w").write("\n".join(out) + "\n")
