#!/venv/bin/python
"""Run the repository's pinned suite (guard OFF) and compare with /root/.vp/BASELINE.json stable_pass."""
import json, os, subprocess, sys, tempfile, xml.etree.ElementTree as ET
repo = os.environ.get("VERIF_REPO", "/repo")
env = dict(os.environ, PYTHONPATH=repo); env.pop("PYSIGMA_VERIF", None)
fd, xmlp = tempfile.mkstemp(suffix=".xml"); os.close(fd)
subprocess.run(["/venv/bin/python", "-m", "pytest", "-q", "-p", "no:cacheprovider", "--timeout=900",
                "--continue-on-collection-errors", f"--junitxml={xmlp}"], cwd=repo, env=env,
               stdout=subprocess.DEVNULL, stderr=subprocess.DEVNULL)
passed = set()
for tc in ET.parse(xmlp).getroot().iter("testcase"):
    if not any(ch.tag in ("failure", "error", "skipped") for ch in tc):
        passed.add(f"{tc.get('classname')}::{tc.get('name')}")
os.unlink(xmlp)
want = set(json.load(open("/root/.vp/BASELINE.json"))["stable_pass"])
missing = sorted(want - passed)
if missing and len(missing) <= 10:
    # tests that share an on-disk cache (MITRE data) fail when another test run is going on next to this one:
    # run what is missing once more, alone
    ids = [m.replace("tests.", "tests/", 1).replace("::", ".py::", 1) for m in missing]
    fd, xml2 = tempfile.mkstemp(suffix=".xml"); os.close(fd)
    subprocess.run(["/venv/bin/python", "-m", "pytest", "-q", "-p", "no:cacheprovider", f"--junitxml={xml2}"] + ids, cwd=repo, env=env,
                   stdout=subprocess.DEVNULL, stderr=subprocess.DEVNULL)
    for tc in ET.parse(xml2).getroot().iter("testcase"):
        if not any(ch.tag in ("failure", "error", "skipped") for ch in tc):
            passed.add(f"{tc.get('classname')}::{tc.get('name')}")
    os.unlink(xml2)
    missing = sorted(want - passed)
print(f"baseline: {len(want)} expected, {len(want & passed)} passed, {len(missing)} missing")
for m in missing[:40]: print("  MISSING", m)
sys.exit(1 if missing else 0)
