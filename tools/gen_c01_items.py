#!/usr/bin/env python3
"""Writes spec/RuleItems.tla: the library of detection items/bodies used by the C01/C11/C12 generators
(data only: strings as code points)."""
import sys, os
sys.path.insert(0, os.path.dirname(__file__))
from cp import cp

def sv(v):
    if isinstance(v, bool): return f'SB({"TRUE" if v else "FALSE"})'
    if v is None: return 'NullV'
    if isinstance(v, int): return f'SN({v if v >= 0 else "0 - " + str(-v)}, 1)'
    if isinstance(v, float):
        from fractions import Fraction
        f = Fraction(v).limit_denominator(1000)
        return f'SN({f.numerator}, {f.denominator})'
    return f'SS({cp(v)})'

def item(field, chain, vals):
    if not isinstance(vals, list): vals = [vals]; single = True
    else: single = False
    ch = "<<" + ", ".join(cp(m) for m in chain) + ">>"
    return f'[field |-> {cp(field)}, chain |-> {ch}, vals |-> <<{", ".join(sv(v) for v in vals)}>>, single |-> {"TRUE" if single else "FALSE"}]'

ITEMS = [
 ("fA", [], "x"), ("fA", [], "x*"), ("fB", ["contains"], ["y", "w"]), ("fC", ["cased", "endswith"], "Abc"),
 ("fD", [], [1, 2]), ("fE", ["re", "i"], "a/b"), ("fF", [], None), ("fG", ["exists"], False),
 ("fH", ["cidr"], "10.0.0.0/8"), ("fI", ["lt"], 5), ("fJ", ["fieldref", "startswith"], "g"), ("fK", ["minute"], 5),
 ("fL", ["base64offset", "contains"], "ab"), ("fM", [], True), ("fN", ["all"], ["*a", "b?c"]), ("fO", ["windash"], "-x"),
 ("fP", ["cased"], ["a", "b"]), ("fQ", ["minute"], [1, 2]), ("fR", ["neq"], "z"), ("fS", ["contains", "all"], ["p", "q"]),
 ("f T", [], "v"), ("fU", [], ["a", "b*"]), ("fV", [], 'q"uo\\te'), ("fW", ["startswith"], "pre"),
 ("fX", ["endswith"], "suf"), ("fY", [], ["a", 1]), ("fZ", ["neq"], ["a", "b"]), ("f1", ["exists"], True),
 ("f2", ["cased", "contains"], "Mi*d"), ("f3", [], "*"), ("f4", [], ""), ("f`5\\", [], "v"),
 ("f6", ["gte"], 1.5), ("f7", ["re"], "^a.*b$"), ("f8", ["cidr"], "192.168.129.0/31"), ("f9", ["all"], ["a", "b"]),
 ("g1", ["contains"], "a*b"), ("g2", ["fieldref"], "other"), ("g3", ["re", "m", "s"], "x.y"), ("g4", ["cased", "startswith"], ["Aa", "Bb"]),
 ("g5", [], [1.5, "s"]), ("g6", ["neq", "contains"], "n"), ("g7", ["endswith", "all"], ["e1", "e2"]), ("g8", ["wide", "base64"], "A"),
 ("g9", [], "a\\\\*b"), ("h1", ["contains"], "c:\\x"), ("h2", ["cidr"], "10.0.0.0/7"), ("h3", ["re"], ["a.*b", "c?d"]), ("h4", [], []), ("h5", ["expand"], "x\\%a\\%"),
 ("Hashes", [], "MD5=aa11"), ("Hashes", ["contains", "all"], ["MD5=aa11", "sha1=bb22"]), ("Hashes", ["neq"], ["SHA1=cc33", "MD5=dd44"]),
 ("Hash", ["contains"], "IMPHASH=ee55"), ("", ["windash"], "-kw"), ("", ["cased"], "Kw"), ("h6", ["hour", "gte"], 22),
 # the SAME field in several selections with different kinds of values (candidates for one in-list)
 ("fP", [], "c"), ("fQ", [], 7), ("fP", ["cased"], "D"), ("fxf", [], "v"),
 # numerals as strings (type conversion): plain, signed / leading zero, beside a non-numeral, under a wildcard modifier
 ("n1", [], "42"), ("n2", [], ["7", "-3", "08"]), ("n3", [], ["5", "x*"]), ("n4", ["contains"], "12"),
 # negated keywords (the empty field with neq): one value, several, with a further modifier
 # a single-character wildcard at the edge is no reason to leave out the modifier's own wildcard
 ("q1", ["contains"], "?a?"), ("q2", ["startswith"], "a?"), ("q3", ["endswith"], ["?a", "b"]),
 ("", ["neq"], "nkw"), ("", ["neq"], ["nk1", "nk2"]), ("", ["contains", "neq"], "nkc"),
 # one algorithm, several values, negated AND all-linked (both at once)
 ("Hashes", ["all", "neq"], ["MD5=aa11", "MD5=bb22"]), ("Hashes", ["neq", "all"], ["MD5=aa11", "MD5=bb22", "SHA1=cc33"]),
]
KW = [["foo", "ba*r"], [1], ["single"], ["k1", 2]]
out = ["----------------------------- MODULE RuleItems -----------------------------",
"(* Library of detection items for the rule generators (written by tools/gen_c01_items.py).",
"   Every value type, the modifier chains of interest and the traps named in the properties",
"   (cased / timestamp lists, expansion under all, quoting characters in values and fields). *)",
"EXTENDS ModSeeds", "Items == <<"]
rows = []
for i, (f, ch, v) in enumerate(ITEMS):
    rows.append(f"  \\* {i+1}: {f}|{'|'.join(ch)}: {v!r}")
    rows.append("  " + item(f, ch, v) + ("," if i < len(ITEMS) - 1 else ""))
out += rows + [">>", "KwLists == <<"]
rows = []
for i, k in enumerate(KW):
    rows.append("  <<" + ", ".join(sv(v) for v in k) + ">>" + ("," if i < len(KW) - 1 else ""))
out += rows + [">>", "============================================================================="]
open(os.path.join(os.path.dirname(__file__), "..", "spec", "RuleItems.tla"), "w").write("\n".join(out) + "\n")
print(len(ITEMS), "items")
