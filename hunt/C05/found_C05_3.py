#!/usr/bin/env python
"""
C05 finding 3: a field name that contains the field escaping character is rendered so that decoding
does not return the original name: the escape character itself is not escaped. A name ending in it
swallows the closing quote, a name with escape character + quote terminates the quoted name early.

Cause: TextQueryBackend.escape_and_quote_field() (sigma/conversion/base.py) only prepends
field_escape to matches of field_escape_pattern and to the quote string, never to occurrences of
field_escape itself.
"""
import sys

from sigma.collection import SigmaCollection
from sigma.backends.test import TextQueryTestBackend

ESC, QUOTE = "\\", '"'


class Backend(TextQueryTestBackend):
    field_quote = QUOTE
    field_quote_pattern = None  # always quote
    field_escape = ESC
    field_escape_quote = True
    field_escape_pattern = None


def decode(text):
    """Decode a quoted field name at the start of text: returns (name, rest) or an error string."""
    assert text.startswith(QUOTE)
    i, out = 1, []
    while i < len(text):
        if text[i] == ESC:
            if i + 1 >= len(text):
                return "name not terminated"
            out.append(text[i + 1])
            i += 2
        elif text[i] == QUOTE:
            return "".join(out), text[i + 1 :]
        else:
            out.append(text[i])
            i += 1
    return "name not terminated"


violations = 0
backend = Backend()
for name in ["a b", 'a"b', "a\\b", 'a\\"b', "a\\"]:
    rule = SigmaCollection.from_dicts(
        [
            {
                "title": "t",
                "logsource": {"category": "c"},
                "detection": {"sel": {name: "x"}, "condition": "sel"},
            }
        ]
    )
    query = backend.convert(rule)[0]
    direct = backend.escape_and_quote_field(name)
    expected = (name, '="x"')
    actual = decode(query)
    ok = expected == actual
    print(f"field name : {name!r}")
    print(f"  rendered : {direct}     query: {query}")
    print(f"  expected : name {name!r} followed by '=\"x\"'")
    print(f"  decoded  : {actual}   {'ok' if ok else 'VIOLATION'}")
    if not ok:
        violations += 1

sys.exit(1 if violations else 0)
