#!/usr/bin/env python
"""
C05 finding 6: RegexTransformation(method="ignore_case_brackets") builds the bracket expression of a
letter from c.lower() + c.upper(). For letters whose case mappings are not single characters, or
that are neither their own lower nor upper case form, the regular expression matches strings the
value does not match and/or no longer matches the value itself.

  'ß'  -> [ßSS]   matches "S"          (upper() is the two characters "SS")
  'ﬁ'  -> [ﬁFI]   matches "F" and "I"
  'ǅ'  -> [ǆǄ]    does not match "ǅ" itself (titlecase letter)

Cause: RegexTransformation.apply_string_value() (sigma/processing/transformations/values.py),
expression  f"[{c.lower()}{c.upper()}]" if c.isalpha() .
"""
import re
import sys

from sigma.processing.transformations import RegexTransformation
from sigma.types import SigmaString

cases = [
    # value, subject, does the (case-insensitive) value match the subject?
    ("ß", "ß", True),
    ("ß", "S", False),
    ("ﬁ", "F", False),
    ("ﬁ", "I", False),
    ("ǅ", "ǅ", True),
    ("straße", "straSe", False),
    ("a", "A", True),  # control
    ("a", "b", False),  # control
]

violations = 0
t = RegexTransformation(method="ignore_case_brackets")
for value, subject, expected in cases:
    regex = t.apply_string_value("f", SigmaString(value))
    pattern = str(regex.regexp)
    actual = bool(re.fullmatch(pattern, subject))
    ok = actual == expected
    print(f"value {value!r} -> regex {pattern!r}; subject {subject!r}: expected match={expected}, "
          f"actual match={actual}   {'ok' if ok else 'VIOLATION'}")
    if not ok:
        violations += 1

sys.exit(1 if violations else 0)
