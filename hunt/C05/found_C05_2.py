#!/usr/bin/env python
"""
C05 finding 2: the query literal does not escape the escape character itself. A backslash in the
source value is copied verbatim, so in the target language it escapes whatever follows it: the
closing quote (literal never terminated), an escaped quote (literal terminated early -> rest of the
value becomes query syntax) or a wildcard (wildcard turned into a literal character).

Cause: SigmaString.convert() (sigma/types.py) builds the set of characters to escape from
wildcard_multi + wildcard_single + add_escaped only; escape_char is not a member.
TextQueryBackend.convert_value_str() (sigma/conversion/base.py) passes str_quote + add_escaped, again
without escape_char. The configuration used here (escape '\\', quote '"', wildcards * and ?, no
extra escaped characters, no filter) is a plain member of the configuration space; it is also what
the bundled text backend uses (its add_escaped is ':').
"""
import sys

from sigma.collection import SigmaCollection
from sigma.backends.test import TextQueryTestBackend
from sigma.types import SigmaString, SpecialChars

ESC, MULTI, SINGLE, QUOTE = "\\", "*", "?", '"'


class Backend(TextQueryTestBackend):
    escape_char = ESC
    wildcard_multi = MULTI
    wildcard_single = SINGLE
    str_quote = QUOTE
    add_escaped = ""
    filter_chars = ""


def decode(lit):
    """Decode a quoted literal of the target language: escape char makes the next character
    literal, wildcard tokens are wildcards, an unescaped quote ends the literal."""
    assert lit.startswith(QUOTE)
    i, out = len(QUOTE), []
    while i < len(lit):
        if lit.startswith(ESC, i):
            i += len(ESC)
            if i >= len(lit):
                return "literal not terminated (escape char consumed the closing quote)"
            out.append(lit[i])
            i += 1
        elif lit.startswith(QUOTE, i):
            rest = lit[i + len(QUOTE) :]
            if rest:
                return f"literal terminated early, {rest!r} is outside of the literal"
            return out
        elif lit.startswith(MULTI, i):
            out.append(SpecialChars.WILDCARD_MULTI)
            i += len(MULTI)
        elif lit.startswith(SINGLE, i):
            out.append(SpecialChars.WILDCARD_SINGLE)
            i += len(SINGLE)
        else:
            out.append(lit[i])
            i += 1
    return "literal not terminated"


def flat(s):
    out = []
    for p in s.s:
        if isinstance(p, str):
            out.extend(p)
        else:
            out.append(p)
    return out


violations = 0
for src in ["a\\", 'a\\" or g="b', r"a\\*", r"\x"]:
    s = SigmaString(src)
    lit = QUOTE + s.convert(ESC, MULTI, SINGLE, QUOTE, "") + QUOTE
    expected = flat(s)
    actual = decode(lit)
    ok = expected == actual
    print(f"source value : {src!r}")
    print(f"  literal    : {lit}")
    print(f"  expected   : {expected}")
    print(f"  decoded    : {actual}   {'ok' if ok else 'VIOLATION'}")
    if not ok:
        violations += 1

# the same through a backend conversion
rule = SigmaCollection.from_dicts(
    [
        {
            "title": "t",
            "logsource": {"category": "c"},
            "detection": {"sel": {"f": 'a\\" or g="b'}, "condition": "sel"},
        }
    ]
)
query = Backend().convert(rule)[0]
print("query for value", repr('a\\" or g="b'), ":", query)
print('  expected: one condition on field f;  actual: the text  or g=\\"b"  is outside of the string literal')
lit = query[len("f=") :]
if decode(lit) != flat(SigmaString('a\\" or g="b')):
    violations += 1

sys.exit(1 if violations else 0)
