#!/usr/bin/env python
"""
C05 finding 1: the plain form of a string value does not escape backslashes, so parsing the plain
form again yields a different value (a backslash in front of a wildcard swallows the wildcard, an
escaped backslash pair loses one backslash).

Cause: SigmaString.to_plain() (sigma/types.py) only escapes plain '*' and '?', never '\\'.
Consequence inside the library: ReplaceStringTransformation (sigma/processing/transformations/values.py)
works on str(value) and re-parses it, so even a replacement that matches nothing destroys the
trailing wildcard of a value like  C:\\Windows\\\\*  .
"""
import sys

from sigma.rule import SigmaRule
from sigma.types import SigmaString
from sigma.processing.transformations import ReplaceStringTransformation

violations = 0


def parts(rule):
    return rule.detection.detections["sel"].detection_items[0].value[0].s


# (a) rule -> plain dict -> rule
for src in [r"C:\Windows\\*", r"a\\?b", r"a\\\*b", r"a\\\\b"]:
    rule = SigmaRule.from_dict(
        {
            "title": "t",
            "logsource": {"category": "c"},
            "detection": {"sel": {"field": src}, "condition": "sel"},
        }
    )
    plain = rule.to_dict()
    rule2 = SigmaRule.from_dict(plain)
    expected = parts(rule)
    actual = parts(rule2)
    ok = expected == actual
    print(f"source value          : {src!r}")
    print(f"  parsed value        : {expected}")
    print(f"  plain form          : {plain['detection']['sel']['field']!r}")
    print(f"  expected after parse: {expected}")
    print(f"  actual after parse  : {actual}   {'ok' if ok else 'VIOLATION'}")
    if not ok:
        violations += 1

# (b) direct: SigmaString(str(s)) must equal s
for src in [r"\\*", r"\\\\"]:
    s = SigmaString(src)
    s2 = SigmaString(s.to_plain())
    ok = s.s == s2.s
    print(f"SigmaString({src!r}).s = {s.s}; reparsed plain form {s.to_plain()!r} -> {s2.s}   {'ok' if ok else 'VIOLATION'}")
    if not ok:
        violations += 1

# (c) consequence: a replacement that matches nothing changes the value
t = ReplaceStringTransformation(regex="does-not-occur", replacement="x")
s = SigmaString(r"C:\Windows\\*")
r = t.apply_string_value("field", s)
ok = r.s == s.s
print(f"ReplaceStringTransformation (no match) on {s.s}")
print(f"  expected: {s.s}")
print(f"  actual  : {r.s}   {'ok' if ok else 'VIOLATION'}")
if not ok:
    violations += 1

sys.exit(1 if violations else 0)
