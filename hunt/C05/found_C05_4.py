#!/usr/bin/env python
"""
C05 finding 4: some renderings of a field name bypass the field escaping/quoting completely, so a
name that needs quoting (space, quote character) is emitted raw although the same backend quotes
and escapes the very same name everywhere else.

Cause (sigma/conversion/base.py):
 (a) TextQueryBackend.convert_condition_field_eq_val_cidr() formats cidr_expression with
     field=cond.field instead of field=self.escape_and_quote_field(cond.field).
 (b) TextQueryBackend.convert_correlation_aggregation_from_template() /
     convert_correlation_condition_from_template() pass rule.condition.fieldref raw (and
     convert_correlation_search_field_normalization_expression() the alias field names), while
     group-by fields go through escape_and_quote_field().
"""
import sys

from sigma.collection import SigmaCollection
from sigma.backends.test import TextQueryTestBackend


class Backend(TextQueryTestBackend):
    # own templates, so that nothing depends on the quotes hard-coded in the fixture's template
    field_quote = "'"
    field_escape = "\\"
    cidr_expression = "cidrmatch({field}, \"{value}\")"


backend = Backend()
violations = 0

for name in ["src ip", "src'ip"]:
    quoted = backend.escape_and_quote_field(name)

    def convert(det):
        return backend.convert(
            SigmaCollection.from_dicts(
                [
                    {
                        "title": "t",
                        "logsource": {"category": "c"},
                        "detection": {"sel": det, "condition": "sel"},
                    }
                ]
            )
        )[0]

    q_str = convert({name: "x"})
    q_cidr = convert({name + "|cidr": "10.0.0.0/8"})
    ok = quoted in q_cidr
    print(f"field name {name!r}: escape_and_quote_field -> {quoted}")
    print(f"  string match query : {q_str}")
    print(f"  cidr query         : {q_cidr}")
    print(f"  expected the cidr query to contain {quoted};  {'ok' if ok else 'VIOLATION: name is emitted raw'}")
    if not ok:
        violations += 1

correlation = """
title: base
name: base
logsource: {category: c}
detection:
  sel:
    'User Name': x
  condition: sel
---
title: corr
correlation:
  type: value_count
  rules: [base]
  group-by: ['Src Host']
  timespan: 5m
  condition:
    field: 'User Name'
    gte: 3
"""
queries = backend.convert(SigmaCollection.from_yaml(correlation))
print("correlation query:")
print(queries[0])
quoted = backend.escape_and_quote_field("User Name")
ok = "value_count(" + quoted + ")" in queries[0]
print(f"  expected value_count({quoted}) like the detection field and the group-by field;  "
      f"{'ok' if ok else 'VIOLATION: value_count(User Name) is emitted raw'}")
if not ok:
    violations += 1

sys.exit(1 if violations else 0)
