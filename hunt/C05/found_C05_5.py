#!/usr/bin/env python
"""
C05 finding 5: the regular-expression form produced by RegexTransformation for a case-sensitive
string value (modifier 'cased') matches strings the value does not match: the value type is ignored
and the case-insensitive regular expression is generated for it as well.

Cause: RegexTransformation.apply_string_value() (sigma/processing/transformations/values.py) is
invoked for every SigmaString, including its subclass SigmaCasedString, and never looks at the
type; methods ignore_case_brackets (default) and ignore_case_flag therefore widen 'aBc*' (cased) to
all case variants.
"""
import re
import sys

from sigma.collection import SigmaCollection
from sigma.backends.test import TextQueryTestBackend
from sigma.processing.pipeline import ProcessingPipeline, ProcessingItem
from sigma.processing.transformations import RegexTransformation
from sigma.types import SigmaRegularExpression, SigmaRegularExpressionFlag

subjects = ["aBcd", "aBc", "ABCD", "abc", "xaBc"]
cased_expected = {s: s.startswith("aBc") for s in subjects}  # 'aBc*', case-sensitive

violations = 0
for method in ("ignore_case_brackets", "ignore_case_flag"):
    rule = SigmaCollection.from_dicts(
        [
            {
                "title": "t",
                "logsource": {"category": "c"},
                "detection": {"sel": {"f|cased": "aBc*"}, "condition": "sel"},
            }
        ]
    )
    pipeline = ProcessingPipeline([ProcessingItem(RegexTransformation(method=method))])
    backend = TextQueryTestBackend(pipeline)
    query = backend.convert(rule)[0]
    value = rule.rules[0].detection.detections["sel"].detection_items[0].value[0]
    assert isinstance(value, SigmaRegularExpression)
    flags = re.IGNORECASE if SigmaRegularExpressionFlag.IGNORECASE in value.flags else 0
    regex = re.compile(str(value.regexp), flags)
    actual = {s: bool(regex.fullmatch(s)) for s in subjects}
    ok = actual == cased_expected
    print(f"method {method}: value 'aBc*' with modifier cased -> query {query}")
    print(f"  expected matches (case-sensitive wildcard pattern): {cased_expected}")
    print(f"  regular expression matches                        : {actual}   {'ok' if ok else 'VIOLATION'}")
    if not ok:
        violations += 1

sys.exit(1 if violations else 0)
