"""C07 finding 6: an extended (string) correlation condition with some levels of parentheses or a
chain of 'not' makes loading fail with RecursionError instead of a Sigma error; in collecting mode
the RecursionError is raised as well.

The condition strings are syntactically valid expressions (20 pairs of parentheses around
'a and b'; 60 x 'not'). The extended condition is parsed at load time by
SigmaExtendedCorrelationCondition.__post_init__, which only translates pyparsing.ParseException.
"""
import sys
from sigma.correlations import SigmaCorrelationRule
from sigma.collection import SigmaCollection
from sigma.exceptions import SigmaError

def doc(cond):
    return f"""
title: C
correlation:
  type: temporal
  rules:
    - a
    - b
  timespan: 1h
  condition: "{cond}"
"""

violation = False
for label, cond in (
    ("3 parentheses (for comparison)", "(" * 3 + "a and b" + ")" * 3),
    ("20 parentheses", "(" * 20 + "a and b" + ")" * 20),
    ("60 x not", "not " * 60 + "a and b"),
):
    for name, load in (
        ("SigmaCorrelationRule.from_yaml", lambda ce: SigmaCorrelationRule.from_yaml(doc(cond), ce)),
        ("SigmaCollection.from_yaml", lambda ce: SigmaCollection.from_yaml(doc(cond), ce, resolve_references=False)),
    ):
        for collect in (False, True):
            mode = "collecting" if collect else "strict"
            try:
                r = load(collect)
                print(f"{label}, {name} [{mode}]: loaded, errors = {r.errors}")
            except SigmaError as e:
                print(f"{label}, {name} [{mode}]: Sigma error {e!r}")
                if collect:
                    violation = True
            except BaseException as e:
                print(f"{label}, {name} [{mode}]: expected success or a Sigma error, got NON-Sigma {type(e).__name__}: {str(e)[:60]}")
                violation = True

sys.exit(1 if violation else 0)
