"""C07 finding 2: collecting mode raises SigmaTypeError when a filter without a usable log source
is loaded together with a rule.

The filter document is obtained from a valid filter by deleting the key 'logsource' (or replacing
its value by a scalar). Strict loading raises SigmaLogsourceError. Expected in collecting mode:
no exception, errors[0] equal to that SigmaLogsourceError.
"""
import sys
from sigma.collection import SigmaCollection
from sigma.exceptions import SigmaError

RULE = """
title: Rule
logsource:
  category: test
detection:
  sel:
    a: b
  condition: sel
"""
FILTER = """
title: Filter
{logsource}
filter:
  rules: any
  sel:
    a: b
  condition: sel
"""

violation = False
for label, ls in (("logsource deleted", ""), ("logsource: 5", "logsource: 5"), ("logsource: {}", "logsource: {}")):
    doc = RULE + "---" + FILTER.format(logsource=ls)
    strict_exc = None
    try:
        SigmaCollection.from_yaml(doc)
    except SigmaError as e:
        strict_exc = e
    print(f"[{label}] strict loading raised: {strict_exc!r}")
    print(f"[{label}] expected: collecting mode returns, errors[0] == strict error")
    try:
        coll = SigmaCollection.from_yaml(doc, collect_errors=True)
        print(f"[{label}] actual: returned, errors = {coll.errors}")
        if not coll.errors or coll.errors[0] != strict_exc:
            violation = True
    except BaseException as e:
        print(f"[{label}] actual: collecting mode RAISED {type(e).__name__} - {e}")
        violation = True

sys.exit(1 if violation else 0)
