"""C07 finding 1: collecting mode raises when a correlation rule's reference can't be resolved.

A valid two-document collection (rule named 'base_rule' + correlation rule referencing it) is
mutated by replacing the value of the rule's 'name' with a YAML scalar of the wrong type (5).
Expected: SigmaCollection.from_yaml(..., collect_errors=True) does not raise; it returns a collection
whose first error equals the error strict loading raises (SigmaTypeError: name must be a string).
"""
import sys
from sigma.collection import SigmaCollection
from sigma.exceptions import SigmaError

DOC = """
title: Base
name: 5            # was: base_rule
logsource:
  category: test
detection:
  sel:
    a: b
  condition: sel
---
title: Correlation
correlation:
  type: event_count
  rules: base_rule
  group-by: a
  timespan: 5m
  condition:
    gte: 5
"""

violation = False
strict_exc = None
try:
    SigmaCollection.from_yaml(DOC)
except SigmaError as e:
    strict_exc = e
print("strict loading raised:", repr(strict_exc))

print("expected: collecting mode returns a collection with errors[0] == strict error")
try:
    coll = SigmaCollection.from_yaml(DOC, collect_errors=True)
    print("actual: returned, errors =", coll.errors)
    if not coll.errors or coll.errors[0] != strict_exc:
        violation = True
except BaseException as e:
    print("actual: collecting mode RAISED", type(e).__name__, "-", e)
    violation = True

# same with from_dicts and with a deleted key
import yaml
docs = list(yaml.safe_load_all(DOC))
del docs[0]["name"]
try:
    SigmaCollection.from_dicts(docs, collect_errors=True)
    print("deleted 'name', collecting mode: returned")
except BaseException as e:
    print("deleted 'name', collecting mode RAISED", type(e).__name__, "-", e)
    violation = True

sys.exit(1 if violation else 0)
