"""C07 finding 4: an out-of-range date written as plain YAML scalar escapes as ValueError.

`date: 2024-02-30` / `modified: 2023-13-01` (unquoted) match YAML's timestamp pattern, the YAML
constructor raises ValueError and nothing translates it. The same value written as a quoted string
is reported as SigmaDateError, which is what is expected here as well. Happens for rules,
correlation rules, filters and collections, in strict and in collecting mode, and also for a date
used as detection value.
"""
import sys
from sigma.collection import SigmaCollection
from sigma.correlations import SigmaCorrelationRule
from sigma.filters import SigmaFilter
from sigma.rule import SigmaRule
from sigma.exceptions import SigmaError

RULE = """
title: Rule
{extra}
logsource:
  category: test
detection:
  sel:
    a: {value}
  condition: sel
"""
CORR = """
title: C
date: 2024-02-30
correlation:
  type: event_count
  rules: r
  timespan: 5m
  condition:
    gte: 1
"""
FILT = """
title: F
modified: 2023-13-01
logsource:
  category: test
filter:
  rules: any
  sel:
    a: b
  condition: sel
"""
cases = [
    ("rule, date: '2024-02-30' (quoted, for comparison)", lambda ce: SigmaRule.from_yaml(RULE.format(extra="date: '2024-02-30'", value="b"), ce)),
    ("rule, date: 2024-02-30", lambda ce: SigmaRule.from_yaml(RULE.format(extra="date: 2024-02-30", value="b"), ce)),
    ("rule, modified: 2023-13-01", lambda ce: SigmaRule.from_yaml(RULE.format(extra="modified: 2023-13-01", value="b"), ce)),
    ("rule, detection value 2024-02-30", lambda ce: SigmaRule.from_yaml(RULE.format(extra="", value="2024-02-30"), ce)),
    ("correlation, date: 2024-02-30", lambda ce: SigmaCorrelationRule.from_yaml(CORR, ce)),
    ("filter, modified: 2023-13-01", lambda ce: SigmaFilter.from_yaml(FILT, ce)),
    ("collection, date: 2024-02-30", lambda ce: SigmaCollection.from_yaml(RULE.format(extra="date: 2024-02-30", value="b"), ce)),
]
violation = False
for label, load in cases:
    for collect in (False, True):
        mode = "collecting" if collect else "strict"
        try:
            r = load(collect)
            print(f"{label} [{mode}]: loaded, errors = {r.errors}")
        except SigmaError as e:
            print(f"{label} [{mode}]: Sigma error {e!r}")
            if collect:
                violation = True
        except BaseException as e:
            print(f"{label} [{mode}]: expected a Sigma error"
                  + (" collected in .errors" if collect else "")
                  + f", got NON-Sigma {type(e).__name__}: {e}")
            violation = True

sys.exit(1 if violation else 0)
