"""C07 finding 3: a filter whose detection identifier is not a string (YAML key `1:`, `null:`,
`true:`, `2024-01-01:` ...) loads fine as SigmaFilter, but loading it in a collection together with a
matching rule raises a plain TypeError (strict and collecting mode).

Expected: a Sigma error (strict) / a collected error or a clean load (collecting mode).
"""
import sys
from sigma.collection import SigmaCollection
from sigma.filters import SigmaFilter
from sigma.exceptions import SigmaError

RULE = """
title: Rule
logsource:
  category: test
detection:
  sel:
    a: b
  condition: sel
---
"""
FILTER = """
title: Filter
logsource:
  category: test
filter:
  rules: any
  1:
    a: b
  condition: not 1
"""

violation = False
try:
    f = SigmaFilter.from_yaml(FILTER)
    print("SigmaFilter.from_yaml alone: loaded, errors =", f.errors)
except SigmaError as e:
    print("SigmaFilter.from_yaml alone: Sigma error", repr(e))

for collect in (False, True):
    mode = "collecting" if collect else "strict"
    print(f"expected ({mode}): success or an exception from the Sigma error hierarchy"
          + (" - in collecting mode no exception at all" if collect else ""))
    try:
        coll = SigmaCollection.from_yaml(RULE + FILTER, collect_errors=collect)
        print(f"actual ({mode}): loaded, errors = {coll.errors}")
    except SigmaError as e:
        print(f"actual ({mode}): Sigma error {e!r}")
        if collect:
            violation = True
    except BaseException as e:
        print(f"actual ({mode}): NON-Sigma exception {type(e).__name__}: {e}")
        violation = True

sys.exit(1 if violation else 0)
