"""C07 finding 5: a document with a duplicated key fails with yaml.error.YAMLError, which is not
part of the Sigma error hierarchy, and it is raised in collecting mode as well.

The exception is created by the library's own loader (SigmaYAMLLoader.construct_mapping).
"""
import sys
from sigma.correlations import SigmaCorrelationRule
from sigma.filters import SigmaFilter
from sigma.rule import SigmaRule
from sigma.exceptions import SigmaError

RULE = """
title: Rule
level: low
level: high
logsource:
  category: test
detection:
  sel:
    a: b
  sel:
    a: c
  condition: sel
"""
CORR = """
title: C
correlation:
  type: event_count
  rules: r
  timespan: 5m
  timespan: 10m
  condition:
    gte: 1
"""
FILT = """
title: F
logsource:
  category: test
filter:
  rules: any
  rules: other
  sel:
    a: b
  condition: sel
"""
violation = False
for label, cls, doc in (("rule", SigmaRule, RULE), ("correlation", SigmaCorrelationRule, CORR), ("filter", SigmaFilter, FILT)):
    for collect in (False, True):
        mode = "collecting" if collect else "strict"
        try:
            r = cls.from_yaml(doc, collect)
            print(f"{label} [{mode}]: loaded, errors = {r.errors}")
        except SigmaError as e:
            print(f"{label} [{mode}]: Sigma error {e!r}")
            if collect:
                violation = True
        except BaseException as e:
            print(f"{label} [{mode}]: expected a Sigma error"
                  + (" collected in .errors (no exception)" if collect else "")
                  + f", got {type(e).__module__}.{type(e).__name__}: {e}"
                  + f" (is SigmaError: {isinstance(e, SigmaError)})")
            violation = True

sys.exit(1 if violation else 0)
