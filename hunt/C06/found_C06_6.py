"""C06 finding 6: after the 'regex' pipeline transformation (RegexTransformation) a detection item without
modifiers holds SigmaRegularExpression values. ValueTransformation.apply_detection() makes these the
new original_value and SigmaDetectionItem.to_plain() writes them as plain strings without the 're'
modifier (and without flags). No Sigma error is raised; the emitted dict means a plain string match."""
import sys
import yaml
from sigma.rule import SigmaRule
from sigma.collection import SigmaCollection
from sigma.backends.test import TextQueryTestBackend
from sigma.exceptions import SigmaError
from sigma.processing.pipeline import ProcessingPipeline, ProcessingItem
from sigma.processing.transformations import RegexTransformation

RULE = """
title: Regex transformation round trip
logsource:
    category: test
detection:
    sel:
        field: 'Foo*bar'
    condition: sel
"""


def convert(rule):
    return TextQueryTestBackend().convert(SigmaCollection([rule]))


bad = False
for method in ("ignore_case_brackets", "ignore_case_flag", "plain"):
    rule = SigmaRule.from_yaml(RULE)
    ProcessingPipeline([ProcessingItem(RegexTransformation(method=method))]).apply(rule)
    q1 = convert(rule)
    try:
        d = rule.to_dict()
    except SigmaError as e:
        print(f"[{method}] to_dict() raised {type(e).__name__} - acceptable")
        continue
    reloaded = SigmaRule.from_yaml(yaml.safe_dump(d, sort_keys=False))
    q2 = convert(reloaded)
    print(f"[{method}] detection written : {d['detection']}")
    print(f"[{method}] expected          : a Sigma error, or a dict that converts to {q1}")
    print(f"[{method}] query after reload: {q2}")
    if q1 != q2:
        bad = True

if bad:
    print("VIOLATION: regular expression written as plain string; no Sigma error was raised")
    sys.exit(1)
print("no violation")
sys.exit(0)
