"""Further C06 violations (distinct root causes) beyond the six found_C06_<n>.py files."""
import textwrap, yaml
from sigma.rule import SigmaRule
from sigma.correlations import SigmaCorrelationRule
from sigma.collection import SigmaCollection
from sigma.backends.test import TextQueryTestBackend
from sigma.exceptions import SigmaError
from sigma.processing.pipeline import ProcessingPipeline, ProcessingItem
from sigma.processing.transformations import *

BASE = "title: T\nlogsource:\n    category: test\n"
def mk(det): return BASE + "detection:\n" + textwrap.indent(textwrap.dedent(det).strip("\n"), "    ") + "\n"
def conv(r):
    try: return TextQueryTestBackend().convert(SigmaCollection([r]))
    except Exception as e: return f"EXC {type(e).__name__}: {e}"
def after_pipeline(label, det, tr):
    r = SigmaRule.from_yaml(mk(det)); ProcessingPipeline([ProcessingItem(tr)]).apply(r)
    q1 = conv(r)
    try: d = r.to_dict()
    except SigmaError as e: print(label, "SigmaError (fine)"); return
    q2 = conv(SigmaRule.from_yaml(yaml.safe_dump(d, sort_keys=False)))
    print(f"{label}: {'VIOLATION' if q1 != q2 else 'ok'}\n   written: {d['detection']}\n   in-memory rule: {q1}\n   reloaded rule : {q2}")
def plain(label, det):
    r = SigmaRule.from_yaml(mk(det)); q1 = conv(r)
    try: d = r.to_dict()
    except SigmaError as e: print(f"{label}: freshly loaded rule can't be written: {type(e).__name__}: {e}"); return
    q2 = conv(SigmaRule.from_yaml(yaml.safe_dump(d, sort_keys=False)))
    print(f"{label}: {'VIOLATION' if q1 != q2 else 'ok'}\n   written: {d['detection']}\n   loaded rule  : {q1}\n   reloaded rule: {q2}")

# 7: AND-linked nested detections (extract_fields on an |all item) are written as list = OR
after_pipeline("E7 extract_fields + all", """
    sel:
        reg|all: ['Dword:1', 'Qword:2']
    condition: sel
""", ExtractFieldsTransformation(regex=r"(?P<type>[A-Za-z]+):(?P<val>[0-9]+)", field_prefix="reg"))
# 8: one-to-many field mapping with a single target: dataclasses.replace() re-runs __post_init__, original_value := modified values, modifiers kept
after_pipeline("E8 field mapping to ['x'] + base64", """
    sel:
        f|base64: abc
    condition: sel
""", FieldMappingTransformation({"f": ["x"]}))
# 9: two fields mapped onto the same name, both with neq: keys merged into 'g|neq|all'
after_pipeline("E9 field mapping collision with neq", """
    sel:
        f|neq: a
        g|neq: b
    condition: sel
""", FieldMappingTransformation({"f": "g"}))
# 10: integer > 2**53 is stored as float, written as float, reloaded as (different looking) int
plain("E10 big int", """
    sel:
        filetime: 132537408000000001
    condition: sel
""")
# 11: empty key (plain keyword inside a map) next to other keys
plain("E11 empty key in map", """
    sel:
        '': keyword
        f: v
    condition: sel
""")
# 12: keyword null
plain("E12 keyword null", """
    sel: null
    sel2:
        f: v
    condition: sel2
""")
# 13: correlation condition field '' is dropped -> output can't be loaded
c = SigmaCorrelationRule.from_yaml("""
title: C
correlation:
    type: value_count
    rules: [r1]
    timespan: 1h
    condition:
        gte: 1
        field: ''
""")
try:
    SigmaCorrelationRule.from_dict(c.to_dict()); print("E13 ok")
except SigmaError as e:
    print("E13 correlation field '': reload of to_dict() output fails:", e)
