"""C06 finding 4: a rule whose date/modified is a YAML timestamp with a time part (accepted by
from_dict(), which explicitly lets datetime objects through) is written with date.isoformat(),
i.e. '2024-01-01T10:00:00', which the loader then rejects: the output of to_dict() cannot be loaded."""
import sys
import yaml
from sigma.rule import SigmaRule
from sigma.exceptions import SigmaError

RULE = """
title: Datetime round trip
date: 2024-01-01 10:00:00
modified: 2024-02-03T04:05:06Z
logsource:
    category: test
detection:
    sel:
        field: value
    condition: sel
"""

rule = SigmaRule.from_yaml(RULE)  # loads without error
print("loaded date/modified :", repr(rule.date), repr(rule.modified))
d = rule.to_dict()
print("written date/modified:", d["date"], d["modified"])
bad = False
for how, load in (
    ("dict", lambda: SigmaRule.from_dict(d)),
    ("yaml", lambda: SigmaRule.from_yaml(yaml.safe_dump(d, sort_keys=False))),
):
    try:
        r2 = load()
        print(f"[{how}] expected: reload succeeds with same dict form; got dict equal: {r2.to_dict() == d}")
        if r2.to_dict() != d:
            bad = True
    except SigmaError as e:
        print(f"[{how}] expected: reload succeeds; actual: {type(e).__name__}: {e}")
        bad = True

if bad:
    print("VIOLATION: the serialised form of a successfully loaded rule can't be loaded again")
    sys.exit(1)
print("no violation")
sys.exit(0)
