"""C06 finding 1: SigmaString.to_plain() does not escape backslashes, so a literal backslash that
precedes a wildcard / another backslash changes its meaning when the rule is written out and reloaded."""
import sys
import yaml
from sigma.rule import SigmaRule
from sigma.collection import SigmaCollection
from sigma.backends.test import TextQueryTestBackend

RULE = r"""
title: Backslash round trip
logsource:
    category: test
detection:
    sel:
        unc|startswith: '\\\\srv'    # two literal backslashes + srv (UNC path), very common in Sigma rules
        dir: 'C:\\*'                 # literal backslash followed by a wildcard
    condition: sel
"""


def convert(rule):
    return TextQueryTestBackend().convert(SigmaCollection([rule]))


rule = SigmaRule.from_yaml(RULE)
d = rule.to_dict()
bad = False
for how, reloaded in (
    ("dict", SigmaRule.from_dict(d)),
    ("yaml", SigmaRule.from_yaml(yaml.safe_dump(d, sort_keys=False))),
):
    q1 = convert(SigmaRule.from_yaml(RULE))
    q2 = convert(reloaded)
    d2 = reloaded.to_dict()
    print(f"[{how}] dict form written  : {d['detection']}")
    print(f"[{how}] dict form reloaded : {d2['detection']}")
    print(f"[{how}] expected query     : {q1}")
    print(f"[{how}] query after reload : {q2}")
    if d != d2 or q1 != q2:
        bad = True

if bad:
    print("VIOLATION: serialised rule has a different meaning (backslashes not escaped by to_plain)")
    sys.exit(1)
print("no violation")
sys.exit(0)
