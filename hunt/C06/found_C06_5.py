"""C06 finding 5: SigmaLogSource.to_dict() iterates over *all* dataclass fields and str()s them, including the
internal 'source' (file the rule was loaded from) and 'custom_attributes'. A rule loaded from a file gets
'logsource: {source: /path/to/file.yml}' written into it, custom log source attributes are written as the
repr of a dict under the key 'custom_attributes' instead of under their own keys, and both vanish on reload."""
import pathlib
import sys
import tempfile
import yaml
from sigma.rule import SigmaRule
from sigma.collection import SigmaCollection

RULE = """
title: Log source round trip
logsource:
    category: test
    product: windows
    vendor_hint: foo          # custom log source attribute
detection:
    sel:
        field: value
    condition: sel
"""

bad = False

# (a) custom log source attributes
rule = SigmaRule.from_yaml(RULE)
d = rule.to_dict()
print("(a) logsource in source   : {'category': 'test', 'product': 'windows', 'vendor_hint': 'foo'}")
print("(a) logsource in to_dict():", d["logsource"])
r2 = SigmaRule.from_yaml(yaml.safe_dump(d, sort_keys=False))
print("(a) logsource after reload:", r2.to_dict()["logsource"], "custom_attributes =", r2.logsource.custom_attributes)
if d["logsource"].get("vendor_hint") != "foo" or "custom_attributes" in d["logsource"]:
    bad = True
if r2.to_dict() != d or r2.logsource.custom_attributes != rule.logsource.custom_attributes:
    bad = True

# (b) rule loaded from a file: path of the file leaks into the log source
with tempfile.TemporaryDirectory() as tmp:
    path = pathlib.Path(tmp) / "rule.yml"
    path.write_text(RULE)
    rule_f = SigmaCollection.load_ruleset([pathlib.Path(tmp)]).rules[0]
    d_f = rule_f.to_dict()
    print("(b) logsource in to_dict() of rule loaded from file:", d_f["logsource"])
    r3 = SigmaRule.from_dict(d_f)
    print("(b) logsource after reload                         :", r3.to_dict()["logsource"])
    if "source" in d_f["logsource"] or r3.to_dict() != d_f:
        bad = True

if bad:
    print("VIOLATION: log source is not written faithfully (internal fields emitted, custom attributes lost)")
    sys.exit(1)
print("no violation")
sys.exit(0)
