"""C06 finding 3: SigmaRuleBase.to_dict() silently drops the metadata fields 'taxonomy', 'license' and
'related', although from_dict() parses them. The written dict/YAML describes a rule with different
metadata, and a pipeline that is conditional on such an attribute converts the reloaded rule differently."""
import sys
import yaml
from sigma.rule import SigmaRule
from sigma.collection import SigmaCollection
from sigma.backends.test import TextQueryTestBackend
from sigma.processing.pipeline import ProcessingPipeline, ProcessingItem
from sigma.processing.transformations import AddFieldnamePrefixTransformation
from sigma.processing.conditions import RuleAttributeCondition

RULE = """
title: Metadata round trip
id: 0d2f2a0c-2c2b-4b1d-9f0e-0b9d4a3b7c11
taxonomy: ecs
license: MIT
related:
    - id: 929a690e-bef0-4204-a928-ef5e620d6fcc
      type: derived
logsource:
    category: test
detection:
    sel:
        field: value
    condition: sel
"""


def convert(rule):
    # pipeline that only touches rules written in the 'ecs' taxonomy
    pipeline = ProcessingPipeline(
        [
            ProcessingItem(
                AddFieldnamePrefixTransformation("ecs."),
                rule_conditions=[RuleAttributeCondition("taxonomy", "ecs")],
            )
        ]
    )
    return TextQueryTestBackend(pipeline).convert(SigmaCollection([rule]))


rule = SigmaRule.from_yaml(RULE)
d = rule.to_dict()
print("to_dict() keys:", sorted(d.keys()))
bad = False
for key in ("taxonomy", "license", "related"):
    if key not in d:
        print(f"expected key '{key}' in serialised rule, but it is missing")
        bad = True

for how, reloaded in (
    ("dict", SigmaRule.from_dict(d)),
    ("yaml", SigmaRule.from_yaml(yaml.safe_dump(d, sort_keys=False))),
):
    for attr in ("taxonomy", "license", "related"):
        a, b = getattr(rule, attr), getattr(reloaded, attr)
        if a != b:
            print(f"[{how}] attribute {attr}: expected {a!r}, reloaded rule has {b!r}")
            bad = True
    q1 = convert(SigmaRule.from_yaml(RULE))
    q2 = convert(reloaded)
    print(f"[{how}] expected query     : {q1}")
    print(f"[{how}] query after reload : {q2}")
    if q1 != q2:
        bad = True

if bad:
    print("VIOLATION: taxonomy/license/related are lost when the rule is written out")
    sys.exit(1)
print("no violation")
sys.exit(0)
