r"""C06 finding 2: with the 'expand' modifier an escaped percent sign (\%) is lost on serialisation.
SigmaDetectionItem keeps only a shallow copy of the values as original_value, and
SigmaString.insert_placeholders() (expand modifier) rewrites the very same object in place
(\% -> %), so to_plain() prints the literal % unescaped and it becomes a placeholder delimiter on reload."""
import sys
import yaml
from sigma.rule import SigmaRule
from sigma.collection import SigmaCollection
from sigma.backends.test import TextQueryTestBackend
from sigma.processing.pipeline import ProcessingPipeline, ProcessingItem
from sigma.processing.transformations import WildcardPlaceholderTransformation

RULE = r"""
title: Expand round trip
logsource:
    category: test
detection:
    sel:
        cmd|expand: '100\% of %user%'     # literal "100% of " followed by placeholder 'user'
    condition: sel
"""


def convert(rule):
    # resolve placeholders into wildcards so that a query can be generated
    pipeline = ProcessingPipeline([ProcessingItem(WildcardPlaceholderTransformation())])
    return TextQueryTestBackend(pipeline).convert(SigmaCollection([rule]))


rule = SigmaRule.from_yaml(RULE)
d = rule.to_dict()
print("value in source      : 100\\% of %user%")
print("value in to_dict()   :", d["detection"]["sel"]["cmd|expand"])
bad = False
for how, reloaded in (
    ("dict", SigmaRule.from_dict(d)),
    ("yaml", SigmaRule.from_yaml(yaml.safe_dump(d, sort_keys=False))),
):
    q1 = convert(SigmaRule.from_yaml(RULE))
    q2 = convert(reloaded)
    print(f"[{how}] expected query     : {q1}")
    print(f"[{how}] query after reload : {q2}")
    if q1 != q2:
        bad = True

if bad:
    print("VIOLATION: escaped percent sign became a placeholder delimiter after the round trip")
    sys.exit(1)
print("no violation")
sys.exit(0)
