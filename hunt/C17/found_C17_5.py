"""C17 finding 5: the pipeline replaces placeholders inside the rule object itself; converting the same rule
(collection) a second time with another pipeline emits the replacements of the FIRST pipeline, and a pipeline
without any placeholder transformation no longer fails."""
import sys
from sigma.collection import SigmaCollection
from sigma.backends.test import TextQueryTestBackend
from sigma.processing.pipeline import ProcessingPipeline
from sigma.exceptions import SigmaError

RULE = """
title: t
logsource: {category: test}
detection:
  sel:
    f|expand: 'a%x%'
  condition: sel
"""
P1 = "vars: {x: [v1]}\ntransformations: [{type: value_placeholders}]"
P2 = "vars: {x: [other]}\ntransformations: [{type: value_placeholders}]"
PW = "transformations: [{type: wildcard_placeholders}]"
P0 = "transformations: []"

def conv(coll, p):
    try:
        return TextQueryTestBackend(ProcessingPipeline.from_yaml(p)).convert(coll)
    except SigmaError as e:
        return f"{type(e).__name__}: {e}"

bad = False
coll = SigmaCollection.from_yaml(RULE)
print("1st conversion, x = [v1]   :", conv(coll, P1))
r = conv(coll, P2)
print("2nd conversion, x = [other]:", r, "   expected: f=\"aother\"")
if "other" not in str(r):
    print("  -> VIOLATION: query does not contain the replacements configured in the pipeline that was used")
    bad = True

coll = SigmaCollection.from_yaml(RULE)
print("1st conversion, wildcard_placeholders:", conv(coll, PW))
r = conv(coll, P0)
print("2nd conversion, no placeholder item  :", r, "   expected: Sigma error naming placeholder x")
if "placeholder 'x'" not in str(r):
    print("  -> VIOLATION: no error although this pipeline resolves no placeholder")
    bad = True
sys.exit(1 if bad else 0)
