"""C17 finding 3: in regular-expression position the wildcard placeholder transformation inserts a bare '*'
(a regex quantifier that applies to the preceding character), not a wildcard."""
import re, sys
from sigma.collection import SigmaCollection
from sigma.backends.test import TextQueryTestBackend
from sigma.processing.pipeline import ProcessingPipeline
from sigma.exceptions import SigmaError, SigmaPlaceholderError

PIPELINE = """
transformations:
  - type: wildcard_placeholders
"""
RULE = """
title: t
logsource: {category: test}
detection:
  sel:
    f|re|expand: '%s'
  condition: sel
"""
bad = False
for value, subject in [("a%x%b", "aXYZb"), ("%x%b", "XYZb"), ("[ab]%x%c", "aXYZc")]:
    print(f"rule item  f|re|expand: '{value}'   pipeline: wildcard_placeholders")
    print(f"  expected: placeholder replaced by a wildcard (regex that matches e.g. '{subject}'), or a Sigma error naming x")
    try:
        coll = SigmaCollection.from_yaml(RULE % value)
        q = TextQueryTestBackend(ProcessingPipeline.from_yaml(PIPELINE)).convert(coll)
        rx = coll.rules[0].detection.detections["sel"].detection_items[0].value[0].regexp.to_plain()
        print("  actual  :", q, "  regex:", rx)
        if not re.fullmatch(rx, subject):
            print(f"  -> VIOLATION: regex {rx!r} does not match {subject!r}; '*' is a quantifier here, not a wildcard")
            bad = True
    except SigmaError as e:
        print("  actual  :", type(e).__name__, e)
        if not isinstance(e, SigmaPlaceholderError):
            print("  -> VIOLATION: the handled placeholder was turned into an invalid regex; this is no 'unresolved placeholder' error")
            bad = True
sys.exit(1 if bad else 0)
