"""C17 finding 6: a boolean in a variable table (wrong type: neither string nor number) is not rejected but
emitted as the Python text 'True' / 'False'."""
import sys
from sigma.collection import SigmaCollection
from sigma.backends.test import TextQueryTestBackend
from sigma.processing.pipeline import ProcessingPipeline
from sigma.exceptions import SigmaError

RULE = """
title: t
logsource: {category: test}
detection:
  sel:
    f|expand: 'a%x%'
  condition: sel
"""
bad = False
for v in ["true", "[yes, 1]", "null", "[{a: 1}]"]:
    p = "vars: {x: %s}\ntransformations: [{type: value_placeholders}]" % v
    print(f"vars: x: {v}")
    print("  expected: SigmaValueError \"Replacement variable 'x' contains value which is not a string or number.\"")
    try:
        q = TextQueryTestBackend(ProcessingPipeline.from_yaml(p)).convert(SigmaCollection.from_yaml(RULE))
        print("  actual  :", q)
        print("  -> VIOLATION: wrong-typed value accepted and printed in its Python spelling")
        bad = True
    except SigmaError as e:
        print("  actual  :", type(e).__name__, e)
sys.exit(1 if bad else 0)
