r"""C17 finding 1: a placeholder that directly follows a (escaped) backslash is emitted as raw %name% text.

Rule value (YAML single quoted):  '\\%x%'   i.e. escaped backslash + placeholder x
and the common path form          'C:\Users\\%x%\AppData'
"""
import sys
from sigma.collection import SigmaCollection
from sigma.backends.test import TextQueryTestBackend
from sigma.processing.pipeline import ProcessingPipeline
from sigma.exceptions import SigmaError

PIPELINE = """
vars:
  x: [v1, v2]
transformations:
  - type: value_placeholders
"""

RULE = r"""
title: t
logsource: {category: test}
detection:
  sel:
    "%s": '%s'
  condition: sel
"""

bad = False
for key, value in [
    ("f|expand", r"\\%x%"),
    ("f|expand", r"C:\Users\\%x%\AppData"),
    ("f|contains|expand", r"dir\\%x%"),
    ("|expand", r"\\%x%"),
    ("f|re|expand", r"a\\%x%"),
]:
    backend = TextQueryTestBackend(ProcessingPipeline.from_yaml(PIPELINE))
    print(f"rule item  {key}: '{value}'   pipeline: value_placeholders, x = [v1, v2]")
    print("  expected: backslash followed by v1 / v2 (OR-linked), or a Sigma error naming placeholder x")
    try:
        q = backend.convert(SigmaCollection.from_yaml(RULE % (key, value)))
        print("  actual  :", q)
        if any("%x%" in s for s in q):
            print("  -> VIOLATION: raw placeholder text %x% in the query")
            bad = True
    except SigmaError as e:
        print("  actual  : Sigma error:", e)
sys.exit(1 if bad else 0)
