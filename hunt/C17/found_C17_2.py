"""C17 finding 2: under the 'all' modifier the replacements of ONE placeholder are AND-linked instead of OR-linked."""
import sys
from sigma.collection import SigmaCollection
from sigma.backends.test import TextQueryTestBackend
from sigma.processing.pipeline import ProcessingPipeline
from sigma.conditions import ConditionAND

PIPELINE = """
vars:
  x: [v1, v2]
transformations:
  - type: value_placeholders
"""
RULE = """
title: t
logsource: {category: test}
detection:
  sel:
    "%s":
      - '%%x%%'
      - 'lit'
  condition: sel
"""
bad = False
for key in ["f|all|expand", "f|contains|all|expand", "|all|expand", "f|re|all|expand"]:
    coll = SigmaCollection.from_yaml(RULE % key)
    backend = TextQueryTestBackend(ProcessingPipeline.from_yaml(PIPELINE))
    q = backend.convert(coll)
    item = coll.rules[0].detection.detections["sel"].detection_items[0]
    print(f"rule item  {key}: ['%x%', 'lit']   x = [v1, v2]")
    print("  expected: (v1 OR v2) AND lit   - the alternatives of one placeholder are OR-linked")
    print("  actual  :", q)
    print("            value list after pipeline:", item.value, "linking:", item.value_linking.__name__)
    # after the pipeline the two alternatives v1, v2 are plain members of the AND-linked value list
    if item.value_linking is ConditionAND and len(item.value) == 3:
        print("  -> VIOLATION: v1 AND v2 AND lit (for an equality match this can never be true)")
        bad = True
sys.exit(1 if bad else 0)
