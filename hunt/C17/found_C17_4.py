"""C17 finding 4: the query-expression placeholder transformation ignores its include/exclude list when it
rejects values: a value whose placeholder it does NOT handle (left to a later transformation, as documented for
include/exclude) makes the rule fail, and the error names no placeholder."""
import sys
from sigma.collection import SigmaCollection
from sigma.backends.test import TextQueryTestBackend
from sigma.processing.pipeline import ProcessingPipeline
from sigma.exceptions import SigmaError

PIPELINE = """
vars:
  y: [w1, w2]
transformations:
  - type: query_expression_placeholders
    include: [x]
    expression: "{field} lookup {id}"
  - type: value_placeholders
    include: [y]
"""
RULE = """
title: t
logsource: {category: test}
detection:
  sel:
    "%s": '%s'
  condition: sel
"""
bad = False
for key, value in [("f|expand", "pre%y%"), ("f|contains|expand", "%y%"), ("f|expand", "%y%")]:
    print(f"rule item  {key}: '{value}'   pipeline: query_expression(include=[x]) , value_placeholders(include=[y]), y = [w1, w2]")
    print("  expected: y is not on the include list of the first item, it is left alone and the second item inserts w1 / w2")
    try:
        q = TextQueryTestBackend(ProcessingPipeline.from_yaml(PIPELINE)).convert(SigmaCollection.from_yaml(RULE % (key, value)))
        print("  actual  :", q)
    except SigmaError as e:
        print("  actual  :", type(e).__name__, e)
        if "'y'" not in str(e):
            print("  -> VIOLATION: placeholder y is completely configured, yet the rule fails, with an error that names no placeholder")
            bad = True
sys.exit(1 if bad else 0)
