"""C13 finding 6: the query post-processing transformations 'simple_template' and 'template' do not record
that their item was applied to the rule, so a later item's rule condition 'processing_item_applied' is false
although the item was applied (it is true for 'embed', 'replace', 'json')."""
import sys
from sigma.collection import SigmaCollection
from sigma.backends.test import TextQueryTestBackend
from sigma.processing.pipeline import ProcessingPipeline

RULE = """
title: t
logsource: {category: test}
detection:
  sel: {a: foo}
  condition: sel
"""
bad = 0
for name, first in (("embed", "{id: first, type: embed, prefix: '[', suffix: ']'}"),
                    ("simple_template", "{id: first, type: simple_template, template: '[{query}]'}"),
                    ("template", "{id: first, type: template, template: '[{{ query }}]'}")):
    p = ProcessingPipeline.from_yaml(f"""
postprocessing:
  - {first}
  - type: embed
    prefix: "SECOND("
    suffix: ")"
    rule_conditions:
      - type: processing_item_applied
        processing_item_id: first
""")
    out = TextQueryTestBackend(p).convert(SigmaCollection.from_yaml(RULE))
    expected = ['SECOND([a="foo"])']
    ok = out == expected
    bad += not ok
    print(f"first item of type {name}: expected {expected}, actual {out}" + ("" if ok else "   <-- VIOLATION (first was applied, condition says it was not)"))
sys.exit(1 if bad else 0)
