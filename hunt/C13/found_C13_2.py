"""C13 finding 2: items inside a 'nest' transformation evaluate state conditions (and field-name
'processing_item_applied' conditions) against the private, freshly reset state of the nested pipeline,
so they do not observe what the preceding items of the enclosing pipeline did to the same rule."""
import sys
from sigma.rule import SigmaRule
from sigma.processing.pipeline import ProcessingPipeline

RULE = """
title: t
logsource: {category: test}
fields: [a, c]
detection:
  sel:
    a: 1
    c: 2
  condition: sel
"""

ITEMS = """
      - id: state_rule
        type: field_name_prefix
        prefix: "R."
        rule_conditions:
          - {type: processing_state, key: k, val: v}
      - id: state_di
        type: set_value
        value: CHANGED
        detection_item_conditions:
          - {type: processing_state, key: k, val: v}
"""
HEAD = """
transformations:
  - {id: s, type: set_state, key: k, val: v}
"""
flat = HEAD + ITEMS.replace("      - ", "  - ").replace("        ", "    ")
nested = HEAD + "  - type: nest\n    items:" + ITEMS
two_nests = """
transformations:
  - type: nest
    items:
      - {id: s, type: set_state, key: k, val: v}
  - type: nest
    items:""" + ITEMS

def run(y):
    r = SigmaRule.from_yaml(RULE)
    ProcessingPipeline.from_yaml(y).apply(r)
    return [(d.field, [str(v) for v in d.value]) for d in r.detection.detections["sel"].detection_items], r.fields

expected = run(flat)
print("expected (same items, not nested):", expected)
bad = 0
for name, y in (("set_state outside, conditional items in nest", nested), ("set_state in first nest, conditional items in second nest", two_nests)):
    actual = run(y)
    ok = actual == expected
    bad += not ok
    print(f"{name}: actual {actual}" + ("" if ok else "   <-- VIOLATION (state key k=v was set before, items not applied)"))
sys.exit(1 if bad else 0)
