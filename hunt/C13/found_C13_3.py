"""C13 finding 3: the field-name condition 'processing_item_applied' (not negated) never holds for the field
of a detection item, although the referenced item was applied to exactly that field: the renaming of a
detection item's field is not recorded in the per-field tracking of the pipeline, and a record that came
from the rule's 'fields' list is deleted as soon as the list entry is renamed again."""
import sys
from sigma.rule import SigmaRule
from sigma.processing.pipeline import ProcessingPipeline

PIPELINE = """
transformations:
  - id: m1
    type: field_name_mapping
    mapping: {a: b}
  - id: m2
    type: field_name_suffix
    suffix: ".done"
    field_name_conditions:
      - type: processing_item_applied
        processing_item_id: m1
"""

def run(fields_line):
    r = SigmaRule.from_yaml(f"""
title: t
logsource: {{category: test}}
{fields_line}
detection:
  sel:
    a: 1
    c: 2
  condition: sel
""")
    ProcessingPipeline.from_yaml(PIPELINE).apply(r)
    return [d.field for d in r.detection.detections["sel"].detection_items], r.fields

bad = 0
for fields_line, exp in (("", (["b.done", "c"], [])), ("fields: [a, c]", (["b.done", "c"], ["b.done", "c"]))):
    act = run(fields_line)
    ok = act == exp
    bad += not ok
    print(f"rule with {fields_line or 'no fields list'!r}: m1 renamed field a -> b, so m2 (condition: m1 was applied to the field) must rename b -> b.done")
    print(f"   expected (detection item fields, fields list) = {exp}")
    print(f"   actual                                        = {act}" + ("" if ok else "   <-- VIOLATION"))
sys.exit(1 if bad else 0)
