"""C13 finding 4: field-name conditions are evaluated for a detection item as
"field matches OR any referenced field (|fieldref value) matches", and negation / NOT is applied to that
aggregate. Consequences:
 (a) 'include_fields [A]' negated (or 'not c' in an expression) is not the same as 'exclude_fields [A]': the
     field reference B inside item 'A|fieldref: B' is not renamed although the negated condition is true for B.
 (b) transformations that act on the whole detection item (set_value, drop_detection_item, ...) are applied
     to an item whose own field does NOT satisfy the field-name condition, because a value refers to a field
     that does."""
import sys
from sigma.rule import SigmaRule
from sigma.types import SigmaFieldReference
from sigma.processing.pipeline import ProcessingPipeline

def rule(det):
    return SigmaRule.from_yaml(f"""
title: t
logsource: {{category: test}}
detection:
  sel:
{det}
  condition: sel
""")

def show(r):
    return [(d.field, [("ref:" + v.field) if isinstance(v, SigmaFieldReference) else str(v) for v in d.value])
            for d in r.detection.detections["sel"].detection_items]

bad = 0
# (a)
det = "    A|fieldref: B\n    B: 1"
variants = {
 "exclude_fields [A]": "    field_name_conditions:\n      - {type: exclude_fields, fields: [A]}",
 "include_fields [A] + field_name_cond_not": "    field_name_conditions:\n      - {type: include_fields, fields: [A]}\n    field_name_cond_not: true",
 "include_fields [A] as c, expression 'not c'": "    field_name_conditions:\n      c: {type: include_fields, fields: [A]}\n    field_name_cond_expr: not c",
}
expected = [("A", ["ref:p.B"]), ("p.B", ["1"])]
print("(a) prefix 'p.' for every field name that is not A; expected", expected)
for name, cond in variants.items():
    r = rule(det)
    ProcessingPipeline.from_yaml(f"transformations:\n  - type: field_name_prefix\n    prefix: 'p.'\n{cond}\n").apply(r)
    act = show(r)
    ok = act == expected
    bad += not ok
    print(f"   {name}: {act}" + ("" if ok else "   <-- VIOLATION (referenced field B not renamed)"))

# (b)
r = rule("    x|fieldref: a\n    a: orig\n    y: orig")
ProcessingPipeline.from_yaml("""
transformations:
  - type: set_value
    value: CHANGED
    field_name_conditions:
      - {type: include_fields, fields: [a]}
""").apply(r)
act = show(r)
expected = [("x", ["ref:a"]), ("a", ["CHANGED"]), ("y", ["orig"])]
ok = act == expected
bad += not ok
print("(b) set_value only for field a; expected", expected)
print("   actual", act, "" if ok else "   <-- VIOLATION (item with field x was changed)")

r = rule("    x|fieldref: a\n    x: keep\n    y: dropme")
ProcessingPipeline.from_yaml("""
transformations:
  - type: drop_detection_item
    field_name_conditions:
      - {type: exclude_fields, fields: [x]}
""").apply(r)
act = show(r)
expected = [("x", ["ref:a"]), ("x", ["keep"])]
ok = act == expected
bad += not ok
print("(b') drop every item except those with field x; expected", expected)
print("   actual", act, "" if ok else "   <-- VIOLATION (an item with the excluded field x was dropped)")
sys.exit(1 if bad else 0)
