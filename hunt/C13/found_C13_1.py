"""C13 finding 1: rule_attribute condition on an integer (or boolean) rule attribute is always true,
whatever operator and comparison value are configured."""
import sys, warnings
warnings.simplefilter("ignore")
from sigma.rule import SigmaRule
from sigma.processing.pipeline import ProcessingPipeline

RULE = """
title: t
logsource: {category: test}
severity_score: 5
detection:
  sel: {a: foo}
  condition: sel
"""

def run(op, value):
    p = ProcessingPipeline.from_yaml(f"""
transformations:
  - type: field_name_prefix
    prefix: "p."
    rule_conditions:
      - type: rule_attribute
        attribute: severity_score
        value: {value}
        op: {op}
""")
    r = SigmaRule.from_yaml(RULE)
    p.apply(r)
    return r.detection.detections["sel"].detection_items[0].field == "p.a"

import operator
ops = {"eq": operator.eq, "ne": operator.ne, "lt": operator.lt, "lte": operator.le, "gt": operator.gt, "gte": operator.ge}
bad = 0
for op, f in ops.items():
    for value in (4, 5, 6):
        expected = f(5, value)   # rule attribute severity_score is 5
        actual = run(op, value)
        flag = "" if expected == actual else "   <-- VIOLATION"
        if expected != actual:
            bad += 1
        print(f"severity_score(5) {op} {value}: expected applied={expected}, actual applied={actual}{flag}")
print(f"{bad} wrong decisions")
sys.exit(1 if bad else 0)
