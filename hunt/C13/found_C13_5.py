"""C13 finding 5: when a transformation replaces a detection item by new detection item objects
(one-to-many field mapping, hashes_fields, extract_fields), the record of the processing items applied
so far to that detection item is lost; a later 'processing_item_applied' detection item condition that
refers to an item applied BEFORE the replacement is false, and its negation is true."""
import sys
from sigma.rule import SigmaRule, SigmaDetection
from sigma.processing.pipeline import ProcessingPipeline

def flat(d):
    out = []
    for i in d.detection_items:
        if isinstance(i, SigmaDetection):
            out.extend(flat(i))
        else:
            out.append((i.field, [str(v) for v in i.value]))
    return out

def run(mapping):
    p = ProcessingPipeline.from_yaml(f"""
transformations:
  - id: first
    type: set_value
    value: first
    field_name_conditions:
      - {{type: include_fields, fields: [a]}}
  - id: m
    type: field_name_mapping
    mapping: {mapping}
  - id: after
    type: set_value
    value: after-first
    detection_item_conditions:
      - type: processing_item_applied
        processing_item_id: first
""")
    r = SigmaRule.from_yaml("""
title: t
logsource: {category: test}
detection:
  sel:
    a: orig
    b: orig
  condition: sel
""")
    p.apply(r)
    return flat(r.detection.detections["sel"])

bad = 0
for mapping, expected in (("{a: x}", [("x", ["after-first"]), ("b", ["orig"])]),
                          ("{a: [x, y]}", [("x", ["after-first"]), ("y", ["after-first"]), ("b", ["orig"])])):
    act = run(mapping)
    ok = act == expected
    bad += not ok
    print(f"mapping {mapping}: item 'first' was applied to detection item a, so item 'after' must apply to it after the renaming")
    print(f"   expected {expected}")
    print(f"   actual   {act}" + ("" if ok else "   <-- VIOLATION"))
sys.exit(1 if bad else 0)
