"""C14 finding 1: a pipeline cannot be added to itself / the same pipeline cannot be resolved twice in one list.

p + p must convert like one pipeline that contains p's items followed by p's items again
(concatenation). Instead the addition raises SigmaProcessingItemError.
"""
import sys
from sigma.backends.test import TextQueryTestBackend
from sigma.collection import SigmaCollection
from sigma.processing.pipeline import ProcessingPipeline, ProcessingItem, QueryPostprocessingItem
from sigma.processing.postprocessing import EmbedQueryTransformation
from sigma.processing.resolver import ProcessingPipelineResolver
from sigma.processing.transformations import AddFieldnameSuffixTransformation

RULE = """
title: T
logsource: {category: test}
detection:
  sel: {fieldA: valueA}
  condition: sel
"""


def mk(name):
    return ProcessingPipeline(
        items=[ProcessingItem(AddFieldnameSuffixTransformation("_x"))],
        postprocessing_items=[QueryPostprocessingItem(EmbedQueryTransformation("(", ")"))],
        name=name,
        priority=1,
    )


def conv(p):
    return TextQueryTestBackend(p).convert(SigmaCollection.from_yaml(RULE))


# the literal pipeline: a's parts followed by a's parts
literal = ProcessingPipeline(
    items=[
        ProcessingItem(AddFieldnameSuffixTransformation("_x")),
        ProcessingItem(AddFieldnameSuffixTransformation("_x")),
    ],
    postprocessing_items=[
        QueryPostprocessingItem(EmbedQueryTransformation("(", ")")),
        QueryPostprocessingItem(EmbedQueryTransformation("(", ")")),
    ],
)
expected = conv(literal)
print("expected (literal pipeline with a's parts twice):", expected)

failed = False
a = mk("a")
try:
    got = conv(a + a)
    print("a + a:", got)
    failed |= got != expected
except Exception as e:
    print("a + a raised:", type(e).__name__, e)
    failed = True

resolver = ProcessingPipelineResolver.from_pipeline_list([mk("a")])
try:
    got = conv(resolver.resolve(["a", "a"]))
    print('resolve(["a", "a"]):', got)
    failed |= got != expected
except Exception as e:
    print('resolve(["a", "a"]) raised:', type(e).__name__, e)
    failed = True

# same object registered under two names
p = mk("p")
resolver = ProcessingPipelineResolver({"x": p, "y": p})
try:
    got = conv(resolver.resolve(["x", "y"]))
    print('resolve(["x", "y"]) (same object under two names):', got)
    failed |= got != expected
except Exception as e:
    print('resolve(["x", "y"]) (same object under two names) raised:', type(e).__name__, e)
    failed = True

sys.exit(1 if failed else 0)
