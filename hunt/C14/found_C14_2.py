"""C14 finding 2: convert_rule() keeps using the pipeline combined for an earlier output format.

A backend must always run its own pipeline, then the user's, then the pipeline of the output
format that is requested. Backend.convert_rule(rule, output_format) only builds the combined
pipeline if none exists yet; after any earlier conversion it silently runs the output-format
pipeline of the *previous* format (while finalize_query_<format> of the requested format is used).
"""
import sys
from collections import defaultdict
from sigma.backends.test import TextQueryTestBackend
from sigma.collection import SigmaCollection
from sigma.rule import SigmaRule
from sigma.processing.pipeline import ProcessingPipeline, ProcessingItem, QueryPostprocessingItem
from sigma.processing.postprocessing import EmbedQueryTransformation
from sigma.processing.transformations import AddFieldnameSuffixTransformation

RULE = """
title: T
logsource: {category: test}
detection:
  sel: {fieldA: valueA}
  condition: sel
"""


def mk(name):
    return ProcessingPipeline(
        items=[ProcessingItem(AddFieldnameSuffixTransformation("_" + name))],
        postprocessing_items=[
            QueryPostprocessingItem(EmbedQueryTransformation(prefix=name + "(", suffix=")"))
        ],
    )


class Backend(TextQueryTestBackend):
    backend_processing_pipeline = mk("backend")
    output_format_processing_pipeline = defaultdict(
        ProcessingPipeline, default=mk("fmtdefault"), test=mk("fmttest")
    )


# reference: fresh backend for each format
expected_test = Backend(mk("user")).convert_rule(SigmaRule.from_yaml(RULE), "test")
expected_default = Backend(mk("user")).convert_rule(SigmaRule.from_yaml(RULE), "default")
print("fresh backend, format test   :", expected_test)
print("fresh backend, format default:", expected_default)

failed = False

b = Backend(mk("user"))
b.convert(SigmaCollection.from_yaml(RULE), "default")
got = b.convert_rule(SigmaRule.from_yaml(RULE), "test")
print("after convert(..., 'default'): convert_rule(rule, 'test')    ->", got)
failed |= got != expected_test

b = Backend(mk("user"))
b.convert_rule(SigmaRule.from_yaml(RULE), "test")
got = b.convert_rule(SigmaRule.from_yaml(RULE), "default")
print("after convert_rule(rule, 'test'): convert_rule(rule, 'default') ->", got)
failed |= got != expected_default

if failed:
    print("VIOLATION: the output-format pipeline of a previously used format was run")
sys.exit(1 if failed else 0)
