"""C14 finding 6: two pipeline generators registered with the @Pipeline decorator are the same
object - the resolver combines the last-defined pipeline with itself.

sigma.pipelines.base.Pipeline.__new__ implements a singleton on the Pipeline class itself, so each
use of `@Pipeline` returns the one shared instance and merely overwrites its `func`. Resolving the
names 'p1' and 'p2' therefore yields p2's items twice instead of p1's items followed by p2's.
"""
import sys
from sigma.pipelines.base import Pipeline
from sigma.processing.pipeline import ProcessingPipeline, ProcessingItem
from sigma.processing.resolver import ProcessingPipelineResolver
from sigma.processing.transformations import AddFieldnameSuffixTransformation


@Pipeline
def p1():
    return ProcessingPipeline(
        items=[ProcessingItem(AddFieldnameSuffixTransformation("_1"))], name="p1", priority=10,
        vars={"v": "p1"},
    )


@Pipeline
def p2():
    return ProcessingPipeline(
        items=[ProcessingItem(AddFieldnameSuffixTransformation("_2"))], name="p2", priority=20,
        vars={"v": "p2", "only_p2": True},
    )


resolver = ProcessingPipelineResolver({"p1": p1, "p2": p2})
failed = False
for order in (["p1", "p2"], ["p2", "p1"]):
    combined = resolver.resolve(order)
    got = [i.transformation.suffix for i in combined.items]
    print(f"resolve({order}): items {got}   (expected ['_1', '_2'])")
    failed |= got != ["_1", "_2"]
single = [i.transformation.suffix for i in resolver.resolve(["p1"]).items]
print(f"resolve(['p1']): items {single}   (expected ['_1'])")
failed |= single != ["_1"]
print("p1 is p2:", p1 is p2)
sys.exit(1 if failed else 0)
