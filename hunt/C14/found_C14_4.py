"""C14 finding 4: resolving the same pipeline definition a second time fails, because
ProcessingPipeline.from_dict() destroys its input (it pops 'type' out of every finalizer dict).

A resolver may hold pipeline generators (callables). A generator that builds its pipeline from a
definition dict works for the first resolve() only; every later resolve() - e.g. the same set of
names in another order - raises SigmaConfigurationError instead of yielding the same combined
pipeline.
"""
import sys
from sigma.processing.pipeline import ProcessingPipeline
from sigma.processing.resolver import ProcessingPipelineResolver

DEFINITION = {
    "name": "a",
    "priority": 10,
    "transformations": [{"type": "field_name_suffix", "suffix": "_a"}],
    "postprocessing": [{"type": "embed", "prefix": "(", "suffix": ")"}],
    "finalizers": [{"type": "concat", "separator": ";"}],
}

resolver = ProcessingPipelineResolver(
    {
        "a": lambda: ProcessingPipeline.from_dict(DEFINITION),
        "b": ProcessingPipeline(name="b", priority=20, vars={"x": 1}),
    }
)

first = resolver.resolve(["a", "b"])
print("first  resolve(['a', 'b']):", len(first.items), "items,", first.finalizers and type(first.finalizers[0]).__name__)
failed = False
try:
    second = resolver.resolve(["b", "a"])
    print("second resolve(['b', 'a']):", len(second.items), "items,", second.finalizers and type(second.finalizers[0]).__name__)
    failed = second != first
except Exception as e:
    print("second resolve(['b', 'a']) raised:", type(e).__name__, e)
    failed = True
print("definition dict afterwards:", DEFINITION["finalizers"])
print("expected: the same combined pipeline for both orders")
sys.exit(1 if failed else 0)
