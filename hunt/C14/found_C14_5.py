"""C14 finding 5: resolve() silently drops a registered pipeline whose name is also the name of a
directory in the current working directory.

resolve() checks `Path(spec).is_dir()` before it looks the name up in the registered pipelines. If
the directory contains no *.yml, nothing at all is added, and the "combined pipeline" misses the
named pipeline completely (resolve_pipeline() with the same name finds it).
"""
import os, sys, tempfile
from sigma.processing.pipeline import ProcessingPipeline, ProcessingItem
from sigma.processing.resolver import ProcessingPipelineResolver
from sigma.processing.transformations import AddFieldnameSuffixTransformation

workdir = tempfile.mkdtemp()
os.chdir(workdir)
os.mkdir("windows")  # an unrelated directory, e.g. a rule directory

win = ProcessingPipeline(
    items=[ProcessingItem(AddFieldnameSuffixTransformation("_win"))], name="windows", priority=10
)
other = ProcessingPipeline(
    items=[ProcessingItem(AddFieldnameSuffixTransformation("_other"))], name="other", priority=20
)
resolver = ProcessingPipelineResolver.from_pipeline_list([win, other])

print("resolve_pipeline('windows') items:", [i.transformation.suffix for i in resolver.resolve_pipeline("windows").items])
got = [i.transformation.suffix for i in resolver.resolve(["other", "windows"]).items]
expected = ["_win", "_other"]
print("expected items of resolve(['other', 'windows']):", expected)
print("actual                                         :", got)
sys.exit(1 if got != expected else 0)
