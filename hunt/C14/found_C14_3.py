"""C14 finding 3: finalizers (and post-processing items) run in the context of a *different* combined
pipeline once one of the operand pipelines was used in another addition.

'+' hands the operands' items, post-processing items and finalizers over to the newly built sum.
ProcessingPipeline.apply() re-adopts them, but finalize() and postprocess_query() do not. A backend
that converted its rules and then finalizes them therefore runs the finalizers of the shared user
pipeline with the vars/state of whatever pipeline was summed last (e.g. the one of a second backend).
A single pipeline defined with the same parts would see its own vars and state.
"""
import sys
from collections import defaultdict
from sigma.backends.test import TextQueryTestBackend
from sigma.rule import SigmaRule
from sigma.processing.pipeline import ProcessingPipeline, ProcessingItem
from sigma.processing.finalization import TemplateFinalizer
from sigma.processing.transformations import SetStateTransformation

RULE = """
title: T
logsource: {category: test}
detection:
  sel: {fieldA: valueA}
  condition: sel
"""


class B1(TextQueryTestBackend):
    name = "B1"
    backend_processing_pipeline = ProcessingPipeline(
        items=[ProcessingItem(SetStateTransformation("who", "B1"))]
    )
    output_format_processing_pipeline = defaultdict(ProcessingPipeline)


class B2(TextQueryTestBackend):
    name = "B2"
    backend_processing_pipeline = ProcessingPipeline(
        items=[ProcessingItem(SetStateTransformation("who", "B2"))]
    )
    output_format_processing_pipeline = defaultdict(ProcessingPipeline)


def user_pipeline():
    return ProcessingPipeline(
        finalizers=[
            TemplateFinalizer(
                "state={{ pipeline.state.who }} backend={{ pipeline.vars.backend }} queries={{ queries|join(',') }}"
            )
        ]
    )


# reference: each backend with its own user pipeline object
ref = B1(user_pipeline())
expected = ref.finalize(ref.convert_rule(SigmaRule.from_yaml(RULE)), "default")
print("expected output of B1:", expected)

failed = False

# scenario 1: the same user pipeline object is given to two backends
user = user_pipeline()
b1, b2 = B1(user), B2(user)
q1 = b1.convert_rule(SigmaRule.from_yaml(RULE))
q2 = b2.convert_rule(SigmaRule.from_yaml(RULE))
got = b1.finalize(q1, "default")
print("B1 output after B2 converted a rule with the same user pipeline object:", got)
failed |= got != expected

# scenario 2: one backend; the user pipeline is merely used in another sum in between
user = user_pipeline()
b1 = B1(user)
q1 = b1.convert_rule(SigmaRule.from_yaml(RULE))
unrelated = user + ProcessingPipeline(vars={"backend": "unrelated"})
got = b1.finalize(q1, "default")
print("B1 output after 'user + other' was computed elsewhere:", got)
failed |= got != expected

sys.exit(1 if failed else 0)
