"""C03 finding 5: integers above 2**53 are silently changed (turned into a rounded float) - also under lt/lte/gt/gte.

Property: "... lt/lte/gt/gte ... change the value type without changing its content" for all ints.
"""
import sys
from sigma.rule import SigmaDetectionItem
from sigma.exceptions import SigmaError

bad = False
for key, val in (
    ("field|gt", 2**53 + 1),
    ("field|lte", 132223104000000001),       # a Windows FILETIME, fits in 64 bit
    ("field|gte", 18446744073709551615),     # 2**64-1
    ("field", 2**53 + 1),                    # no modifier at all
):
    print(f"input: {{{key!r}: {val!r}}}")
    print(f"  expected number: {val!r} (int)")
    try:
        v = SigmaDetectionItem.from_mapping(key, val).value[0]
    except SigmaError as e:
        print("  actual: rejected with", type(e).__name__, e)
        continue
    num = v.number.number if hasattr(v.number, "number") else v.number
    print(f"  actual number  : {num!r} ({type(num).__name__}); int(actual) - expected = {int(num) - val}")
    if type(num) is not int or num != val:
        bad = True

print("VIOLATION PRESENT" if bad else "no violation")
sys.exit(1 if bad else 0)
