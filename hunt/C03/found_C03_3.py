"""C03 finding 3: windash replaces a user placeholder that happens to be called %_windash% by dashes.

Property: "windash yields every dash variant of each parameter-position dash and nothing else", and expand
turns %name% into a placeholder (which windash has to leave alone).
"""
import sys
from sigma.rule import SigmaDetectionItem
from sigma.types import Placeholder, SigmaExpansion

val = "%_windash%"
item = SigmaDetectionItem.from_mapping("field|expand|windash", val)
v = item.value[0]
vals = v.values if isinstance(v, SigmaExpansion) else [v]
got = [x.s for x in vals]
print(f"input: field|expand|windash: {val!r}   (the value contains no dash at all)")
print("expected: exactly one value, [Placeholder(name='_windash')]")
print(f"actual  : {got!r}")
bad = got != [[Placeholder("_windash")]]

# control: any other placeholder name is kept
ctrl = SigmaDetectionItem.from_mapping("field|expand|windash", "%other%").value[0]
print("control (%other%):", [x.s for x in ctrl.values])

print("VIOLATION PRESENT" if bad else "no violation")
sys.exit(1 if bad else 0)
