"""C03 finding 4: fieldref changes the content of the field name (escaping is applied one-way).

Property: "... fieldref ... change the value type without changing its content".

The referenced field name is produced with SigmaString.to_plain(), which re-escapes plain '*' and '?' but
not backslashes. So neither "the text as written" nor "the characters the text denotes" is preserved
consistently:
   'a\\*b'   denotes a*b   -> field 'a\\*b'  (text as written)
   'a\\\\b'  denotes a\\b  -> field 'a\\b'   (denoted characters)
Whichever of the two readings of 'content' is taken, one of the two inputs violates it.
"""
import sys
from sigma.rule import SigmaDetectionItem

def ref(val):
    return SigmaDetectionItem.from_mapping("field|fieldref", val).value[0].field

star_in, bs_in = "a\\*b", "a\\\\b"
star_out, bs_out = ref(star_in), ref(bs_in)
print(f"field|fieldref: {star_in!r} -> field {star_out!r}")
print(f"field|fieldref: {bs_in!r} -> field {bs_out!r}")
as_written = (star_out == star_in) and (bs_out == bs_in)
as_denoted = (star_out == "a*b") and (bs_out == "a\\b")
print("expected: either both texts as written ('a\\\\*b', 'a\\\\\\\\b') or both as denoted ('a*b', 'a\\\\b')")
print(f"actual  : as written for both: {as_written}; as denoted for both: {as_denoted}")
bad = not (as_written or as_denoted)

# a field really called 'a*b' cannot be referenced at all: the only admissible spelling yields 'a\*b'
print("VIOLATION PRESENT" if bad else "no violation")
sys.exit(1 if bad else 0)
