"""C03 finding 1: timestamp-part modifiers (minute/hour/day/week/month/year) truncate a float value.

Property: "... timestamp-part change the value type without changing its content", and a chain that is not
admissible for the value type must be rejected with a Sigma error instead of producing a value.
"""
import sys
from sigma.rule import SigmaDetectionItem
from sigma.exceptions import SigmaError

bad = False
for mod in ("minute", "hour", "day", "week", "month", "year"):
    key, val = f"field|{mod}", 5.7
    print(f"input: {{{key!r}: {val!r}}}")
    print("  expected: a timestamp part with the number 5.7, or a Sigma error (value not admissible)")
    try:
        item = SigmaDetectionItem.from_mapping(key, val)
    except SigmaError as e:
        print("  actual  : rejected with", type(e).__name__)
        continue
    got = item.value[0].number
    print(f"  actual  : {item.value[0]!r}  (number = {got!r})")
    if got != val:
        bad = True

print("VIOLATION PRESENT" if bad else "no violation")
sys.exit(1 if bad else 0)
