"""C03 finding 2: expand mishandles backslash escapes around '%'.

Property: "expand turns only unescaped %name% sequences into placeholders".

(a) '%name\\%'   : the closing percent sign is escaped, so there is no complete unescaped %name% sequence.
                   The library nevertheless creates a placeholder, named 'name\\' (backslash swallowed into the name).
(b) '\\\\%name%' : an escaped backslash (= one plain backslash) followed by an unescaped %name%. The plain
                   backslash that is left after string parsing is taken as an escape of the percent sign:
                   no placeholder is created AND the backslash disappears from the value.
(c) chain expand|expand on '\\%name\\%': the first expand removes the escapes, the second one then turns the
                   (escaped!) sequence into a placeholder.
"""
import sys
from sigma.rule import SigmaDetectionItem
from sigma.types import Placeholder

def parts(key, val):
    return SigmaDetectionItem.from_mapping(key, val).value[0].s

bad = False

# (a)
val = "%name\\%"
got = parts("field|expand", val)
print(f"(a) field|expand: {val!r}")
print("    expected: no placeholder (closing % is escaped), e.g. the plain text '%name%'")
print(f"    actual  : {got!r}")
if any(isinstance(p, Placeholder) for p in got):
    bad = True

# (b)
val = "\\\\%name%"
got = parts("field|expand", val)
print(f"(b) field|expand: {val!r}")
print("    expected: ['\\\\', Placeholder(name='name')]  (plain backslash, then the placeholder)")
print(f"    actual  : {got!r}")
if got != ["\\", Placeholder("name")]:
    bad = True

# (c)
val = "\\%name\\%"
got = parts("field|expand|expand", val)
print(f"(c) field|expand|expand: {val!r}")
print("    expected: ['%name%'] (escaped sequence stays plain text)")
print(f"    actual  : {got!r}")
if any(isinstance(p, Placeholder) for p in got):
    bad = True

print("VIOLATION PRESENT" if bad else "no violation")
sys.exit(1 if bad else 0)
