"""C03 finding 6: startswith/endswith/contains on a regular expression do not add the missing wildcard when the
regular expression ends with an ESCAPED '$' or with an escaped dot followed by '*'.

Property: "contains/startswith/endswith add (only missing) wildcards".

The check whether the wildcard is already there is textual (last two characters == '.*' or last character == '$')
and ignores a preceding backslash. 'foo\\$' ends with a literal dollar sign, 'foo\\.*' ends with "any number of
literal dots": in both cases no wildcard / anchor is present, the '.*' is missing and has to be added.
"""
import re
import sys
from sigma.rule import SigmaDetectionItem

bad = False
for mod, rx, subject in (
    ("startswith", "foo\\$", "foo$bar"),
    ("contains", "foo\\$", "xfoo$bar"),
    ("startswith", "foo\\.*", "foo..bar"),
    ("contains", "foo\\.*", "xfoo..bar"),
):
    item = SigmaDetectionItem.from_mapping(f"field|re|{mod}", rx)
    got = str(item.value[0].regexp)
    exp = ("" if mod == "startswith" else ".*") + rx + ".*"
    print(f"field|re|{mod}: {rx!r}")
    print(f"  expected regex: {exp!r}")
    print(f"  actual regex  : {got!r}")
    # semantic cross-check: a subject that starts with / contains a match of the original regex
    m_exp = re.fullmatch(exp, subject) is not None
    m_got = re.fullmatch(got, subject) is not None
    print(f"  subject {subject!r}: expected regex matches whole value: {m_exp}, actual regex: {m_got}")
    if got != exp:
        bad = True
# control: unescaped forms are (rightly) left alone, other endings get the wildcard
for rx in ("foo$", "foo.*", "foo"):
    print("control", rx, "->", str(SigmaDetectionItem.from_mapping("field|re|startswith", rx).value[0].regexp))

print("VIOLATION PRESENT" if bad else "no violation")
sys.exit(1 if bad else 0)
