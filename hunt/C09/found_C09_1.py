"""C09 finding 1: two documents carrying the same rule name (or id) - the rule a correlation rule resolves
to, its query and which rule keeps its own output depend on the document order (last document wins)."""
import sys
from sigma.collection import SigmaCollection
from sigma.backends.test import TextQueryTestBackend
from sigma.exceptions import SigmaError

A = """
title: A
name: shared
logsource: {category: test}
detection:
  sel: {f: one}
  condition: sel
"""
B = """
title: B
name: shared
logsource: {category: test}
detection:
  sel: {f: two}
  condition: sel
"""
C = """
title: C
name: corr
correlation:
  type: event_count
  rules: [shared]
  timespan: 5m
  condition: {gte: 2}
"""

def run(docs):
    try:
        col = SigmaCollection.from_yaml("---".join(docs))
        out = TextQueryTestBackend().convert(col)
        return ("ok", tuple(sorted(out)))
    except SigmaError as e:
        return ("error", type(e).__name__)

r1 = run([A, B, C])
r2 = run([B, A, C])
print("expected: identical outcome for both document orders (same queries per rule, or the same error)")
print("order A,B,C:", r1)
print("order B,A,C:", r2)

# second variant: a correlation rule whose own name equals the name of the rule it refers to:
# one order converts, the other resolves the reference to the correlation rule itself and fails.
C_SELF = C.replace("name: corr", "name: shared")
s1 = run([C_SELF, A])
s2 = run([A, C_SELF])
print("order C,A (correlation named like the rule):", s1)
print("order A,C (correlation named like the rule):", s2)

bad = (r1 != r2) or (s1[0] != s2[0])
print("VIOLATION" if bad else "no violation")
sys.exit(1 if bad else 0)
