"""C09 finding 4: a rule whose name can be read as a UUID (32 hex digits, hyphens/braces/urn: prefix ignored) can't be
referenced by that name: SigmaCollection.__getitem__ tries the UUID lookup first and its KeyError is reported as
'rule not found' without falling back to the name lookup."""
import sys
from sigma.collection import SigmaCollection
from sigma.backends.test import TextQueryTestBackend
from sigma.exceptions import SigmaError

DOCS = """
title: A
name: %(name)s
id: 99999999-9999-9999-9999-999999999999
logsource: {category: test}
detection:
  sel: {f: one}
  condition: sel
---
title: C
name: corr
correlation:
  type: event_count
  rules: ["%(name)s"]
  timespan: 5m
  condition: {gte: 2}
"""
def run(name):
    try:
        col = SigmaCollection.from_yaml(DOCS % {"name": name})
        return ("ok", TextQueryTestBackend().convert(col))
    except SigmaError as e:
        return ("error", type(e).__name__, str(e))

plain = run("failed_logons")
hexname = run("cafe-babe-cafe-babe-cafe-babe-cafe-babe")      # a name, not the id of the rule
oldid = run("5f0a1b2c-3d4e-4f60-8a9b-0c1d2e3f4a5b")            # e.g. the former id kept as name
print("name failed_logons                         :", plain)
print("name cafe-babe-cafe-babe-cafe-babe-cafe-babe:", hexname)
print("name 5f0a1b2c-3d4e-4f60-8a9b-0c1d2e3f4a5b   :", oldid)
print("expected: all three rule sets load and convert alike (the referenced rule exists under exactly that name)")
bad = plain[0] == "ok" and (hexname[0] != "ok" or oldid[0] != "ok")
print("VIOLATION" if bad else "no violation")
sys.exit(1 if bad else 0)
