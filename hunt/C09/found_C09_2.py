"""C09 finding 2: reference resolution state (output disabled / backreferences) is stored on the rule objects and
never reset. Merging a collection with another one that contains a correlation rule changes what the *input*
collection (and any later merge without that correlation rule) emits: the rule is unreferenced there but emits nothing."""
import sys
from sigma.collection import SigmaCollection
from sigma.backends.test import TextQueryTestBackend

A = """
title: A
name: a
logsource: {category: test}
detection:
  sel: {f: one}
  condition: sel
"""
X = """
title: X
logsource: {category: test}
detection:
  sel: {f: other}
  condition: sel
"""
C = """
title: C
name: corr
correlation:
  type: event_count
  rules: [a]
  timespan: 5m
  condition: {gte: 2}
"""
col_a = SigmaCollection.from_yaml(A)
col_x = SigmaCollection.from_yaml(X)
col_c = SigmaCollection.from_yaml(C, resolve_references=False)

before = TextQueryTestBackend().convert(SigmaCollection.merge([col_x, col_a]))
with_corr = TextQueryTestBackend().convert(SigmaCollection.merge([col_c, col_a, col_x]))
after = TextQueryTestBackend().convert(SigmaCollection.merge([col_x, col_a]))
alone = TextQueryTestBackend().convert(col_a)

print("merge([X, A]) before A was ever merged with C :", before)
print("merge([C, A, X])                              :", with_corr)
print("merge([X, A]) afterwards (A is unreferenced)  :", after)
print("collection with only A afterwards             :", alone)
print('expected: merge([X, A]) emits f="one" and f="other" both times; A alone emits f="one"')
bad = sorted(before) != sorted(after) or alone != ['f="one"']
print("VIOLATION" if bad else "no violation")
sys.exit(1 if bad else 0)
