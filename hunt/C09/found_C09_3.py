"""C09 finding 3: rule references in the aliases section of a correlation rule are never resolved
(SigmaCorrelationFieldAliases.resolve_rule_references is not called by anything): a reference to a missing rule
is not reported at load time (or ever), and a reference to an existing rule written in the other form
(id instead of name) is silently ignored."""
import sys
from sigma.collection import SigmaCollection
from sigma.backends.test import TextQueryTestBackend
from sigma.exceptions import SigmaError

RULES = """
title: A
name: a
id: 11111111-1111-1111-1111-111111111111
logsource: {category: test}
detection:
  sel: {f: one}
  condition: sel
---
title: B
name: b
logsource: {category: test}
detection:
  sel: {f: two}
  condition: sel
---
title: C
name: corr
correlation:
  type: temporal
  rules: [a, b]
  timespan: 5m
  group-by: [user]
  aliases:
    user:
      %s: src_user
      b: dst_user
"""
def run(ref):
    try:
        col = SigmaCollection.from_yaml(RULES % ref)
    except SigmaError as e:
        return ("load error", type(e).__name__, str(e))
    try:
        return ("ok", TextQueryTestBackend().convert(col))
    except SigmaError as e:
        return ("convert error", type(e).__name__, str(e))

by_name = run("a")
missing = run("does_not_exist")
by_id = run("11111111-1111-1111-1111-111111111111")
print("alias refers to rule 'a' by name        :", by_name)
print("alias refers to missing 'does_not_exist' :", missing)
print("alias refers to rule 'a' by its id       :", by_id)
print("expected: the missing reference is reported as a Sigma error at load time; the reference by id resolves to rule A like the one by name")
bad = missing[0] != "load error" or by_id != by_name
print("VIOLATION" if bad else "no violation")
sys.exit(1 if bad else 0)
