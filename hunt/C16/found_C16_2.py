"""C16 finding 2: file read AND write from a template via rule.source.path (a pathlib.Path).

Post-processing templates get the live SigmaRule in the context.  For rules loaded from files
rule.source.path is a pathlib.Path; the Jinja sandbox allows calling its public methods, so a
pipeline document loaded with default arguments can read and write arbitrary files.
"""
import os, sys, tempfile

os.environ.pop("PYSIGMA_ALLOW_EXTERNAL_SOURCES", None)
os.environ.pop("PYSIGMA_ALLOW_VARS_EXECUTION", None)

from sigma.backends.test import TextQueryTestBackend
from sigma.collection import SigmaCollection
from sigma.processing.pipeline import ProcessingPipeline

tmp = tempfile.mkdtemp(prefix="c16_2_")
ruledir = os.path.join(tmp, "rules")
os.mkdir(ruledir)
with open(os.path.join(ruledir, "r.yml"), "w") as f:
    f.write(
        "title: t\nlogsource: {category: test}\ndetection:\n  sel:\n    fieldA: x\n  condition: sel\n"
    )
secret = os.path.join(tmp, "secret.txt")
with open(secret, "w") as f:
    f.write("TOP-SECRET")
written = os.path.join(tmp, "written_by_pipeline.txt")

doc = """
postprocessing:
  - type: template
    template: |-
      {{ rule.source.path.joinpath(%r).read_text() }}|{{ rule.source.path.joinpath(%r).write_text('owned') }}
""" % (secret, written)

print("expected: a pipeline loaded with default arguments gets no file access of its own")
try:
    out = TextQueryTestBackend(ProcessingPipeline.from_yaml(doc)).convert(
        SigmaCollection.load_ruleset([ruledir])
    )
    print("conversion output:", out)
except Exception as e:
    out = []
    print("conversion raised:", type(e).__name__, e)

bad = False
if any("TOP-SECRET" in str(q) for q in out):
    print("ACTUAL: content of %s was read into the query" % secret)
    bad = True
if os.path.exists(written):
    print("ACTUAL: file %s was written by the template" % written)
    bad = True
if not bad:
    print("actual: no file access")
sys.exit(1 if bad else 0)
