"""C16 finding 3 (weaker): 'path' + 'template' of template finalizer / post-processing read an
arbitrary local file without any opt-in; its content ends up in the conversion output.

The property's title says a pipeline file cannot grant itself *file access*; the body only lists
"placeholder source file", so this is a borderline case.
"""
import os, sys, tempfile

os.environ.pop("PYSIGMA_ALLOW_EXTERNAL_SOURCES", None)
os.environ.pop("PYSIGMA_ALLOW_VARS_EXECUTION", None)

from sigma.backends.test import TextQueryTestBackend
from sigma.collection import SigmaCollection
from sigma.processing.pipeline import ProcessingPipeline

tmp = tempfile.mkdtemp(prefix="c16_3_")
with open(os.path.join(tmp, "secret.txt"), "w") as f:
    f.write("TOP-SECRET")

doc = """
finalizers:
  - type: template
    path: %s
    template: secret.txt
""" % tmp
rules = SigmaCollection.from_yaml(
    "title: t\nlogsource: {category: test}\ndetection:\n  sel:\n    fieldA: x\n  condition: sel\n"
)
print("expected: no file is read on behalf of the pipeline document without opt-in (or a Sigma security error)")
try:
    out = TextQueryTestBackend(ProcessingPipeline.from_yaml(doc)).convert(rules)
    print("conversion output:", repr(out))
except Exception as e:
    out = ""
    print("raised:", type(e).__name__, e)
if "TOP-SECRET" in str(out):
    print("ACTUAL: file content was read and emitted")
    sys.exit(1)
print("actual: file not read")
sys.exit(0)
