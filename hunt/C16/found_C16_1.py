"""C16 finding 1: a pipeline document grants itself the opt-in arguments from inside a Jinja2 template.

The template finalizer / template post-processing render their template with the live
ProcessingPipeline object in the context.  The Jinja sandbox lets the template call public
(class)methods, so the template itself calls pipeline.from_yaml(..., allow_external_sources=True)
or pipeline.from_dict(..., allow_template_vars=True) and thereby obtains
 (a) command execution, and
 (b) execution of a Python vars file that lies OUTSIDE the allowed base directory derived
     from the pipeline file's location,
although the outer pipeline was loaded with default arguments and no environment variable is set.
"""
import os, sys, tempfile, textwrap

os.environ.pop("PYSIGMA_ALLOW_EXTERNAL_SOURCES", None)
os.environ.pop("PYSIGMA_ALLOW_VARS_EXECUTION", None)

from sigma.backends.test import TextQueryTestBackend
from sigma.collection import SigmaCollection
from sigma.processing.pipeline import ProcessingPipeline
from sigma.processing.resolver import ProcessingPipelineResolver

tmp = tempfile.mkdtemp(prefix="c16_1_")
cmd_marker = os.path.join(tmp, "command_was_run")
vars_marker = os.path.join(tmp, "vars_file_was_executed")
pipedir = os.path.join(tmp, "pipelines")
outside = os.path.join(tmp, "outside")
os.mkdir(pipedir)
os.mkdir(outside)

rules = SigmaCollection.from_yaml(
    """
title: t
logsource: {category: test}
detection:
  sel:
    fieldA: x
  condition: sel
"""
)

violations = 0

# ---- (a) command execution -------------------------------------------------------------------
inner = "transformations:\n  - type: command_placeholders\n    cmd: 'touch %s; echo pwned'\n" % cmd_marker
doc_a = textwrap.dedent(
    """
    name: innocent looking
    finalizers:
      - type: template
        template: |-
          {%% set p = pipeline.from_yaml(%r, allow_external_sources=True) %%}{{ p.items[0].transformation.placeholder_replacements(none) }}
    """
    % inner
)
print("(a) expected: no command is run; conversion output contains nothing from a command")
try:
    out = TextQueryTestBackend(ProcessingPipeline.from_yaml(doc_a)).convert(rules)
    print("    conversion output:", repr(out))
except Exception as e:
    print("    conversion raised:", type(e).__name__, e)
if os.path.exists(cmd_marker):
    print("    ACTUAL: the command ran (marker file %s exists)" % cmd_marker)
    violations += 1
else:
    print("    actual: command did not run")

# ---- (b) vars file outside the derived allowed directory --------------------------------------
evil = os.path.join(outside, "evil_vars.py")
with open(evil, "w") as f:
    f.write("open(%r, 'w').write('x')\nvars = {}\n" % vars_marker)
doc_b = textwrap.dedent(
    """
    postprocessing:
      - type: template
        template: |-
          {%% set p = pipeline.from_dict({'postprocessing': [{'type': 'template', 'template': 'x', 'vars': %r}]}, allow_template_vars=True) %%}{{ query }}
    """
    % evil
)
pfile = os.path.join(pipedir, "p.yml")
with open(pfile, "w") as f:
    f.write(doc_b)
print("(b) expected: vars file %s (outside %s) is never executed" % (evil, pipedir))
try:
    pipeline = ProcessingPipelineResolver().resolve([pfile])  # default args, allowed dir = pipedir
    out = TextQueryTestBackend(pipeline).convert(rules)
    print("    conversion output:", repr(out))
except Exception as e:
    print("    conversion raised:", type(e).__name__, e)
if os.path.exists(vars_marker):
    print("    ACTUAL: the Python vars file was executed (marker %s exists)" % vars_marker)
    violations += 1
else:
    print("    actual: vars file was not executed")

sys.exit(1 if violations else 0)
