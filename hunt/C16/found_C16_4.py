"""C16 finding 4 (weaker): the injected key allow_external_sources is stripped from top-level
finalizers but NOT from finalizers inside a 'nested' finalizer.

Top level: key is stripped, a template finalizer with 'vars' fails with SigmaSecurityError.
Nested   : key reaches TemplateFinalizer.__init__ -> SigmaConfigurationError (TypeError text),
           i.e. the failure is not a Sigma security error, and with the caller's legitimate opt-in
           the same document loads at top level but is rejected when nested.
Nothing is executed, only the kind of failure differs from what the property says.
"""
import copy, os, sys, tempfile

os.environ.pop("PYSIGMA_ALLOW_EXTERNAL_SOURCES", None)
os.environ.pop("PYSIGMA_ALLOW_VARS_EXECUTION", None)

from sigma.exceptions import SigmaSecurityError
from sigma.processing.pipeline import ProcessingPipeline

tmp = tempfile.mkdtemp(prefix="c16_4_")
marker = os.path.join(tmp, "executed")
vf = os.path.join(tmp, "v.py")
with open(vf, "w") as f:
    f.write("open(%r,'w').write('x')\nvars = {}\n" % marker)

inj = {"allow_external_sources": True, "allow_template_vars": True, "vars_allowed_paths": ["/"]}
tmpl = {"type": "template", "template": "x", "vars": vf, **inj}
top = {"finalizers": [copy.deepcopy(tmpl)]}
nested = {"finalizers": [{"type": "nested", "finalizers": [copy.deepcopy(tmpl)], **inj}]}


def load(d):
    try:
        ProcessingPipeline.from_dict(copy.deepcopy(d))
        return None
    except Exception as e:
        return e


e_top, e_nested = load(top), load(nested)
print("expected: both fail with SigmaSecurityError, vars file not executed")
print("top level:", type(e_top).__name__, "-", e_top)
print("nested   :", type(e_nested).__name__, "-", e_nested)
print("vars file executed:", os.path.exists(marker))
bad = (
    os.path.exists(marker)
    or not isinstance(e_top, SigmaSecurityError)
    or not isinstance(e_nested, SigmaSecurityError)
)
sys.exit(1 if bad else 0)
