#!/usr/bin/env python
"""C12 finding 3: one-to-many replacements are spliced into the value list of an item and inherit its
AND linking ('all' modifier) - the alternatives of a one-to-many mapping must be OR-linked.

 a) field_name_mapping a -> [b, c] on the field reference list  z|fieldref|all: [a, q]
    hand rewrite: (z=fieldref(b) OR z=fieldref(c)) AND z=fieldref(q)
 b) value_placeholders x -> [v1, v2] on  f|all|expand: ['%x%', 'foo']
    hand rewrite: (f=v1 OR f=v2) AND f=foo
 c) map_string k -> [k1, k2] on  f|all: [k, foo]
"""
import sys
from sigma.collection import SigmaCollection
from sigma.backends.test import TextQueryTestBackend
from sigma.processing.pipeline import ProcessingPipeline

HEAD = """
title: T
logsource:
    category: process_creation
    product: windows
"""

def conv(rule, pipe=None):
    p = ProcessingPipeline.from_yaml(pipe) if pipe else None
    return TextQueryTestBackend(p).convert(SigmaCollection.from_yaml(HEAD + rule))

cases = [
    ("field reference, one-to-many field mapping under 'all'",
     "detection:\n    sel:\n        z|fieldref|all: [a, q]\n    condition: sel\n",
     "transformations:\n  - type: field_name_mapping\n    mapping:\n      a: [b, c]\n",
     "detection:\n    s1:\n        z|fieldref: [b, c]\n    s2:\n        z|fieldref: q\n    condition: s1 and s2\n"),
    ("value_placeholders with two values under 'all'",
     "detection:\n    sel:\n        f|all|expand: ['%x%', 'foo']\n    condition: sel\n",
     "vars:\n  x: [v1, v2]\ntransformations:\n  - type: value_placeholders\n",
     "detection:\n    s1:\n        f: [v1, v2]\n    s2:\n        f: foo\n    condition: s1 and s2\n"),
    ("map_string one-to-many under 'all'",
     "detection:\n    sel:\n        f|all: [k, foo]\n    condition: sel\n",
     "transformations:\n  - type: map_string\n    mapping:\n      k: [k1, k2]\n",
     "detection:\n    s1:\n        f: [k1, k2]\n    s2:\n        f: foo\n    condition: s1 and s2\n"),
]
bad = False
for name, rule, pipe, rewritten in cases:
    actual = conv(rule, pipe)
    expected = conv(rewritten)
    print(f"{name}:\n  expected (hand rewrite, no pipeline): {expected}\n  actual   (pipeline)                  : {actual}")
    if actual != expected:
        bad = True
print("VIOLATION" if bad else "ok")
sys.exit(1 if bad else 0)
