#!/usr/bin/env python
"""C12 finding 2: keyword-to-field mapping loses the substring semantics for keyword values that are
not plain SigmaStrings after modifier application (windash / base64offset expansions, numbers).

Hand rewrite of the keyword  '|windash': '-foo'  mapped to field msg is  msg|windash|contains: '-foo'.
The pipeline produces exact matches  msg="-foo" or msg="/foo" ...  instead.
"""
import sys
from sigma.collection import SigmaCollection
from sigma.backends.test import TextQueryTestBackend
from sigma.processing.pipeline import ProcessingPipeline

HEAD = """
title: T
logsource:
    category: process_creation
    product: windows
"""
PIPE = """
transformations:
  - type: field_name_mapping
    mapping:
      null: msg
"""

def conv(rule, pipe=None):
    p = ProcessingPipeline.from_yaml(pipe) if pipe else None
    return TextQueryTestBackend(p).convert(SigmaCollection.from_yaml(HEAD + rule))

cases = [
    ("plain keyword (control, must be ok)",
     "detection:\n    kw:\n        - foo\n    condition: kw\n",
     "detection:\n    kw:\n        msg|contains: foo\n    condition: kw\n"),
    ("windash keyword",
     "detection:\n    kw:\n        '|windash': '-foo'\n    condition: kw\n",
     "detection:\n    kw:\n        msg|windash|contains: '-foo'\n    condition: kw\n"),
    ("base64offset keyword",
     "detection:\n    kw:\n        '|base64offset': 'foo'\n    condition: kw\n",
     "detection:\n    kw:\n        msg|base64offset|contains: 'foo'\n    condition: kw\n"),
]
bad = False
for name, rule, rewritten in cases:
    actual = conv(rule, PIPE)
    expected = conv(rewritten)
    print(f"{name}:\n  expected (hand rewrite, no pipeline): {expected}\n  actual   (null->msg mapping)        : {actual}")
    if actual != expected:
        bad = True
print("VIOLATION" if bad else "ok")
sys.exit(1 if bad else 0)
