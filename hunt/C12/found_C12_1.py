#!/usr/bin/env python
"""C12 finding 1: hashes_fields ignores the 'all' linking and the 'neq' negation of the item it splits.

Hand rewrite of  Hashes|contains|all: [MD5=aa, SHA1=bb]  is  FileMD5: aa AND FileSHA1: bb
Hand rewrite of  Hashes|neq: MD5=aa                      is  FileMD5|neq: aa   (NOT FileMD5=aa)
"""
import sys
from sigma.collection import SigmaCollection
from sigma.backends.test import TextQueryTestBackend
from sigma.processing.pipeline import ProcessingPipeline

HEAD = """
title: T
logsource:
    category: process_creation
    product: windows
"""
PIPE = """
transformations:
  - type: hashes_fields
    valid_hash_algos: [MD5, SHA1]
    field_prefix: File
"""

def conv(rule, pipe=None):
    p = ProcessingPipeline.from_yaml(pipe) if pipe else None
    return TextQueryTestBackend(p).convert(SigmaCollection.from_yaml(HEAD + rule))

cases = [
    ("all-linked hashes",
     """
detection:
    sel:
        Hashes|contains|all:
          - MD5=aa
          - SHA1=bb
    condition: sel
""", """
detection:
    sel:
        FileMD5: aa
        FileSHA1: bb
    condition: sel
"""),
    ("negated (neq) hashes",
     """
detection:
    sel:
        Hashes|neq: MD5=aa
    condition: sel
""", """
detection:
    sel:
        FileMD5|neq: aa
    condition: sel
"""),
]
bad = False
for name, rule, rewritten in cases:
    actual = conv(rule, PIPE)
    expected = conv(rewritten)
    print(f"{name}:\n  expected (hand rewrite, no pipeline): {expected}\n  actual   (hashes_fields pipeline)   : {actual}")
    if actual != expected:
        bad = True
print("VIOLATION" if bad else "ok")
sys.exit(1 if bad else 0)
