#!/usr/bin/env python
"""C12 finding 6: chain  field_name_mapping a->c (id m1)  +  field_name_suffix '_x' for fields processed by m1
(field name condition processing_item_applied).  Hand rewrite: field a becomes c_x everywhere (detection
item, field reference, fields list).

The actual query depends on parts of the rule that have nothing to do with the item:
 * rule without 'fields' and without field reference to a:  item stays 'c'      (suffix not applied)
 * rule with a field reference to a                      :  item becomes 'c_x'  (correct)
 * rule that additionally lists a in 'fields'            :  fields list gets c_x, item and reference stay 'c'
"""
import sys
from sigma.collection import SigmaCollection
from sigma.backends.test import TextQueryTestBackend
from sigma.processing.pipeline import ProcessingPipeline

HEAD = """
title: T
logsource:
    category: process_creation
    product: windows
"""
PIPE = """
transformations:
  - id: m1
    type: field_name_mapping
    mapping:
      a: c
  - type: field_name_suffix
    suffix: _x
    field_name_conditions:
      - type: processing_item_applied
        processing_item_id: m1
"""

def conv(rule, pipe=None):
    p = ProcessingPipeline.from_yaml(pipe) if pipe else None
    c = SigmaCollection.from_yaml(HEAD + rule)
    q = TextQueryTestBackend(p).convert(c)
    return q, c.rules[0].fields

cases = [
    ("no fields list, no reference",
     "detection:\n    sel:\n        a: foo\n        b: foo\n    condition: sel\n",
     "detection:\n    sel:\n        c_x: foo\n        b: foo\n    condition: sel\n"),
    ("with field reference",
     "detection:\n    sel:\n        a: foo\n        b: foo\n        z|fieldref: a\n    condition: sel\n",
     "detection:\n    sel:\n        c_x: foo\n        b: foo\n        z|fieldref: c_x\n    condition: sel\n"),
    ("with field reference and fields list",
     "fields: [a, b]\ndetection:\n    sel:\n        a: foo\n        b: foo\n        z|fieldref: a\n    condition: sel\n",
     "fields: [c_x, b]\ndetection:\n    sel:\n        c_x: foo\n        b: foo\n        z|fieldref: c_x\n    condition: sel\n"),
]
bad = False
for name, rule, rewritten in cases:
    actual = conv(rule, PIPE)
    expected = conv(rewritten)
    print(f"{name}:\n  expected (hand rewrite, no pipeline) query/fields: {expected}\n  actual   (pipeline)                  query/fields: {actual}")
    if actual != expected:
        bad = True
print("VIOLATION" if bad else "ok")
sys.exit(1 if bad else 0)
