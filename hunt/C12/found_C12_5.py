#!/usr/bin/env python
r"""C12 finding 5: the identity instance of replace_string (regex that matches nothing) changes queries.

The value  'x\\*'  (backslash followed by a wildcard, i.e. "starts with x\") is printed as  x\*  and parsed
again, which turns the wildcard into an escaped, literal asterisk: the query changes from a prefix
match to an exact match of the three characters  x \ *  ... although nothing was replaced.
"""
import sys
from sigma.collection import SigmaCollection
from sigma.backends.test import TextQueryTestBackend
from sigma.processing.pipeline import ProcessingPipeline

HEAD = """
title: T
logsource:
    category: process_creation
    product: windows
"""
PIPE = """
transformations:
  - type: replace_string
    regex: 'THIS-MATCHES-NOTHING'
    replacement: 'y'
"""

def conv(rule, pipe=None):
    p = ProcessingPipeline.from_yaml(pipe) if pipe else None
    return TextQueryTestBackend(p).convert(SigmaCollection.from_yaml(HEAD + rule))

cases = [
    ("backslash + wildcard", "detection:\n    sel:\n        a: 'x\\\\*'\n    condition: sel\n"),
    ("path with wildcard after backslash", "detection:\n    sel:\n        a: 'C:\\Users\\\\*\\\\evil.exe'\n    condition: sel\n"),
    ("backslash + single-character wildcard", "detection:\n    sel:\n        a: 'x\\\\?y'\n    condition: sel\n"),
]
bad = False
for name, rule in cases:
    expected = conv(rule)
    actual = conv(rule, PIPE)
    print(f"{name}: {rule.splitlines()[2].strip()}\n  expected (no pipeline)           : {expected}\n  actual   (no-op replace_string)  : {actual}")
    if actual != expected:
        bad = True
print("VIOLATION" if bad else "ok")
sys.exit(1 if bad else 0)
