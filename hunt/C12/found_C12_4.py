#!/usr/bin/env python
"""C12 finding 4: a transformation wrapped into a nested pipeline ('nest') does not behave like the
transformation itself: the nested items run in the context of a private, empty pipeline object, so
they see neither the variables ('vars') nor the state (set_state) of the pipeline they are written in.

 a) nest{value_placeholders} fails with "variable doesn't exist" although the pipeline defines it.
 b) nest{field_name_suffix if processing_state k=v} after set_state k=v is silently not applied.
"""
import sys
from sigma.collection import SigmaCollection
from sigma.backends.test import TextQueryTestBackend
from sigma.processing.pipeline import ProcessingPipeline

HEAD = """
title: T
logsource:
    category: process_creation
    product: windows
"""

def conv(rule, pipe=None):
    try:
        p = ProcessingPipeline.from_yaml(pipe) if pipe else None
        return TextQueryTestBackend(p).convert(SigmaCollection.from_yaml(HEAD + rule))
    except Exception as e:
        return f"EXCEPTION {type(e).__name__}: {e}"

cases = [
    ("value_placeholders",
     "detection:\n    sel:\n        a|expand: '%x%'\n    condition: sel\n",
     "vars:\n  x: [v1, v2]\ntransformations:\n  - type: value_placeholders\n",
     "vars:\n  x: [v1, v2]\ntransformations:\n  - type: nest\n    items:\n      - type: value_placeholders\n",
     "detection:\n    sel:\n        a: [v1, v2]\n    condition: sel\n"),
    ("state-conditioned field suffix",
     "detection:\n    sel:\n        a: foo\n    condition: sel\n",
     """
transformations:
  - type: set_state
    key: k
    val: v
  - type: field_name_suffix
    suffix: _x
    rule_conditions:
      - type: processing_state
        key: k
        val: v
""", """
transformations:
  - type: set_state
    key: k
    val: v
  - type: nest
    items:
      - type: field_name_suffix
        suffix: _x
        rule_conditions:
          - type: processing_state
            key: k
            val: v
""",
     "detection:\n    sel:\n        a_x: foo\n    condition: sel\n"),
]
bad = False
for name, rule, flat, nested, rewritten in cases:
    expected = conv(rewritten)
    r_flat = conv(rule, flat)
    r_nest = conv(rule, nested)
    print(f"{name}:\n  expected (hand rewrite, no pipeline): {expected}\n  flat pipeline                       : {r_flat}\n  same item inside 'nest'             : {r_nest}")
    if r_nest != expected:
        bad = True
print("VIOLATION" if bad else "ok")
sys.exit(1 if bad else 0)
