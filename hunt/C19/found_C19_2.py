"""C19 finding 2: SigmaValidator.from_dict/from_yaml loses exclusions when the same rule id
is written in two (equivalent) spellings.

UUIDs are case-insensitive; both keys below denote the same rule id.  The exclusion table
is built with a dict comprehension keyed by UUID(rule_id), so the second entry silently
replaces the first one instead of being merged with it.
"""
import sys
from sigma.collection import SigmaCollection
from sigma.validation import SigmaValidator
from sigma.validators.core import validators

RULE = """
title: Rule
id: 0000000a-0000-4000-8000-000000000001
logsource:
    category: test
tags:
    - attack.foo
    - attack.foo
detection:
    sel:
        field: value
    unused:
        field: other
    condition: sel
"""
CONFIG = """
validators:
    - dangling_detection
    - duplicate_tag
exclusions:
    0000000a-0000-4000-8000-000000000001: dangling_detection
    0000000A-0000-4000-8000-000000000001: duplicate_tag
"""
validator = SigmaValidator.from_yaml(CONFIG, validators)
issues = validator.validate_rules(SigmaCollection.from_yaml(RULE))
names = sorted(type(i).__name__ for i in issues)
print("exclusion table:", dict(validator.exclusions))
print("expected: both dangling_detection and duplicate_tag are excluded for the rule -> no issues")
print("actual  :", names)
if "DanglingDetectionIssue" in names or "DuplicateTagIssue" in names:
    print("VIOLATION: an exclusion given for the rule id was dropped")
    sys.exit(1)
sys.exit(0)
