"""C19 finding 1: the uniqueness validators keep their state after finalize().

Validating the same collection a second time with the same SigmaValidator object
(e.g. "validate, convert, validate again") reports every rule as a duplicate of itself,
although all identifiers/titles/filenames in the collection are unique.
"""
import sys
from sigma.collection import SigmaCollection
from sigma.exceptions import SigmaRuleLocation
from sigma.validation import SigmaValidator
from sigma.validators.core.metadata import (
    IdentifierUniquenessValidator,
    DuplicateTitleValidator,
    DuplicateFilenameValidator,
)
from sigma.backends.test import TextQueryTestBackend

RULE = """
title: {t}
id: {i}
logsource:
    category: test
detection:
    sel:
        field: value
    condition: sel
"""
a = SigmaCollection.from_yaml(
    RULE.format(t="Rule A", i="11111111-1111-4111-8111-111111111111"),
    source=SigmaRuleLocation("/rules/dir1/rule_a.yml"),
)
b = SigmaCollection.from_yaml(
    RULE.format(t="Rule B", i="22222222-2222-4222-8222-222222222222"),
    source=SigmaRuleLocation("/rules/dir2/rule_b.yml"),
)
collection = SigmaCollection.merge([a, b])

validator = SigmaValidator(
    [IdentifierUniquenessValidator, DuplicateTitleValidator, DuplicateFilenameValidator]
)
before = validator.validate_rules(collection)
queries = TextQueryTestBackend().convert(collection)
after = validator.validate_rules(collection)

print("queries:", queries)
print("expected: no uniqueness issue before and after conversion (ids, titles, filenames are all unique)")
print("issues before conversion:", [str(i) for i in before])
print("issues after conversion :")
for i in after:
    print("   ", type(i).__name__, [r.title for r in i.rules])

if before == [] and after != []:
    print("VIOLATION: second run of the same validator reports unique rules as colliding with themselves")
    sys.exit(1)
sys.exit(0)
