"""C19 finding 5: DuplicateFilenameValidator does not name the groups of rules sharing a filename.

The validator groups the rules by file name but only reports a group if more than one distinct
*path string* was seen.  Two rules that share the file name because they come from the same
path (two documents of one file) are not reported, while the very same file reached through two
spellings of its path is reported as a collision.
"""
import sys
from sigma.collection import SigmaCollection
from sigma.exceptions import SigmaRuleLocation
from sigma.validation import SigmaValidator
from sigma.validators.core.metadata import DuplicateFilenameValidator

RULE = """
title: {t}
logsource:
    category: test
detection:
    sel:
        field: value
    condition: sel
"""


def run(specs):
    col = SigmaCollection.merge(
        [SigmaCollection.from_yaml(y, source=SigmaRuleLocation(p)) for y, p in specs]
    )
    print("  rules:", [(r.title, str(r.source.path), r.source.path.name) for r in col.rules])
    issues = SigmaValidator([DuplicateFilenameValidator]).validate_rules(col)
    return [(i.filename, sorted(r.title for r in i.rules)) for i in issues]


print("case 1: two rules with the same filename (same path)")
got1 = run([(RULE.format(t="A") + "---" + RULE.format(t="B"), "/rules/dir/rule_x.yml")])
print("  expected: [('rule_x.yml', ['A', 'B'])]  (A and B share the filename value)")
print("  actual  :", got1)

print("case 2 (for comparison): same file, path written in two ways")
got2 = run(
    [
        (RULE.format(t="A"), "/rules/dir/rule_x.yml"),
        (RULE.format(t="B"), "/rules/dir/../dir/rule_x.yml"),
    ]
)
print("  actual  :", got2)

if got1 == [] and got2 != []:
    print("VIOLATION: the group of rules sharing the filename is reported or not depending on the path spelling")
    sys.exit(1)
sys.exit(0)
