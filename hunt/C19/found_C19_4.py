"""C19 finding 4: the 'them' checks look at the raw condition text instead of the references.

ThemConditionWithSingleDetectionValidator tests `"them" in condition` (substring) and
AllOfThemConditionValidator searches the regular expression 'all\\s+of\\s+them' without a word
boundary.  Conditions that refer to a detection *by name* ('anthem', 'them') or by an ordinary
pattern ('them_*') are reported as using the selector keyword 'them'.
"""
import sys
from sigma.collection import SigmaCollection
from sigma.validation import SigmaValidator
from sigma.validators.core.condition import (
    ThemConditionWithSingleDetectionValidator,
    AllOfThemConditionValidator,
)


def issues(detections, condition):
    rule = "title: Rule\nlogsource:\n    category: test\ndetection:\n"
    for d in detections:
        rule += f"    {d}:\n        field: value\n"
    rule += f"    condition: {condition}\n"
    v = SigmaValidator([ThemConditionWithSingleDetectionValidator, AllOfThemConditionValidator])
    return sorted(type(i).__name__ for i in v.validate_rules(SigmaCollection.from_yaml(rule)))


violated = False
for dets, cond in (
    (["anthem"], "anthem"),  # reference by name, no selector at all
    (["them_a", "them_b"], "all of them_*"),  # ordinary pattern, not 'them'
):
    got = issues(dets, cond)
    print(f"detections={dets} condition={cond!r}")
    print("  expected: no issue (the condition does not use the selector target 'them')")
    print("  actual  :", got)
    if got:
        violated = True
# control: the genuine cases are still found
print("control '1 of them' with one detection:", issues(["sel"], "1 of them"))
print("control 'all of them':", issues(["a", "b"], "all of them"))
if violated:
    print("VIOLATION: rule reported as referring to 'them' although it does not")
    sys.exit(1)
sys.exit(0)
