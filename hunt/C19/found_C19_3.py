"""C19 finding 3: selectors never match a detection whose name contains a line break.

The selector pattern is turned into a regular expression ('*' -> '.*', 'them' -> '.*') that is
compiled without re.DOTALL, so '.' does not match '\n'.  A detection named "sel\nx" (a valid
YAML key, not underscore-prefixed) is therefore matched neither by '1 of them' nor by
'1 of sel*': the validators report the detection as unused and the selector 'sel*' as
dangling although the selector matches the name.
"""
import sys
from sigma.collection import SigmaCollection
from sigma.validation import SigmaValidator
from sigma.validators.core.condition import (
    DanglingDetectionValidator,
    DanglingConditionValidator,
)

RULE = """
title: Rule
logsource:
    category: test
detection:
    "sel\\nx":
        field: value
    other:
        field: other
    condition: {cond}
"""
violated = False
for cond in ("other or 1 of them", "other or 1 of sel*"):
    collection = SigmaCollection.from_yaml(RULE.format(cond=cond))
    print("detections:", list(collection.rules[0].detection.detections.keys()), "condition:", cond)
    issues = SigmaValidator(
        [DanglingDetectionValidator, DanglingConditionValidator]
    ).validate_rules(collection)
    got = sorted(
        (type(i).__name__, getattr(i, "detection_name", None) or getattr(i, "condition_name", None))
        for i in issues
    )
    print("  expected: no issue (the selector matches the detection 'sel\\nx')")
    print("  actual  :", got)
    if got:
        violated = True
if violated:
    print("VIOLATION: detection reported as unused / selector as dangling although the selector matches")
    sys.exit(1)
sys.exit(0)
