"""C11 finding 6: filter detections whose name is one of the words 1 / all / any / of / not / and / or are not
renamed in the filter condition (the keyword check ignores the token's position), although such names are
accepted as plain identifiers in a rule. The filter condition then reads the RULE's detection of that name
(or fails because there is none); a filter detection named 'them' yields an unparsable condition.
"""
import sys
from sigma.collection import SigmaCollection
from sigma.backends.test import TextQueryTestBackend
from sigma.exceptions import SigmaError

def conv(y):
    return TextQueryTestBackend().convert(SigmaCollection.from_yaml(y))

bad = False
for name in ["all", "any", "of", "1"]:
    rule = f"""
title: r
logsource: {{category: test}}
detection:
  "{name}": {{f1: v1}}
  condition: "{name}"
"""
    filt = f"""
---
title: f
logsource: {{category: test}}
filter:
  rules: any
  "{name}": {{x: 1}}
  condition: "not {name}"
"""
    alone = conv(rule)
    as_rule = conv(filt.replace("---", "").replace("filter:", "detection:").replace("  rules: any\n", ""))
    expected = [f"{alone[0]} and {as_rule[0]}"]
    try:
        actual = conv(rule + filt)
    except SigmaError as e:
        actual = f"error: {e}"
    print(f"name {name!r}: rule alone {alone}, filter detections read alone {as_rule}")
    print(f"   expected {expected}")
    print(f"   actual   {actual}")
    if actual != expected:
        bad = True
if bad:
    print("VIOLATION: the filter's condition was evaluated over the rule's detection of the same name")
sys.exit(1 if bad else 0)
