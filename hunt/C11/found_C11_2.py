"""C11 finding 2: the filter's detection objects are shared (not copied) between all rules it is applied to.

A processing pipeline transforms the detection items of every rule in place; the filter's items are the
same objects in every filtered rule, so they are transformed once per rule. The second rule therefore gets
a different filter condition than the first one / than it gets when it is converted on its own with the filter.
"""
import sys
from sigma.collection import SigmaCollection
from sigma.backends.test import TextQueryTestBackend
from sigma.processing.pipeline import ProcessingPipeline

def pipeline():
    return ProcessingPipeline.from_dict({
        "name": "p", "priority": 10,
        "transformations": [{"id": "sfx", "type": "field_name_suffix", "suffix": "_x"}],
    })

R1 = """
title: r1
logsource: {category: test}
detection:
  a: {f1: v1}
  condition: a
"""
R2 = """
title: r2
logsource: {category: test}
detection:
  a: {f2: v2}
  condition: a
"""
F = """
title: f
logsource: {category: test}
filter:
  rules: any
  sel: {ff: fv}
  condition: not sel
"""
def conv(*docs):
    return TextQueryTestBackend(pipeline()).convert(SigmaCollection.from_yaml("\n---\n".join(docs)))

expected = conv(R1, F) + conv(R2, F)
actual = conv(R1, R2, F)
print("expected (each rule converted separately with the filter):", expected)
print("actual   (both rules in one collection)                  :", actual)
if expected != actual:
    print("VIOLATION: the filter condition of the second rule was transformed twice")
    sys.exit(1)
sys.exit(0)
