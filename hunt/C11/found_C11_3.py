"""C11 finding 3: apply_on_rule rewrites the rule's condition list in place; rules that share that list
(condition given as a YAML list in an 'action: global' document, or inherited through 'action: repeat')
get each other's '_filt_<random>_...' references and can no longer be parsed.
"""
import sys
from sigma.collection import SigmaCollection
from sigma.backends.test import TextQueryTestBackend
from sigma.exceptions import SigmaError

RULES = """
action: global
logsource: {category: test}
detection:
  a: {f1: v1}
  b: {f2: v2}
  condition:
    - a
    - b
---
title: r1
---
title: r2
"""
F = """
---
title: f
logsource: {category: test}
filter:
  rules: any
  sel: {x: 1}
  condition: not sel
"""
def conv(y):
    return TextQueryTestBackend().convert(SigmaCollection.from_yaml(y))

alone = conv(RULES)
expected = [q + " and not x=1" for q in alone]
print("without filter:", alone)
print("expected      :", expected)
try:
    actual = conv(RULES + F)
    print("actual        :", actual)
    sys.exit(0 if actual == expected else 1)
except SigmaError as e:
    print("actual        : error:", e)
    print("VIOLATION: the second rule's conditions already carry the first application's identifiers")
    sys.exit(1)
