"""C11 finding 1: selectors whose pattern starts with '_' cross the rule/filter namespace boundary.

(a) A rule's own selector '1 of _*' (the rule has detections '_a', '_b') also pulls in the filter's
    renamed detections ('_filt_<random>_sel'), so the rule part of the condition changes.
(b) Mirror image inside the filter: the filter's 'them' / '*a' is rewritten to '_filt_<random>_*' /
    '_filt_<random>_*a'; because that pattern starts with '_' it now also matches the filter's own
    detection '_a', which 'them' / '*a' does not match when the same detections+condition are read
    as they stand (identifiers starting with '_' are excluded from 'them' and from wildcard patterns).
"""
import sys
from sigma.collection import SigmaCollection
from sigma.backends.test import TextQueryTestBackend

RULE_A = """
title: rule
logsource: {category: test}
detection:
  _a: {f1: v1}
  _b: {f2: v2}
  condition: 1 of _*
"""
FILTER_A = """
---
title: filter
logsource: {category: test}
filter:
  rules: any
  sel: {ff: fv}
  condition: not sel
"""

def conv(y):
    return TextQueryTestBackend().convert(SigmaCollection.from_yaml(y))

bad = False
alone = conv(RULE_A)[0]
got = conv(RULE_A + FILTER_A)[0]
expected = f"({alone}) and not ff=\"fv\""
print("(a) rule alone        :", alone)
print("(a) expected filtered :", expected)
print("(a) actual filtered   :", got)
if 'ff="fv"' in got.split(" and not ")[0]:
    print("(a) VIOLATION: the rule's selector '1 of _*' captured the filter's detection")
    bad = True

# (b)
DETS = """
  _a: {x: 1}
  b: {y: 2}
"""
as_rule = conv(f"""
title: filter-read-as-rule
logsource: {{category: test}}
detection:{DETS}  condition: 1 of them
""")[0]
got_b = conv(f"""
title: rule
logsource: {{category: test}}
detection:
  a: {{f1: v1}}
  condition: a
---
title: filter
logsource: {{category: test}}
filter:
  rules: any{DETS}  condition: 1 of them
""")[0]
print("(b) '1 of them' over the filter's detections, read on its own:", as_rule)
print("(b) expected filtered : f1=\"v1\" and " + as_rule)
print("(b) actual filtered   :", got_b)
if "x=1" in got_b and "x=1" not in as_rule:
    print("(b) VIOLATION: after prefixing, 'them' also covers the filter's '_a' detection")
    bad = True

sys.exit(1 if bad else 0)
