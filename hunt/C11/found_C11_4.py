"""C11 finding 4: entries of the filter's rule list that are not strings (YAML 0, -1, 0.0, null, false, a nested
list) make the filter apply to every rule with a covered log source, although the list names none of them.
"""
import sys
from sigma.collection import SigmaCollection
from sigma.backends.test import TextQueryTestBackend
from sigma.exceptions import SigmaError

RULE = """
title: rule
name: myrule
id: 0e95725d-7320-415d-80f7-004da920fc11
logsource: {category: test}
detection:
  a: {f1: v1}
  condition: a
"""
def conv(rules):
    return TextQueryTestBackend().convert(SigmaCollection.from_yaml(RULE + f"""
---
title: f
logsource: {{category: test}}
filter:
  rules: {rules}
  sel: {{x: 1}}
  condition: not sel
"""))

bad = False
print("control  rules: [other_rule] ->", conv("[other_rule]"))
for rules in ["[0]", "[-1]", "[0.0]", "[null]", "[false]", "[[other_rule]]"]:
    try:
        got = conv(rules)
    except SigmaError as e:
        print(f"rules: {rules:<16} -> rejected with {type(e).__name__} (fine)")
        continue
    ok = got == ['f1="v1"']
    print(f"rules: {rules:<16} -> expected ['f1=\"v1\"'] (rule not named) or a Sigma error, actual {got}")
    if not ok:
        bad = True
if bad:
    print("VIOLATION: the filter changed a rule that its rule list does not name")
sys.exit(1 if bad else 0)
