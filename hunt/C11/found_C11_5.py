"""C11 finding 5: the random prefix is never checked for uniqueness.

(a) Two filters applied with the same draw: the second overwrites/captures the first one's detections
    ('them' of filter 1 then covers filter 2's detections, identical names are overwritten).
(b) A rule that already has detections named '_filt_<drawn prefix>_...': the filter's detection overwrites
    the rule's, and the filter's 'them' captures the rule's detection.
The draw is steered with random.seed() only; no library internals are touched.
"""
import random, string, sys
from sigma.rule import SigmaRule
from sigma.filters import SigmaFilter
from sigma.collection import SigmaCollection
from sigma.backends.test import TextQueryTestBackend

bad = False
# (a)
def objs():
    r = SigmaRule.from_yaml("""
title: r
logsource: {category: test}
detection:
  a: {f1: v1}
  condition: a
""")
    f1 = SigmaFilter.from_yaml("""
title: f1
logsource: {category: test}
filter:
  rules: any
  sel: {x: 1}
  condition: not 1 of them
""")
    f2 = SigmaFilter.from_yaml("""
title: f2
logsource: {category: test}
filter:
  rules: any
  sel: {y: 2}
  other: {z: 3}
  condition: not sel
""")
    return r, f1, f2
r, f1, f2 = objs()
random.seed(1); f1.apply_on_rule(r)
random.seed(2); f2.apply_on_rule(r)
expected = TextQueryTestBackend().convert_rule(r)
r, f1, f2 = objs()
random.seed(5); f1.apply_on_rule(r)
random.seed(5); f2.apply_on_rule(r)
actual = TextQueryTestBackend().convert_rule(r)
print("(a) expected (different draws):", expected)
print("(a) actual   (same draw twice):", actual)
if expected != actual:
    print("(a) VIOLATION: result depends on the draw")
    bad = True

# (b)
random.seed(1234)
pre = "_filt_" + "".join(random.choices(string.ascii_lowercase, k=10))
y = f"""
title: r
logsource: {{category: test}}
detection:
  {pre}_sel: {{f1: v1}}
  {pre}_other: {{f2: v2}}
  condition: {pre}_sel and not {pre}_other
---
title: f
logsource: {{category: test}}
filter:
  rules: any
  sel: {{ff: fv}}
  condition: 1 of them
"""
random.seed(1); expected = TextQueryTestBackend().convert(SigmaCollection.from_yaml(y))
random.seed(1234); actual = TextQueryTestBackend().convert(SigmaCollection.from_yaml(y))
print("(b) expected (other draw)   :", expected)
print("(b) actual   (colliding draw):", actual)
if expected != actual:
    print("(b) VIOLATION: result depends on the draw")
    bad = True
sys.exit(1 if bad else 0)
