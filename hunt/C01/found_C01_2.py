#!/usr/bin/env python
"""
C01 finding 2: with convert_not_as_not_eq = True a detection that is referenced twice in a
condition - once negated and once not - is negated either in both places or in none.

TextQueryBackend.convert_condition_field_eq_val() decides whether a leaf has to be emitted in its
negated form with is_parent_not(), which walks the .parent links up to the root. The SigmaDetection
and SigmaDetectionItem objects are shared between all references of a detection identifier;
ConditionIdentifier.postprocess() -> SigmaDetection.postprocess() overwrites their .parent with the
reference that was processed last. All leaves of that detection therefore see the parent chain of the
last reference, regardless of where they are located in the condition tree.

Exit code 1 = violation present.
"""
import itertools
import re
import sys

from sigma.backends.test import TextQueryTestBackend
from sigma.collection import SigmaCollection
from sigma.processing.pipeline import ProcessingPipeline


class NotEqBackend(TextQueryTestBackend):
    convert_not_as_not_eq = True
    not_eq_token = "!="
    backend_processing_pipeline = ProcessingPipeline()


RULE = """
title: T
logsource:
    category: test
detection:
    sel:
        a: x
    flt:
        b: y
    other:
        c: z
    condition: {condition}
"""


def query_to_python(q: str) -> str:
    q = re.sub(r"\b([abc])!=(\"[^\"]*\")", r"(ev['\1']!=\2)", q)
    q = re.sub(r"\b([abc])=(\"[^\"]*\")", r"(ev['\1']==\2)", q)
    return q


CASES = [
    (
        "(sel and not flt) or (other and flt)",
        lambda ev: (ev["a"] == "x" and not ev["b"] == "y") or (ev["c"] == "z" and ev["b"] == "y"),
    ),
    (
        "(other and flt) or (sel and not flt)",
        lambda ev: (ev["c"] == "z" and ev["b"] == "y") or (ev["a"] == "x" and not ev["b"] == "y"),
    ),
]

violations = 0
for condition, rule_semantics in CASES:
    query = NotEqBackend().convert(SigmaCollection.from_yaml(RULE.format(condition=condition)))[0]
    code = query_to_python(query)
    wrong = []
    for a, b, c in itertools.product(["x", "y", "z"], repeat=3):
        ev = {"a": a, "b": b, "c": c}
        expected = rule_semantics(ev)
        actual = bool(eval(code, {"ev": ev}))
        if expected != actual:
            wrong.append((ev, expected, actual))
    print(f"--- condition     : {condition}")
    print(f"    emitted query : {query}")
    if wrong:
        violations += 1
        ev, expected, actual = wrong[0]
        print(
            f"    VIOLATION: {len(wrong)} of 27 events differ, e.g. event {ev}: "
            f"rule says {expected}, query says {actual}"
        )
    else:
        print("    ok: query equivalent to rule")

if violations:
    print("\nC01 violated: negation of a detection depends on its last reference in the condition")
    sys.exit(1)
print("\nno violation")
sys.exit(0)
