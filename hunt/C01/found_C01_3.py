#!/usr/bin/env python
"""
C01 finding 3: without a native CIDR expression, IPv6 networks are expanded into wildcard
patterns that do not denote the network.

SigmaCIDRExpression.expand() (sigma/types.py), used by
TextQueryBackend.convert_condition_field_eq_val_cidr() when cidr_expression is None, locates the
position of the wildcard by comparing the *compressed* text of the first and the last address of the
network character by character:

  * if the text of the first address is a prefix of the text of the last address
    ("2001:db8::" vs "2001:db8::ffff:ffff:ffff:ffff" for 2001:db8::/64) no difference is found and
    the network is emitted as the single address "2001:db8::" without any wildcard: all other
    addresses of the network are no longer matched,
  * zero compression ("::") makes both texts diverge earlier than the prefix length, so the pattern
    is too wide ("2001:db8::/48" -> "2001:db8:*", which also matches 2001:db8:1::1; "::/8" -> "*").

For IPv4 the expansion is exact, so presence/absence of the native CIDR expression must not change
which (canonically written) addresses match.

Exit code 1 = violation present.
"""
import fnmatch
import ipaddress
import re
import sys

from sigma.backends.test import TextQueryTestBackend
from sigma.collection import SigmaCollection
from sigma.processing.pipeline import ProcessingPipeline


class NoNativeCIDRBackend(TextQueryTestBackend):
    cidr_expression = None  # no native CIDR support: pySigma expands into wildcard matches
    add_escaped = ""
    backend_processing_pipeline = ProcessingPipeline()


RULE = """
title: T
logsource:
    category: test
detection:
    sel:
        ip|cidr: '{cidr}'
    condition: sel
"""

# (network, address in canonical text form)
CASES = [
    ("2001:db8::/64", "2001:db8::1"),
    ("2001:db8::/64", "2001:db8::dead:beef"),
    ("64:ff9b::/96", "64:ff9b::a00:1"),
    ("2001:db8::/48", "2001:db8:1::1"),
    ("2001:db8::/48", "2001:db8:0:5::1"),
    ("2001:0:0:1000::/52", "2001:1::1"),
    ("::/8", "2001:db8::1"),
    # IPv4 for comparison: exact
    ("10.0.0.0/7", "11.255.0.1"),
    ("10.0.0.0/7", "12.0.0.1"),
]

violations = 0
for cidr, addr in CASES:
    query = NoNativeCIDRBackend().convert(SigmaCollection.from_yaml(RULE.format(cidr=cidr)))[0]
    patterns = re.findall(r'"([^"]*)"', query)
    expected = ipaddress.ip_address(addr) in ipaddress.ip_network(cidr)
    actual = any(fnmatch.fnmatchcase(addr, p) for p in patterns)
    flag = "ok       " if expected == actual else "VIOLATION"
    if expected != actual:
        violations += 1
    print(
        f"{flag} ip|cidr: {cidr:20} query: {query:45} address {addr:22} "
        f"in network: {expected!s:5} matched by query: {actual}"
    )

if violations:
    print(f"\nC01 violated: {violations} address/network pairs are decided differently by the query")
    sys.exit(1)
print("\nno violation")
sys.exit(0)
