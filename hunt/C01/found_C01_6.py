#!/usr/bin/env python
"""
C01 finding 6: the native CIDR expression is the only expression that receives the raw field name
instead of the escaped/quoted one.

TextQueryBackend.convert_condition_field_eq_val_cidr() formats cidr_expression with
"field=cond.field", every other convert_condition_field_* method uses
"self.escape_and_quote_field(cond.field)". With a field name that needs quoting/escaping according to
the backend's field_quote*/field_escape* settings, the CIDR predicate of the query refers to another
field or even changes the boolean structure of the query.

The cidr_expression used here is the one from the backend guide (docs/guides/building_backends.rst:
cidr_expression = 'cidrmatch({field}, "{value}")'), i.e. templates are not expected to quote.

Exit code 1 = violation present.
"""
import re
import sys

from sigma.backends.test import TextQueryTestBackend
from sigma.collection import SigmaCollection
from sigma.processing.pipeline import ProcessingPipeline


class QuotingBackend(TextQueryTestBackend):
    # inherited: field_quote = "'", quote if field name doesn't match ^\w+$
    cidr_expression = 'cidrmatch({field}, "{value}")'
    backend_processing_pipeline = ProcessingPipeline()


class EscapingBackend(TextQueryTestBackend):
    # Lucene like: no quoting, whitespace in field names is escaped with a backslash
    field_quote = None
    field_escape = "\\"
    field_escape_pattern = re.compile(r"\s")
    eq_token = ":"
    cidr_expression = "{field}:{value}"
    backend_processing_pipeline = ProcessingPipeline()


RULE = """
title: T
logsource:
    category: test
detection:
    sel:
        'src ip|cidr': 10.0.0.0/8
        'src ip|startswith': '10.1.'
    condition: sel
"""

violations = 0
for backend_class in (QuotingBackend, EscapingBackend):
    backend = backend_class()
    query = backend.convert(SigmaCollection.from_yaml(RULE))[0]
    spelled = backend.escape_and_quote_field("src ip")
    print(f"--- {backend_class.__name__}")
    print(f"    field 'src ip' has to be written as: {spelled}")
    print(f"    emitted query: {query}")
    n = query.count(spelled)
    print(f"    expected: both predicates use {spelled}; actual: {n} of 2 do")
    if n != 2:
        violations += 1
        print("    VIOLATION: the CIDR predicate uses the raw field name")

if violations:
    print("\nC01 violated: field name of the CIDR predicate is not the field of the rule")
    sys.exit(1)
print("\nno violation")
sys.exit(0)
