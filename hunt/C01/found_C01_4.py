#!/usr/bin/env python
"""
C01 finding 4: integer values above 2**53 are emitted as a different number.

SigmaNumber.__post_init__() (sigma/types.py) converts every number to float first and keeps the int
only if "int(v) == float(v)". For an integer that is not exactly representable as a double this
comparison is False, so the *rounded float* is stored and written into the query
(convert_condition_field_eq_val_num / in-lists / compare operators use str(value)).
64 bit identifiers (LUIDs, file times, inode numbers, flags) are legitimate YAML integers.

Exit code 1 = violation present.
"""
import re
import sys

from sigma.backends.test import TextQueryTestBackend
from sigma.collection import SigmaCollection

RULE = """
title: T
logsource:
    category: test
detection:
    sel:
        {item}
    condition: sel
"""

CASES = [
    ("LogonId: 9007199254740993", 9007199254740993),  # 2**53 + 1
    ("FileTime|gte: 133500000000000001", 133500000000000001),  # Windows FILETIME
    ("Id: [18446744073709551615, 1]", 18446744073709551615),  # 2**64 - 1
]

violations = 0
for item, number in CASES:
    query = TextQueryTestBackend().convert(SigmaCollection.from_yaml(RULE.format(item=item)))[0]
    emitted = re.findall(r"\d[\d.e+]*", query)
    ok = str(number) in emitted
    print(f"--- detection item: {item}")
    print(f"    expected value in query: {number}")
    print(f"    emitted query          : {query}")
    if not ok:
        violations += 1
        print("    VIOLATION: the query compares with a different number")

if violations:
    print("\nC01 violated: decoded value of the predicate changed")
    sys.exit(1)
print("\nno violation")
sys.exit(0)
