#!/usr/bin/env python
"""
C01 finding 5: a timestamp part modifier (|minute, |hour, |day, |week, |month, |year) combined with
a compare modifier (|gt, |gte, |lt, |lte) is silently dropped by backends without timestamp part
support: "field|hour|gte: 22" is emitted as "field>=22".

TextQueryBackend.convert_condition_field_compare_op_val() uses the timestamp part template only if
field_timestamp_part_expression and timestamp_part_mapping are set and otherwise falls through to the
plain compare_op_expression with the bare field, instead of raising NotImplementedError as
convert_condition_field_eq_val_timestamp_part() does for "field|hour: 22". The emitted predicate
(field itself >= 22) is a different predicate than the one of the rule (hour of field >= 22).

Exit code 1 = violation present.
"""
import sys

from sigma.backends.test import TextQueryTestBackend
from sigma.collection import SigmaCollection

RULE = """
title: T
logsource:
    category: test
detection:
    sel:
        {item}
    condition: sel
"""


def convert(item):
    try:
        return TextQueryTestBackend().convert(SigmaCollection.from_yaml(RULE.format(item=item)))[0]
    except NotImplementedError as e:
        return f"NotImplementedError: {e}"


print("backend: TextQueryTestBackend (no field_timestamp_part_expression / timestamp_part_mapping)")
eq = convert("time|hour: 22")
print(f"time|hour: 22      -> {eq}")
with_part = convert("time|hour|gte: 22")
without_part = convert("time|gte: 22")
print(f"time|hour|gte: 22  -> {with_part}")
print(f"time|gte: 22       -> {without_part}")
print(
    "expected: 'time|hour|gte: 22' is rejected like 'time|hour: 22' (or a query on the hour part); "
    "it must not be the query of 'time|gte: 22'"
)
if with_part == without_part:
    print("VIOLATION (C01): the timestamp part was dropped, the query tests the field itself")
    sys.exit(1)
print("no violation")
sys.exit(0)
