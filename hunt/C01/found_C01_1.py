#!/usr/bin/env python
"""
C01 finding 1: with convert_not_as_not_eq = True the NOT token is dropped without the operand
being negated.

TextQueryBackend.convert_condition_not() returns the converted operand unchanged when
convert_not_as_not_eq is set, trusting that the operand "negated itself" through the swapped
*_expression templates. That only happens for the few leaf kinds that have a not_* template
(string eq/startswith/endswith/contains, re, cidr). For everything else the negation is lost:

  * NOT over an AND/OR group: the leaves are negated but AND/OR are not dualized (no De Morgan),
  * NOT over a NOT,
  * numbers, booleans, null, exists, compare operators, field references, in-lists, case-sensitive
    and wildcard-match expressions, keywords.

The program evaluates rule and emitted query over all events of a small universe.
Exit code 1 = violation present.
"""
import itertools
import re
import sys

from sigma.backends.test import TextQueryTestBackend
from sigma.collection import SigmaCollection
from sigma.processing.pipeline import ProcessingPipeline


class NotEqBackend(TextQueryTestBackend):
    # a backend configuration that expresses NOT as "!=" (documented configuration switch)
    convert_not_as_not_eq = True
    not_eq_token = "!="
    backend_processing_pipeline = ProcessingPipeline()
    field_not_exists_expression = None


RULE = """
title: T
logsource:
    category: test
detection:
{detection}
"""

UNIVERSE = ["x", "y", 1, None]  # None: field is absent / null


def query_to_python(q: str) -> str:
    q = re.sub(r"(\w+) in \(", r"ev['\1'] in (", q)
    q = re.sub(r"exists\((\w+)\)", r"(ev['\1'] is not None)", q)
    q = re.sub(r"(\w+) is null", r"(ev['\1'] is None)", q)
    q = re.sub(r"\b([ab])!=(\"[^\"]*\"|\d+)", r"(ev['\1']!=\2)", q)
    q = re.sub(r"\b([ab])=(\"[^\"]*\"|\d+)", r"(ev['\1']==\2)", q)
    return q


CASES = [
    (
        "NOT over an AND group (De Morgan missing)",
        """
    sel1:
        a: x
    sel2:
        b: y
    condition: not (sel1 and sel2)
""",
        lambda ev: not (ev["a"] == "x" and ev["b"] == "y"),
    ),
    (
        "NOT over an OR group (emitted as in-list, negation lost)",
        """
    sel:
        a:
          - x
          - y
    condition: not sel
""",
        lambda ev: not (ev["a"] in ("x", "y")),
    ),
    (
        "NOT over NOT",
        """
    sel:
        a: x
    condition: not (not sel)
""",
        lambda ev: ev["a"] == "x",
    ),
    (
        "neq modifier on a number",
        """
    sel:
        a|neq: 1
    condition: sel
""",
        lambda ev: not (ev["a"] == 1),
    ),
    (
        "NOT of a null check",
        """
    sel:
        a: null
    condition: not sel
""",
        lambda ev: not (ev["a"] is None),
    ),
    (
        "NOT of an exists check",
        """
    sel:
        a|exists: true
    condition: not sel
""",
        lambda ev: not (ev["a"] is not None),
    ),
]

violations = 0
for name, detection, rule_semantics in CASES:
    queries = NotEqBackend().convert(SigmaCollection.from_yaml(RULE.format(detection=detection)))
    query = queries[0]
    code = query_to_python(query)
    wrong = []
    for a, b in itertools.product(UNIVERSE, repeat=2):
        ev = {"a": a, "b": b}
        expected = rule_semantics(ev)
        actual = bool(eval(code, {"ev": ev}))
        if expected != actual:
            wrong.append((ev, expected, actual))
    print(f"--- {name}")
    print(f"    condition/detection: {' '.join(detection.split())}")
    print(f"    emitted query      : {query}")
    if wrong:
        violations += 1
        ev, expected, actual = wrong[0]
        print(
            f"    VIOLATION: {len(wrong)} of {len(UNIVERSE) ** 2} events differ, e.g. event {ev}: "
            f"rule says {expected}, query says {actual}"
        )
    else:
        print("    ok: query equivalent to rule")

if violations:
    print(f"\n{violations} of {len(CASES)} cases violate C01 (NOT is lost in not-as-not-equals mode)")
    sys.exit(1)
print("\nno violation")
sys.exit(0)
