#!/bin/sh
# run every reproducer of the hunters against /repo (or $VERIF_REPO): prints the ones that still exit 1
cd "$(dirname "$0")"
repo=${VERIF_REPO:-/repo}
for f in */found_*.py; do
  PYTHONPATH=$repo timeout 120 /venv/bin/python "$f" >/dev/null 2>&1
  rc=$?
  echo "$rc $f"
done
