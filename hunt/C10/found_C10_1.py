"""C10 finding 1: a referenced *correlation* rule is embedded in finalised and post-processed form
although the backend does not opt into sub-query finalisation (finalize_correlation_subqueries = False).
A referenced plain rule in the same correlation is (correctly) embedded unfinalised."""
import sys
from sigma.backends.test import TextQueryTestBackend
from sigma.collection import SigmaCollection
from sigma.processing.pipeline import ProcessingPipeline, QueryPostprocessingItem
from sigma.processing.postprocessing import EmbedQueryTransformation

YAML = """
title: a
name: a
logsource:
    product: windows
detection:
    sel:
        f1: v1
    condition: sel
---
title: b
name: b
logsource:
    product: windows
detection:
    sel:
        f2: v2
    condition: sel
---
title: inner
name: inner
correlation:
    type: event_count
    rules: [a]
    group-by: [user]
    timespan: 5m
    condition:
        gte: 10
---
title: outer
name: outer
correlation:
    type: temporal
    rules: [inner, b]
    group-by: [user]
    timespan: 1h
"""

assert TextQueryTestBackend.finalize_correlation_subqueries is False

# the query the inner correlation rule converts to on its own, without any finalisation/post-processing
plain = TextQueryTestBackend().convert(SigmaCollection.from_yaml(YAML))
outer_plain = plain[-1]
inner_raw = outer_plain.split("subsearch { ")[1].split(' | set event_type="inner"')[0]

pipeline = ProcessingPipeline(
    postprocessing_items=[QueryPostprocessingItem(EmbedQueryTransformation(prefix="<<", suffix=">>"))]
)
res = TextQueryTestBackend(pipeline).convert(SigmaCollection.from_yaml(YAML))
outer = res[-1]

expected_inner = 'subsearch { ' + inner_raw + ' | set event_type="inner" }'
expected_b = 'subsearch { f2="v2" | set event_type="b" }'
print("backend opts into sub-query finalisation:", TextQueryTestBackend.finalize_correlation_subqueries)
print("expected embedded inner sub-query :", repr(expected_inner))
print("expected embedded rule b sub-query:", repr(expected_b))
print("actual outer query                :", repr(outer))
bad = expected_inner not in outer or ("<<" in outer[2:-2])
print("rule b embedded unfinalised:", expected_b in outer)
if bad:
    print("VIOLATION: the referenced correlation rule is embedded post-processed (<<...>>) inside the outer query")
    sys.exit(1)
sys.exit(0)
