"""C10 finding 3: a field-name pipeline renames the fields of the referenced rules but not the alias
targets of the correlation rule if the correlation rule has no group-by."""
import sys
from sigma.backends.test import TextQueryTestBackend
from sigma.collection import SigmaCollection
from sigma.processing.pipeline import ProcessingPipeline, ProcessingItem
from sigma.processing.transformations import FieldMappingTransformation

RULES = """
title: a
name: a
logsource:
    product: windows
detection:
    sel:
        src_user: v1
    condition: sel
---
title: b
name: b
logsource:
    product: windows
detection:
    sel:
        dst_user: v2
    condition: sel
---
"""
CORR = """
title: outer
name: outer
correlation:
    type: temporal
    rules: [a, b]
    timespan: 1h
    {groupby}
    aliases:
        user:
            a: src_user
            b: dst_user
"""
def run(groupby):
    pipeline = ProcessingPipeline(
        [ProcessingItem(FieldMappingTransformation({"src_user": "SRC", "dst_user": "DST"}))]
    )
    return TextQueryTestBackend(pipeline).convert(
        SigmaCollection.from_yaml(RULES + CORR.format(groupby=groupby))
    )[-1]

with_gb = run("group-by: [user]")
without_gb = run("")
print("with group-by (alias targets renamed as the rule fields):\n" + with_gb + "\n")
print("without group-by:\n" + without_gb + "\n")
exp = ['SRC="v1" | set event_type="a" | set user=SRC', 'DST="v2" | set event_type="b" | set user=DST']
print("expected in both:", exp)
ok_with = all(e in with_gb for e in exp)
ok_without = all(e in without_gb for e in exp)
print("with group-by ok:", ok_with, " without group-by ok:", ok_without)
if not ok_without:
    print("VIOLATION: rule fields were renamed to SRC/DST, alias targets still are src_user/dst_user")
    sys.exit(1)
sys.exit(0)
