"""C10 finding 5: the condition count and the percentile are silently truncated to integers, so the
threshold in the query is not the one given in the rule (value_avg >= 0.5 becomes >= 0)."""
import sys
from sigma.backends.test import TextQueryTestBackend
from sigma.collection import SigmaCollection

RULE = """
title: a
name: a
logsource:
    product: windows
detection:
    sel:
        f1: v1
    condition: sel
---
"""
AVG = RULE + """
title: avg
name: avg
correlation:
    type: value_avg
    rules: [a]
    group-by: [user]
    timespan: 1h
    condition:
        field: score
        gte: 0.5
"""
PCT = RULE + """
title: pct
name: pct
correlation:
    type: value_percentile
    rules: [a]
    timespan: 1h
    condition:
        field: duration
        percentile: 99.9
        lt: -2.7
"""
bad = False
q = TextQueryTestBackend().convert(SigmaCollection.from_yaml(AVG))[-1]
print("value_avg, condition gte: 0.5\n  expected: ... | where value_avg >= 0.5\n  actual  : " + q.splitlines()[-1])
bad |= not q.endswith("| where value_avg >= 0.5")
q = TextQueryTestBackend().convert(SigmaCollection.from_yaml(PCT))[-1]
print("value_percentile, percentile: 99.9, lt: -2.7")
print("  expected: ... percentile(duration, 99.9) ... | where value_percentile < -2.7")
print("  actual  : " + " ".join(q.splitlines()[-2:]))
bad |= "percentile(duration, 99.9)" not in q or not q.endswith("< -2.7")
if bad:
    print("VIOLATION: count / percentile do not appear as given (truncated by int())")
    sys.exit(1)
sys.exit(0)
