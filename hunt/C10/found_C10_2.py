"""C10 finding 2: an alias normalisation is silently dropped when the alias definition refers to the
rule by another (equally valid) identifier than the rules list (id vs. name)."""
import sys
from sigma.backends.test import TextQueryTestBackend
from sigma.collection import SigmaCollection

YAML = """
title: a
name: a
id: 0e95725d-7320-415d-80f7-004da920fc11
logsource:
    product: windows
detection:
    sel:
        f1: v1
    condition: sel
---
title: b
name: b
id: 0e95725d-7320-415d-80f7-004da920fc12
logsource:
    product: windows
detection:
    sel:
        f2: v2
    condition: sel
---
title: outer
name: outer
correlation:
    type: temporal
    rules: [a, b]
    group-by: [user]
    timespan: 1h
    aliases:
        user:
            0e95725d-7320-415d-80f7-004da920fc11: src_user   # rule a, referenced by its id
            b: dst_user
"""
coll = SigmaCollection.from_yaml(YAML)
q = TextQueryTestBackend().convert(coll)[-1]
corr = coll.rules[-1]
alias_ref = list(corr.aliases.aliases["user"].mapping.keys())[0]
alias_ref.resolve(coll)
print("alias reference", alias_ref.reference, "resolves to rule named:", alias_ref.rule.name)
exp_a = 'subsearch { f1="v1" | set event_type="a" | set user=src_user }'
exp_b = 'subsearch { f2="v2" | set event_type="b" | set user=dst_user }'
print("expected to contain:", exp_a)
print("expected to contain:", exp_b)
print("actual query:\n" + q)
if exp_a not in q or exp_b not in q:
    print("VIOLATION: alias normalisation user=src_user for rule a is missing from the query")
    sys.exit(1)
sys.exit(0)
