"""C10 finding 6: with a single referenced rule (single query) and a backend that defines
correlation_search_single_rule_expression the embedded query can't be tagged with the rule's name or
id: the documented {ruleid} placeholder is not passed at all and {rule} is the SigmaRuleReference
instead of the referred rule. With two referenced rules (multi-rule template) the same placeholders work."""
import sys
from sigma.backends.test import TextQueryTestBackend
from sigma.collection import SigmaCollection

class TaggingBackend(TextQueryTestBackend):
    # placeholders as documented for correlation_search_single_rule_expression in TextQueryBackend
    correlation_search_single_rule_expression = '{query} | set event_type="{ruleid}"{normalization}'

class TaggingBackend2(TextQueryTestBackend):
    correlation_search_single_rule_expression = '{query} | set event_type="{rule.name}"{normalization}'
    correlation_search_multi_rule_query_expression = (
        'subsearch {{ {query} | set event_type="{rule.name}"{normalization} }}'
    )

RULES = """
title: a
name: a
logsource:
    product: windows
detection:
    sel:
        f1: v1
    condition: sel
---
title: b
name: b
logsource:
    product: windows
detection:
    sel:
        f2: v2
    condition: sel
---
"""
def corr(rules):
    return RULES + f"""
title: c
name: c
correlation:
    type: event_count
    rules: {rules}
    timespan: 1h
    condition:
        gte: 3
"""
bad = False
expected = 'f1="v1" | set event_type="a"'
for backend_cls in (TaggingBackend, TaggingBackend2):
    print(backend_cls.__name__, "single-rule template:", backend_cls.correlation_search_single_rule_expression)
    try:
        two = backend_cls().convert(SigmaCollection.from_yaml(corr("[a, b]")))[-1]
        print("  two referenced rules :", repr(two.splitlines()[0]))
    except Exception as e:
        print("  two referenced rules : raised", repr(e))
    try:
        q = backend_cls().convert(SigmaCollection.from_yaml(corr("[a]")))[-1]
        print("  one referenced rule  :", repr(q.splitlines()[0]))
        bad |= expected not in q
    except Exception as e:
        print("  one referenced rule  : expected", repr(expected), "- raised", repr(e))
        bad = True
if bad:
    print("VIOLATION: the single referenced rule's query can't be tagged with its name or id")
    sys.exit(1)
sys.exit(0)
