"""C10 finding 4: the rule conditions of a field mapping are decided once for the correlation rule as
a whole instead of following what happened to each referenced rule:
(a) LogsourceCondition matches the correlation rule if ANY referenced rule matches, and then the alias
    targets of ALL referenced rules are renamed - also that of a rule whose own fields were not renamed.
(b) Conditions on the rule content (RuleContainsDetectionItemCondition, RuleContainsFieldCondition,
    RuleTagCondition, ...) never match a correlation rule, so group-by and condition field stay
    unrenamed although the (only) referenced rule was renamed."""
import sys
from sigma.backends.test import TextQueryTestBackend
from sigma.collection import SigmaCollection
from sigma.processing.pipeline import ProcessingPipeline, ProcessingItem
from sigma.processing.transformations import FieldMappingTransformation
from sigma.processing.conditions import LogsourceCondition, RuleContainsDetectionItemCondition

bad = False

# (a)
YAML_A = """
title: a
name: a
logsource:
    product: windows
detection:
    sel:
        user: v1
    condition: sel
---
title: b
name: b
logsource:
    product: linux
detection:
    sel:
        user: v2
    condition: sel
---
title: outer
name: outer
correlation:
    type: temporal
    rules: [a, b]
    group-by: [who]
    timespan: 1h
    aliases:
        who:
            a: user
            b: user
"""
pipeline = ProcessingPipeline(
    [
        ProcessingItem(
            FieldMappingTransformation({"user": "WinUser"}),
            rule_conditions=[LogsourceCondition(product="windows")],
        )
    ]
)
q = TextQueryTestBackend(pipeline).convert(SigmaCollection.from_yaml(YAML_A))[-1]
exp_a = 'subsearch { WinUser="v1" | set event_type="a" | set who=WinUser }'
exp_b = 'subsearch { user="v2" | set event_type="b" | set who=user }'
print("(a) expected (alias target renamed like the rule's own field):")
print("  " + exp_a)
print("  " + exp_b)
print("(a) actual query:\n" + q)
if exp_a not in q or exp_b not in q:
    print("VIOLATION (a): rule b keeps field 'user' in its query, but its alias target was renamed to 'WinUser'\n")
    bad = True

# (b)
YAML_B = """
title: a
name: a
logsource:
    product: windows
detection:
    sel:
        EventID: 4624
        user: x
    condition: sel
---
title: outer
name: outer
correlation:
    type: value_count
    rules: [a]
    group-by: [user]
    timespan: 1h
    condition:
        field: user
        gte: 3
"""
pipeline = ProcessingPipeline(
    [
        ProcessingItem(
            FieldMappingTransformation({"user": "TargetUserName"}),
            rule_conditions=[RuleContainsDetectionItemCondition("EventID", 4624)],
        )
    ]
)
q = TextQueryTestBackend(pipeline).convert(SigmaCollection.from_yaml(YAML_B))[-1]
expected = (
    'EventID=4624 and TargetUserName="x"\n'
    "| aggregate window=1h value_count(TargetUserName) as value_count by TargetUserName\n"
    "| where value_count >= 3"
)
print("(b) expected:\n" + expected)
print("(b) actual:\n" + q)
if q != expected:
    print("VIOLATION (b): the referenced rule's field was renamed to TargetUserName, group-by and condition field were not")
    bad = True

sys.exit(1 if bad else 0)
