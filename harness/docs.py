"""Source-form documents (as emitted by the TLA+ generators) -> plain Python rule dicts.

Pure data plumbing: keys are `field|mod|mod`, values are the plain YAML values. No Sigma
semantics is applied here (no escaping, no parsing)."""
from __future__ import annotations


def uncps(a):
    return "".join(chr(c) for c in a)


def plain_value(v):
    if v["t"] == "s":
        return uncps(v["s"])
    if v["t"] == "n":
        n, d = v["num"]
        return n if d == 1 else n / d
    if v["t"] == "b":
        return bool(v["b"])
    return None


def item_kv(item):
    key = uncps(item["field"]) + "".join("|" + uncps(m) for m in item["chain"])
    vals = [plain_value(v) for v in item["vals"]]
    return key, (vals[0] if item.get("single", len(vals) == 1) and len(vals) == 1 else vals)


def body_plain(body):
    if body["kind"] == "map":
        return dict(item_kv(i) for i in body["items"])
    if body["kind"] == "maps":
        return [dict(item_kv(i) for i in m) for m in body["maps"]]
    vals = [plain_value(v) for v in body["vals"]]
    return vals if len(vals) != 1 else vals[0]


def rule_dict(doc, title="t", extra=None):
    det = {uncps(d["name"]): body_plain(d["body"]) for d in doc["dets"]}
    conds = [uncps(c) for c in doc["conds"]]
    det["condition"] = conds[0] if len(conds) == 1 else conds
    r = {"title": title, "logsource": {"category": "test"}, "detection": det}
    if extra:
        r.update(extra)
    return r


def convert_via(doc: dict, backend, via: int):
    """Load the rule document and convert it through one of four equivalent routes (chosen by the case number, so
    that every route is exercised over the whole corpus): from_dict / from_yaml of the dumped document x
    convert_rule(rule) / convert(collection)."""
    import yaml
    from sigma.collection import SigmaCollection
    from sigma.rule import SigmaRule

    as_yaml, as_collection = via % 2 == 1, (via // 2) % 2 == 1
    if as_collection:
        coll = SigmaCollection.from_yaml(yaml.safe_dump(doc, sort_keys=False)) if as_yaml else SigmaCollection.from_dicts([doc])
        return backend.convert(coll)
    rule = SigmaRule.from_yaml(yaml.safe_dump(doc, sort_keys=False)) if as_yaml else SigmaRule.from_dict(doc)
    return backend.convert_rule(rule)


def with_global(docs, key="detection", sub="condition"):
    """The same collection written the short way: what all documents have in common under key/sub stands once, in a
    global action document in front (equivalent by the documented meaning of action: global)."""
    import copy

    docs = copy.deepcopy(docs)
    vals = [d.get(key, {}).get(sub) for d in docs]
    if len(docs) < 2 or any(v is None or v != vals[0] for v in vals):
        return docs
    for d in docs:
        del d[key][sub]
    return [{"action": "global", key: {sub: vals[0]}}] + docs


def with_global_top(docs, key):
    """The same collection with what all documents have in common under the top-level key moved into a global action
    document in front."""
    import copy

    docs = copy.deepcopy(docs)
    vals = [d.get(key) for d in docs]
    if len(docs) < 2 or any(v is None or v != vals[0] for v in vals):
        return docs
    for d in docs:
        del d[key]
    return [{"action": "global", key: vals[0]}] + docs
