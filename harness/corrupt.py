"""Corruptions for the binding self-test (Check.binding_selftest): each function takes an observation the
judge ACCEPTED, changes ONE recorded field so that it no longer shows what the code did, and returns it
(or None if this observation offers nothing to corrupt).  The judge must then reject it."""
from __future__ import annotations

from .common import cps


def _neg(q):
    return cps("NOT (") + q + cps(")")


def c04(o):
    vals = o["ret"]["out"]["value"] if o["ret"]["ok"] else []
    if not vals:
        return None
    bad = [33, 33, 33, 33]  # "!!!!" is not the Base64 text of anything
    if vals[0]["t"] == "exp":
        for v in vals[0]["vals"]:
            v["parts"] = list(bad)
    else:
        vals[0]["parts"] = list(bad)
    return o


def c05(o):
    if o.get("kind") != "str":
        return None
    o["len"] += 1
    return o


def c06(o):
    if not o.get("d2", {}).get("ok"):
        return None
    if o.get("m1", {}).get("out") and o.get("m2", {}).get("ok") and o["m2"]["out"]:
        i = [a for a, _ in o["m2"]["out"]].index("level")
        o["m2"] = dict(o["m2"], out=[list(p) for p in o["m2"]["out"]])
        o["m2"]["out"][i][1] = cps("!!!!")  # the reloaded rule prints another level
        return o
    o["d2"]["out"] = o["d2"]["out"] + cps(" ")  # the second dict form differs from the first
    return o


def c07(o):
    if o["direct_strict"]["ok"]:
        o["direct_collect"]["errors"] = [["SigmaError", cps("made up")]]  # errors although strict loading succeeds
    else:
        o["direct_collect"]["errors"] = []  # no error although strict loading raises
    return o


def c08(o):
    if not o["coll"]["ok"]:
        return None
    o["coll"]["out"] = o["coll"]["out"] + [cps("extra")]  # a query nobody accounts for
    return o


def c09(o):
    for r in o["runs"]:
        if r.get("ok") and r.get("out"):
            r["out"] = r["out"][:-1]  # one rule's query is missing in one ordering
            return o
    return None


def c10(o):
    if not o["ret"]["ok"] or not o["ret"]["out"]:
        return None
    q = o["ret"]["out"][-1]
    o["ret"]["out"][-1] = q[:-1]  # the closing mark of the post-processing is gone
    return o


def c11(o):
    f = o["filtered"][0]
    if not f["ok"] or not f["out"] or not f["out"][0]:
        return None
    f["out"][0][0] = _neg(f["out"][0][0])
    return o


def c12(o):
    if not o["ret"]["ok"] or not o["ret"]["out"] or o.get("identity"):
        return None
    o["ret"]["out"][0] = _neg(o["ret"]["out"][0])
    return o


def c13(o):
    if not o["ret"]["ok"]:
        return None
    o["ret"]["out"]["rule"] = not o["ret"]["out"]["rule"]
    return o


def c14(o):
    if not o["got"]["ok"] or not o["got"]["out"] or not o["got"]["out"][0]:
        return None
    o["got"]["out"][0][0] = o["got"]["out"][0][0] + cps("x")
    return o


def c15(o):
    if not o["got"]["ok"] or not o["got"]["out"]:
        return None
    o["got"]["out"][0] = o["got"]["out"][0] + cps("x")
    return o


def c16(o):
    if o["caller"] or o["env"] in ("1", "true", "TRUE"):
        return None
    o["effect"], o["events"] = True, ["subprocess.Popen"]  # a side effect without any grant
    return o


def c17(o):
    if not o["ret"]["ok"] or not o["ret"]["out"]:
        return None
    o["ret"]["out"][0] = _neg(o["ret"]["out"][0])
    return o


def c18(o):
    if o["kind"] == "bad" or not o["expand"]["ok"] or not o["expand"]["out"]:
        return None
    o["expand"]["out"] = o["expand"]["out"][1:] + [cps("203.0.113.*")]  # a block is missing, a foreign one added
    return o


def c19(o):
    for r in o["runs"]:
        if r.get("issues"):
            r["issues"] = r["issues"][:-1]  # one issue is not reported in one of the runs
            return o
    return None


def c20(o):
    if len(o["shas"]) < 2:
        return None
    o["shas"][0] = "0000000000000000"  # one process printed something else
    return o


def system(o):
    """A behaviour of the integrated layer: the last successful conversion returns one query less."""
    for st in reversed(o["steps"]):
        if st["last"]["queries"]:
            st["last"] = dict(st["last"], queries=st["last"]["queries"][:-1])
            return o
    return None
