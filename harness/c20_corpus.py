"""Run one corpus of cases in THIS interpreter and write per-case digests.

usage: python -m harness.c20_corpus <corpus.json> <out.json> <random seed>
The process is started by harness/props/c20.py with a chosen PYTHONHASHSEED."""
from __future__ import annotations

import hashlib
import json
import re
import random
import sys


class UnknownKind(Exception):
    """A case kind the driver does not know: a mistake in the machinery (never an observation to compare)."""


def run_case(kind, case):
    from sigma.exceptions import SigmaError

    try:
        if kind == "c01":
            from .props.c01 import drive_case
        elif kind == "c11":
            from .props.c11 import rule_doc, filter_doc, K
            from .backend import make_backend
            from sigma.collection import SigmaCollection

            rules = [rule_doc(r, i + 1) for i, r in enumerate(case["rules"])]
            filters = [filter_doc(f, i + 1) for i, f in enumerate(case["filters"])]
            coll = SigmaCollection.from_dicts(rules + filters)
            return [q for q in make_backend(K).convert(coll)]
        elif kind == "c12":
            from .props.c12 import drive_case
        elif kind == "c17":
            from .props.c17 import drive_case
        elif kind == "c07":
            from .props.c07 import to_py
            from sigma.collection import SigmaCollection

            coll = SigmaCollection.from_dicts([to_py(case["doc"])], collect_errors=True, resolve_references=False)
            errs = list(coll.errors) + [e for r in coll.rules for e in r.errors]
            return [type(e).__name__ + ": " + str(e) for e in errs]
        elif kind == "c19":
            from .props.c19 import rule_dict
            from sigma.rule import SigmaRule
            from sigma.validation import SigmaValidator
            from sigma.validators.core import validators as VALIDATORS

            rules = [SigmaRule.from_dict(rule_dict(r, i + 1)) for i, r in enumerate(case["coll"])]
            issues = SigmaValidator(list(VALIDATORS.values())).validate_rules(iter(rules))
            return [type(i).__name__ + ":" + ",".join("R" + str(r.custom_attributes["verif_idx"]) for r in i.rules) + ":" + str({k: v for k, v in vars(i).items() if k != "rules"}) for i in issues]
        elif kind == "c13":
            from .props.c13 import pipeline_dict, RULE
            from sigma.processing.pipeline import ProcessingPipeline
            from sigma.rule import SigmaRule
            import copy

            p = ProcessingPipeline.from_dict(pipeline_dict(case["G"]))
            ids = [item.identifier for item in p.items]
            r = SigmaRule.from_dict(copy.deepcopy(RULE))
            p.apply(r)
            return [str(ids), str(sorted(p.applied_ids)), str(r.fields), str([i.field for i in r.detection.detections["sel"].detection_items])]
        elif kind == "c20x":
            return run_c20x(case)
        o = drive_case(case)
        ret = o["ret"]
        if ret["ok"]:
            return ["".join(chr(c) for c in q) for q in ret["out"]]
        return [ret["exc"] + ": " + "".join(chr(c) for c in ret["msg"])]
    except SigmaError as e:
        return ["SigmaError " + type(e).__name__ + ": " + str(e)]
    except UnknownKind:
        raise
    except Exception as e:  # noqa: BLE001
        return ["EXC " + type(e).__name__ + ": " + str(e)]


FIELD_NAMES = ["alpha", "b", "Zed", "f9", "user.name"]


def run_c20x(case):
    """Scenarios of spec/Gen_C20.tla (sets inside the library)."""
    from sigma.backends.test import TextQueryTestBackend
    from sigma.collection import SigmaCollection
    from sigma.processing.pipeline import ProcessingPipeline
    from sigma.types import SigmaRegularExpressionFlag as F

    k = case["kind"]
    if k == "reflags":
        letter = {1: "i", 2: "m", 3: "s"}
        flag = {1: F.IGNORECASE, 2: F.MULTILINE, 3: F.DOTALL}
        cls = type("FlagTokens", (TextQueryTestBackend,), {
            "re_flag_prefix": False,
            "re_expression": "{field}=/{regex}/{flag_i}{flag_m}{flag_s}",
            "re_flags": {flag[n]: letter[n] for n in case["supported"]},
        })
        # the modifiers are written in REVERSE order so that no order of the source survives by accident
        mods = "|".join(letter[n] for n in reversed(case["flags"]))
        doc = {"title": "t", "logsource": {"category": "c"}, "detection": {"sel": {"f|re|" + mods: "a.b"}, "condition": "sel"}}
        return list(cls().convert(SigmaCollection.from_dicts([doc])))
    names = [FIELD_NAMES[n - 1] for n in case["names"]]
    if k in ("badcond", "filtermissing", "convnum", "validatorset", "unrefcond", "appliedids", "converr", "reflagerr", "dangling3", "attrerr",
             "unknownvals", "tracking", "underq", "plainerr", "tmplerr", "funcid", "dupfields"):
        return run_errors(k, case, names)
    if k == "strict":
        pipe = ProcessingPipeline.from_dict({"name": "p", "priority": 1, "transformations": [
            {"type": "field_name_mapping", "mapping": {FIELD_NAMES[n - 1]: "m_" + FIELD_NAMES[n - 1] for n in case["mapped"]}},
            {"type": "strict_field_mapping_failure"}]})
        doc = {"title": "t", "logsource": {"category": "c"}, "detection": {"sel": {n: "v" for n in names}, "condition": "sel"}}
        return list(TextQueryTestBackend(pipe).convert(SigmaCollection.from_dicts([doc])))
    if k == "vars":
        p1 = ProcessingPipeline.from_dict({"name": "p1", "priority": 1, "vars": {names[0]: ["a1", "a2"], names[1]: ["b1"]},
                                           "transformations": [{"type": "value_placeholders"}]})
        p2 = ProcessingPipeline.from_dict({"name": "p2", "priority": 2, "vars": {names[1]: ["b2", "b3"], names[2]: ["c1", "c2"]},
                                           "transformations": []})
        doc = {"title": "t", "logsource": {"category": "c"},
               "detection": {"sel": {"f|expand": ["%" + n + "%" for n in names]}, "condition": "sel"}}
        return list(TextQueryTestBackend(p1 + p2).convert(SigmaCollection.from_dicts([doc])))
    if k == "custom":
        from sigma.rule import SigmaRule
        from sigma.validators.core.metadata import CustomAttributesValidator

        attrs = ["realted", "reference", "ticket no", "owner", "zz_team"]  # the first two are known misspellings
        doc = {"title": "t"}
        doc.update({attrs[n - 1]: f"v{n}" for n in case["names"]})
        doc.update({"logsource": {"category": "c"}, "detection": {"sel": {"f": "v"}, "condition": "sel"}})
        pipe = ProcessingPipeline.from_dict({"name": "p", "priority": 1, "postprocessing": [
            {"type": "simple_template", "template": "{query} | meta {rule.custom_attributes}"}]})
        rule = SigmaRule.from_dict(doc)
        issues = [type(i).__name__ + ":" + str(getattr(i, "fieldname", "")) for i in CustomAttributesValidator().validate(rule)]
        return list(TextQueryTestBackend(pipe).convert_rule(rule)) + [str(list(rule.to_dict().keys()))] + issues
    raise UnknownKind(k)


def run_errors(k, case, names):
    """Error records (kind, text) of scenarios whose messages are built from sets or next to random names."""
    from sigma.backends.test import TextQueryTestBackend
    from sigma.collection import SigmaCollection
    from sigma.exceptions import SigmaError
    from sigma.processing.pipeline import ProcessingPipeline

    def text(e):
        return type(e).__name__ + ": " + str(e)

    rule = {"title": "t", "logsource": {"category": "c"}, "detection": {"sel": {"f": "abc"}, "flt": {"g": 1}, "condition": "sel and not flt"}}
    if k in ("badcond", "filtermissing"):
        docs = [dict(rule)]
        pipe = None
        if k == "badcond":
            docs[0] = dict(rule, detection=dict(rule["detection"], condition="sel and not (flt"))
            if 1 in case["mapped"]:
                docs.append({"title": "f", "logsource": {"category": "c"}, "filter": {"rules": "any", "selection": {"h": 2}, "condition": "not selection"}})
            if 2 in case["mapped"]:
                pipe = ProcessingPipeline.from_dict({"name": "p", "priority": 1, "transformations": [{"type": "add_condition", "conditions": {"idx": "main"}}]})
        else:
            docs.append({"title": "f", "logsource": {"category": "c"}, "filter": {"rules": "any", "selection": {"h": 2}, "condition": "selection and missing"}})
        b = TextQueryTestBackend(pipe, collect_errors=True)
        out = list(b.convert(SigmaCollection.from_dicts(docs)))
        return out + [text(e) for _, e in b.errors]
    if k == "convnum":
        pipe = ProcessingPipeline.from_dict({"name": "p", "priority": 1, "transformations": [
            {"id": names[0], "type": "field_name_suffix", "suffix": "_a"},
            {"id": names[1], "type": "field_name_suffix", "suffix": "_b"},
            {"id": names[2], "type": "add_condition", "conditions": {"idx": "main"}},
            {"type": "convert_type", "target_type": "num"}]})
        b = TextQueryTestBackend(pipe, collect_errors=True)
        out = list(b.convert(SigmaCollection.from_dicts([rule])))
        return out + [text(e) for _, e in b.errors]
    if k == "validatorset":
        from sigma.validation import SigmaValidator
        from sigma.validators.core import validators as VALIDATORS

        vnames = sorted(VALIDATORS)[: len(FIELD_NAMES)]
        try:
            SigmaValidator.from_dict({"validators": [vnames[n - 1] for n in case["names"]] + ["-no_such_validator"]}, VALIDATORS)
            return ["no error"]
        except SigmaError as e:
            return [text(e)]
    if k == "unrefcond":
        try:
            ProcessingPipeline.from_dict({"name": "p", "priority": 1, "transformations": [
                {"type": "field_name_suffix", "suffix": "_a",
                 "rule_conditions": {"c_" + n.replace(".", "_"): {"type": "logsource", "category": n} for n in names},
                 "rule_cond_expr": "c_" + names[0].replace(".", "_")}]})
            return ["no error"]
        except SigmaError as e:
            return [text(e)]
    idn = [n.replace(".", "_") for n in names]
    if k == "appliedids":
        pipe = ProcessingPipeline.from_dict({"name": "p", "priority": 1, "transformations": [
            {"type": "field_name_suffix", "suffix": "_" + idn[0]}, {"type": "field_name_prefix", "prefix": idn[1] + "_"},
            {"type": "add_condition", "conditions": {"idx": idn[2]}}],
            "postprocessing": [{"type": "template", "template": "{{ query }} | applied {{ pipeline.applied_ids | sort | join(',') }}"}]})
        return list(TextQueryTestBackend(pipe).convert(SigmaCollection.from_dicts([rule])))
    if k == "converr":
        pipe = ProcessingPipeline.from_dict({"name": "p", "priority": 1, "transformations": [
            {"id": idn[0], "type": "field_name_suffix", "suffix": "_a"}, {"id": idn[1], "type": "field_name_suffix", "suffix": "_b"},
            {"id": idn[2], "type": "field_name_suffix", "suffix": "_c"}]})
        corr = {"title": "c", "correlation": {"type": "value_percentile", "rules": ["r"], "group-by": ["g"], "timespan": "5m",
                                              "condition": {"gte": 2, "field": "f"}}}
        b = TextQueryTestBackend(pipe, collect_errors=True)
        out = list(b.convert(SigmaCollection.from_dicts([dict(rule, name="r"), corr])))
        return out + [text(e) for _, e in b.errors]
    if k == "reflagerr":
        from sigma.rule import SigmaRule

        try:
            SigmaRule.from_dict(dict(rule, detection={"sel": {"f|re|i|m|s|base64": "foo"}, "condition": "sel"}))
            return ["no error"]
        except SigmaError as e:
            return [text(e)]
    if k == "dangling3":
        from sigma.rule import SigmaRule
        from sigma.validators.core.condition import DanglingConditionValidator

        r = SigmaRule.from_dict(dict(rule, detection={"sel": {"f": 1}, "condition": "sel and 1 of %s* and 1 of %s* and 1 of %s*" % tuple(idn)}))
        v = DanglingConditionValidator()
        return [type(i).__name__ + ":" + str(getattr(i, "condition_name", "")) for i in list(v.validate(r)) + list(v.finalize())]
    if k == "attrerr":
        pipe = ProcessingPipeline.from_dict({"name": "p", "priority": 1, "transformations": [
            {"id": idn[0], "type": "add_condition", "conditions": {"idx": "main"}},
            {"id": idn[1], "type": "field_name_suffix", "suffix": "_b"},
            {"id": idn[2], "type": "field_name_suffix", "suffix": "_c",
             "rule_conditions": [{"type": "rule_attribute", "attribute": "date", "value": "notadate", "op": "gte"}]}]})
        b = TextQueryTestBackend(pipe, collect_errors=True)
        out = list(b.convert(SigmaCollection.from_dicts([dict(rule, date="2024-01-01")])))
        return out + [text(e) for _, e in b.errors]
    if k == "unknownvals":
        from sigma.validation import SigmaValidator

        try:
            SigmaValidator.from_dict({"validators": ["no_" + n for n in idn]}, {})
            return ["no error"]
        except SigmaError as e:
            return [text(e)]
    if k == "tracking":
        from sigma.processing.tracking import FieldMappingTracking

        t = FieldMappingTracking()
        for n in idn:
            t.add_mapping(n, "x")
        t.add_mapping("x", "y")
        t.add_mapping("y", "z")
        return [n + "->" + ",".join(sorted(t[n])) for n in sorted(idn)]
    if k in ("plainerr", "tmplerr"):  # messages that print a rule / a detection item the named items were applied to
        pipe = {"name": "p", "priority": 1, "transformations": [
            {"id": idn[0], "type": "field_name_suffix", "suffix": "_a"}, {"id": idn[1], "type": "field_name_suffix", "suffix": "_b"},
            {"id": idn[2], "type": "replace_string", "regex": "abc", "replacement": "abd"}]}
        if k == "tmplerr":
            # (with an added condition: the rule then carries a detection of a randomly drawn name)
            pipe["transformations"].append({"type": "add_condition", "conditions": {"idx": "main"}})
            pipe["postprocessing"] = [{"type": "template", "template": "{{ query }} /* {{ rule.to_dict() }} */"}]
            b = TextQueryTestBackend(ProcessingPipeline.from_dict(pipe), collect_errors=True)
            out = list(b.convert(SigmaCollection.from_dicts([rule])))
            return out + [text(e) for _, e in b.errors]
        from sigma.rule import SigmaRule

        r = SigmaRule.from_dict(dict(rule, detection={"sel": {"f|contains": "abc"}, "condition": "sel"}))
        ProcessingPipeline.from_dict(pipe).apply(r)
        try:
            r.to_dict()
            return ["no error"]
        except SigmaError as e:
            return [text(e)]
    if k == "funcid":  # the generated identifier of an item whose transformation holds a FUNCTION (built in Python, not loaded)
        from sigma.processing.pipeline import ProcessingItem
        from sigma.processing.transformations import FieldFunctionTransformation

        items = [ProcessingItem(FieldFunctionTransformation(mapping={n: "m_" + n}, transform_func=lambda f: f.upper())) for n in idn]
        pipe = ProcessingPipeline(items=items, postprocessing_items=[])
        b = TextQueryTestBackend(pipe)
        out = list(b.convert(SigmaCollection.from_dicts([rule])))
        return out + [",".join(i.identifier for i in items), ",".join(sorted(pipe.applied_ids))]
    if k == "dupfields":  # a field list and a group-by list in which two names are mapped to the same name
        pipe = ProcessingPipeline.from_dict({"name": "p", "priority": 1, "transformations": [
            {"type": "field_name_mapping", "mapping": {idn[0]: "same", idn[1]: "same", idn[2]: ["m1_" + idn[2], "m2_" + idn[2]]}}],
            "postprocessing": [{"type": "template", "template": "{{ query }} | table {{ rule.fields | join(',') }}"}]})
        base = dict(rule, name="base", fields=list(idn) + ["User", "Computer", "LogonId"])
        corr = {"title": "c", "correlation": {"type": "event_count", "generate": True, "rules": ["base"], "group-by": list(idn) + ["User", "Computer", "LogonId"],
                                              "timespan": "5m", "condition": {"gte": 3}}}
        b = TextQueryTestBackend(pipe, collect_errors=True)
        out = list(b.convert(SigmaCollection.from_dicts([base, corr])))
        return out + [text(e) for _, e in b.errors]
    if k == "underq":
        pipe = ProcessingPipeline.from_dict({"name": "p", "priority": 1, "transformations": [{"type": "add_condition", "conditions": {"idx": "main"}}]})
        det = {"_q1": {"f": "foo"}, "_q2": {"g": "bar"}, "condition": "1 of _*q*"}
        return list(TextQueryTestBackend(pipe).convert(SigmaCollection.from_dicts([dict(rule, detection=det)])))
    raise UnknownKind(k)


# a generated name: the fixed stem and the drawn part (whatever alphabet it is drawn from); "rule_cond_op" is none
GENERATED = re.compile(r"_(?:cond|filt)_[A-Za-z0-9]{6,}")


def main():
    corpus, out, rseed = sys.argv[1], sys.argv[2], int(sys.argv[3])
    random.seed(rseed)
    with open(corpus) as f:
        data = json.load(f)
    res = []
    for kind, case in data:
        lines = run_case(kind, case)
        text = "\n".join(lines)
        res.append({"kind": kind, "id": case.get("id", 0), "sha": hashlib.sha256(text.encode("utf-8", "surrogatepass")).hexdigest()[:16],
                    "internal": GENERATED.search(text) is not None, "text": text[:400]})
    with open(out, "w") as f:
        json.dump(res, f)


if __name__ == "__main__":
    main()
