"""A modifier of the user's own (as a plugin would bring it): derived from the built-in contains modifier and
accepting one more type - numbers - than its parent.  Imported only once the library is importable."""
from sigma import modifiers as M
from sigma.types import SigmaFieldReference, SigmaNumber, SigmaRegularExpression, SigmaString


class SigmaContainsNumModifier(M.SigmaContainsModifier):
    def modify(self, val: SigmaString | SigmaNumber | SigmaRegularExpression | SigmaFieldReference):  # type: ignore[override]
        if isinstance(val, SigmaNumber):
            val = SigmaString(str(val))
        return super().modify(val)


def register():
    if "containsnum" not in M.modifier_mapping:
        M.modifier_mapping["containsnum"] = SigmaContainsNumModifier
        M.reverse_modifier_mapping[SigmaContainsNumModifier.__name__] = "containsnum"
