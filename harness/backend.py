"""The /verif backend family: TextQueryBackend subclasses built from a configuration record K.

Only class DATA is set here - templates, tokens, flags. No conversion method is overridden
(with one exception, option `defer`, see below), so everything under test stays in
sigma/conversion/base.py. The surface syntax is chosen so
that the emitted text can be read back unambiguously by spec/QueryLang.tla:

  field        `name`            (always quoted with backticks, backslash escapes ` and \\)
  atom         `f`:op:VALUE      op in eq neq sw nsw ew new ct nct wm  ceq csw ncsw cew ncew cct ncct
               `f`:re:/regex/ims   `f`:nre:/regex/ims   `f`:cidr:"net"  `f`:ncidr:"net"
               `f`:null:   `f`:exists:   `f`:nexists:   `f`:lt:5 (lte gt gte)   `f`.minute:eq:5
               `f`:fref:`g` (frefsw frefew frefct)   `f`:in:["a", "b"]   `f`:allof:[...]
               KW:eq:"value"   KW:re:/regex/
  boolean      AND OR NOT ( )    separated by one or two spaces
  deferred     MAIN | PART | PART   (MAIN may be "*"; PART = atom or "DNOT " atom; all of them must hold)
  strings      "..." with backslash escaping of " and \\ ; wildcards * and ?
"""
from __future__ import annotations

import re
from typing import Any

_CACHE: dict[str, type] = {}
_N = [0]


def backend_class(K: dict) -> type:
    """Create (and cache by content) a TextQueryBackend subclass for configuration K."""
    import json

    key = json.dumps(K, sort_keys=True)
    if key in _CACHE:
        return _CACHE[key]
    from sigma.conversion.base import TextQueryBackend
    from sigma.conditions import ConditionAND, ConditionNOT, ConditionOR
    from sigma.processing.pipeline import ProcessingPipeline
    from sigma.types import CompareOperators, SigmaRegularExpressionFlag, TimestampPart

    cls_of = {"not": ConditionNOT, "and": ConditionAND, "or": ConditionOR}
    sep = " " * int(K.get("sep", 1))
    a: dict[str, Any] = dict(
        name="verif backend",
        formats={"default": "plain queries"},
        requires_pipeline=False,
        backend_processing_pipeline=ProcessingPipeline(),
        precedence=tuple(cls_of[x] for x in K["prec"]),
        parenthesize=bool(K.get("paren", False)),
        group_expression="({expr})",
        token_separator=sep,
        or_token="OR",
        and_token="AND",
        not_token="NOT",
        eq_token=":eq:",
        eq_expression="{field}:eq:{value}",
        field_quote="`",
        field_quote_pattern=None,
        field_escape="\\",
        field_escape_quote=True,
        field_escape_pattern=re.compile("\\\\"),
        str_quote='"',
        str_quote_pattern=None,
        escape_char="\\",
        wildcard_multi="*",
        wildcard_single="?",
        add_escaped="\\",
        filter_chars="",
        bool_values={True: "true", False: "false"},
        # (K.reverb: a target that takes regular expressions verbatim - nothing to escape, delimiters that no expression contains)
        re_expression="{field}:re:\u00a6{regex}\u00a6{flag_i}{flag_m}{flag_s}" if K.get("reverb") else "{field}:re:/{regex}/{flag_i}{flag_m}{flag_s}",
        re_escape_char="\\",
        re_escape=[] if K.get("reverb") else ["/"],
        re_escape_escape_char=not K.get("reverb"),
        re_flag_prefix=False,
        re_flags={
            SigmaRegularExpressionFlag.IGNORECASE: "i",
            SigmaRegularExpressionFlag.MULTILINE: "m",
            SigmaRegularExpressionFlag.DOTALL: "s",
        },
        compare_op_expression="{field}{operator}{value}",
        compare_operators={
            CompareOperators.LT: ":lt:",
            CompareOperators.LTE: ":lte:",
            CompareOperators.GT: ":gt:",
            CompareOperators.GTE: ":gte:",
            CompareOperators.NEQ: ":cmpneq:",
        },
        field_equals_field_expression="{field1}:fref:{field2}",
        field_equals_field_startswith_expression="{field1}:frefsw:{field2}",
        field_equals_field_endswith_expression="{field1}:frefew:{field2}",
        field_equals_field_contains_expression="{field1}:frefct:{field2}",
        # (K.ts = FALSE: a target language that cannot address the parts of a timestamp)
        field_timestamp_part_expression="{field}.{timestamp_part}" if K.get("ts", True) else None,
        timestamp_part_mapping={p: p.name.lower() for p in TimestampPart} if K.get("ts", True) else None,
        field_null_expression="{field}:null:",
        field_exists_expression="{field}:exists:",
        field_not_exists_expression="{field}:nexists:" if K.get("nexists", True) else None,
        convert_or_as_in=bool(K.get("orin", False)),
        convert_and_as_in=bool(K.get("andin", False)),
        in_expressions_allow_wildcards=bool(K.get("inwild", False)),
        field_in_list_expression="{field}:{op}:[{list}]",
        or_in_operator="in",
        and_in_operator="allof",
        list_separator=", ",
        unbound_value_str_expression="KW:eq:{value}",
        unbound_value_num_expression="KW:eq:{value}",
        unbound_value_re_expression="KW:re:\u00a6{value}\u00a6{flag_i}{flag_m}{flag_s}" if K.get("reverb") else "KW:re:/{value}/{flag_i}{flag_m}{flag_s}",
        deferred_start=" | ",
        deferred_separator=" | ",
        deferred_only_query="*",
    )
    special = bool(K.get("allowspecial", False))
    if K.get("sw", False):
        a.update(startswith_expression="{field}:sw:{value}", startswith_expression_allow_special=special)
    if K.get("ew", False):
        a.update(endswith_expression="{field}:ew:{value}", endswith_expression_allow_special=special)
    if K.get("ct", False):
        a.update(contains_expression="{field}:ct:{value}", contains_expression_allow_special=special)
    if K.get("wm", False):
        a.update(wildcard_match_expression="{field}:wm:{value}")
    cs = K.get("cs", "none")
    if cs in ("match", "full"):
        a.update(case_sensitive_match_expression="{field}:ceq:{value}")
    if cs == "full":
        a.update(
            case_sensitive_startswith_expression="{field}:csw:{value}",
            case_sensitive_endswith_expression="{field}:cew:{value}",
            case_sensitive_contains_expression="{field}:cct:{value}",
            case_sensitive_startswith_expression_allow_special=special,
            case_sensitive_endswith_expression_allow_special=special,
            case_sensitive_contains_expression_allow_special=special,
        )
    if K.get("cidr", False):
        a.update(cidr_expression='<<{field}>>:cidr:"{value}"')
    if K.get("noteq", False):
        a.update(
            convert_not_as_not_eq=True,
            not_eq_token=":neq:",
            not_eq_expression="{field}:neq:{value}",
            not_re_expression="{field}:nre:/{regex}/{flag_i}{flag_m}{flag_s}",
            not_startswith_expression="{field}:nsw:{value}" if K.get("sw") else None,
            not_endswith_expression="{field}:new:{value}" if K.get("ew") else None,
            not_contains_expression="{field}:nct:{value}" if K.get("ct") else None,
            not_cidr_expression='<<{field}>>:ncidr:"{value}"' if K.get("cidr") else None,
            case_sensitive_not_startswith_expression="{field}:ncsw:{value}" if cs == "full" else None,
            case_sensitive_not_endswith_expression="{field}:ncew:{value}" if cs == "full" else None,
            case_sensitive_not_contains_expression="{field}:ncct:{value}" if cs == "full" else None,
        )
    if K.get("defer", False):
        # Regular expression matches on fields are DEFERRED query parts, as backends do whose target language
        # filters by regular expression in a later stage ("query | regex ..."). This is the one place where the
        # family overrides a conversion method - in the way such backends (and the repository's own deferred test
        # backend) do: the parent's conversion wrapped into a DeferredTextQueryExpression. A deferred part reads
        # "`f`:re:/x/" or, negated, "DNOT `f`:re:/x/"; the parts follow the main query after " | ".
        from sigma.conversion.deferred import DeferredTextQueryExpression

        class DeferredRe(DeferredTextQueryExpression):
            template = "{op}{value}"
            operators = {True: "DNOT ", False: ""}
            default_field = None

        def convert_condition_field_eq_val_re(self, cond, state):
            return DeferredRe(state, cond.field, TextQueryBackend.convert_condition_field_eq_val_re(self, cond, state))

        a["convert_condition_field_eq_val_re"] = convert_condition_field_eq_val_re
    # correlation templates (delimiter-structured, read back by spec/CorrLang in Judge_C10)
    a.update(K.get("_extra", {}))
    _N[0] += 1
    cls = type(f"VerifBackend{_N[0]}", (TextQueryBackend,), a)
    _CACHE[key] = cls
    return cls


def make_backend(K: dict, pipeline=None, collect_errors: bool = False):
    return backend_class(K)(processing_pipeline=pipeline, collect_errors=collect_errors)
