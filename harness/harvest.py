"""Run the repository's own test suite once with harness/harvest_plugin.py and hand the recorded
calls to the checks (an additional corpus: the inputs the maintainers wrote their tests around,
and - for from_mapping and CIDR expansion - the results observed inside those tests)."""
from __future__ import annotations

import base64
import json
import os
import pickle
import subprocess
import tempfile

from .common import VERIF, REPO
from . import tlc


def harvest(kinds: set[str], timeout: int = 900) -> dict[str, list[dict]]:
    fd, path = tempfile.mkstemp(prefix="verif_harvest_", suffix=".ndjson")
    os.close(fd)
    env = dict(os.environ, PYTHONPATH=VERIF + os.pathsep + REPO, VERIF_HARVEST_OUT=path, PYTHONHASHSEED="0")
    env.pop("PYSIGMA_VERIF", None)
    try:
        p = subprocess.run(
            ["/venv/bin/python", "-m", "pytest", "-q", "-p", "no:cacheprovider", "-p", "harness.harvest_plugin", "--timeout=900",
             "--deselect", "tests/test_plugins.py", "-k", "not online"],
            cwd=REPO, env=env, capture_output=True, text=True, timeout=timeout,
        )
        out = {k: [] for k in kinds}
        with open(path) as f:
            for line in f:
                r = json.loads(line)
                if r["kind"] in out:
                    if r["kind"] == "doc":
                        try:
                            r["doc"] = pickle.loads(base64.b64decode(r.pop("blob")))
                        except Exception:  # noqa: BLE001
                            continue
                    out[r["kind"]].append(r)
        if not any(out.values()):
            raise tlc.MachineryError("harvest: the test run recorded nothing:\n" + (p.stdout + p.stderr)[-1500:])
        return out
    finally:
        os.unlink(path)
