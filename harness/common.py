"""Shared plumbing of the checks: scratch space, case/observation files, sharded TLC
generation and judging, known findings, evidence files, VIOLATION lines.

No pySigma semantics live here (nor in the drivers): the meaning of every case is
decided by the TLA+ judges under /verif/spec.
"""
from __future__ import annotations

import json
import multiprocessing as mp
import os
import shutil
import sys
import tempfile
import copy
import time
import traceback

from . import tlc

VERIF = tlc.VERIF
# both can be redirected (tools/seeded.py runs the checks against changed trees and must not
# overwrite the evidence of the real tree)
EVIDENCE = os.environ.get("VERIF_EVIDENCE_DIR") or os.path.join(VERIF, "evidence")
REPLAY = os.environ.get("VERIF_REPLAY_DIR") or os.path.join(VERIF, "replay")
REPO = os.environ.get("VERIF_REPO", "/repo")
NPROC = min(16, os.cpu_count() or 4)


def _drop(path: str):
    if not os.environ.get("VERIF_KEEP"):
        os.unlink(path)


def cps(s: str) -> list[int]:
    return [ord(c) for c in s]


def uncps(a) -> str:
    return "".join(chr(c) for c in a)


def read_ndjson(path):
    with open(path) as f:
        return [json.loads(line) for line in f if line.strip()]


def write_ndjson(path, recs):
    with open(path, "w") as f:
        for r in recs:
            f.write(json.dumps(r, separators=(",", ":")) + "\n")


def load_known_findings():
    with open(os.path.join(VERIF, "known_findings.json")) as f:
        return json.load(f)["entries"]


class Check:
    """One run of one property check."""

    def __init__(self, pid: str, tier: str, seed: int, level: str, fresh: bool = True):
        self.pid = pid
        self.tier = tier
        self.seed = seed
        self.level = level
        self.t0 = time.time()
        self.scratch = tempfile.mkdtemp(prefix=f"verif_{pid}_")
        if fresh and os.path.isdir(REPLAY):  # replay files of earlier runs of this property are out of date now
            for f in os.listdir(REPLAY):
                if f.startswith(pid + "_"):
                    os.unlink(os.path.join(REPLAY, f))
        self.violations: list[dict] = []
        self.known_hits: dict[str, int] = {}
        self.coverage: dict = {}
        self.assumptions: list[str] = []
        self.notes: list[str] = []
        self.states = 0
        self.transitions = 0
        self.known = {
            e["deviation"]: e
            for e in load_known_findings()
            if e.get("status") == "known" and e.get("property") == pid
        }

    # ---- files -----------------------------------------------------------------
    def path(self, name: str) -> str:
        return os.path.join(self.scratch, name)

    def cleanup(self):
        if os.environ.get("VERIF_KEEP"):  # debugging aid: keep case / observation / verdict files
            print(f"[{self.pid}] scratch kept: {self.scratch}")
            return
        shutil.rmtree(self.scratch, ignore_errors=True)

    # ---- TLC -------------------------------------------------------------------
    def model_check(self, module: str, cfg: str | None = None, workers=NPROC, need_actions=(), **kw):
        """Mode A: model-check a spec; counts are added to the evidence. A violated
        invariant of the *design* is reported as a machinery failure unless the caller
        handles it (check_ok=False)."""
        r = tlc.run_tlc(module, cfg, workers=workers, coverage=bool(need_actions), **kw)
        self.states += r.states
        self.transitions += r.transitions
        self.coverage.setdefault("model_runs", []).append(
            {
                "module": module,
                "cfg": cfg or module + ".cfg",
                "states": r.states,
                "transitions": r.transitions,
                "wall_s": round(r.wall_s, 1),
            }
        )
        if r.invariant_violated:
            raise tlc.MachineryError(
                f"design-level invariant {r.invariant_violated} violated in {module}:\n{r.out[-3000:]}"
            )
        for a in need_actions:
            hit = [v for k, v in r.coverage.items() if k.endswith("!" + a)]
            if not hit or all(h["total"] == 0 for h in hit):
                raise tlc.MachineryError(f"vacuous model run: action {a} of {module} never taken")
        return r

    def generate(self, module: str, shards: list | None = None, env: dict | None = None, timeout=3600) -> list[dict]:
        """Mode B: run a TLC generator (one process per shard), return the cases."""
        shards = shards or [0]
        jobs = []
        outs = []
        for s in shards:
            out = self.path(f"cases_{module}_{s}.ndjson")
            outs.append(out)
            e = {"VERIF_TIER": self.tier, "VERIF_OUT": out, "VERIF_SHARD": s, "VERIF_SEED": self.seed}
            e.update(env or {})
            jobs.append(dict(module=module, cfg="Gen.cfg", env=e, seed=self.seed + 1, timeout=timeout, heap="4g"))
        tlc.run_many(jobs, parallel=NPROC)
        cases = []
        for o in outs:
            cases += read_ndjson(o)
            _drop(o)
        return cases

    def judge(self, module: str, obs: list[dict], nshards: int = NPROC, env: dict | None = None, timeout=3600) -> list[dict]:
        """Mode C: let TLC judge observation records; returns one verdict per record."""
        if not obs:
            return []
        nshards = max(1, min(nshards, (len(obs) + 49) // 50))
        jobs = []
        outs = []
        for s in range(nshards):
            part = obs[s::nshards]
            inp = self.path(f"obs_{module}_{s}.ndjson")
            out = self.path(f"verdict_{module}_{s}.ndjson")
            write_ndjson(inp, part)
            outs.append((inp, out, len(part)))
            e = {"VERIF_OBS": inp, "VERIF_OUT": out, "VERIF_TIER": self.tier}
            e.update(env or {})
            jobs.append(dict(module=module, cfg=(module + ".cfg" if os.path.exists(os.path.join(tlc.SPEC, module + ".cfg")) else "Gen.cfg"), env=e, timeout=timeout, heap="3g"))
        tlc.run_many(jobs, parallel=NPROC)
        verdicts = []
        for inp, out, n in outs:
            v = read_ndjson(out)
            if len(v) != n:
                raise tlc.MachineryError(f"judge {module}: {len(v)} verdicts for {n} observations")
            verdicts += v
            _drop(inp)
            _drop(out)
        return verdicts

    def binding_selftest(self, module: str, obs: list[dict], verdicts: list[dict], corrupt, n: int = 4, env: dict | None = None):
        """Binding self-test: take observations the judge accepted, corrupt ONE recorded field of each
        (corrupt(o) returns the corrupted copy or None if it does not apply) and let the judge decide
        again: every corrupted observation must be rejected, otherwise the judge is not looking at what
        the code did and nothing it says can be believed (machinery failure, exit 2)."""
        okids = {v["id"] for v in verdicts if v["v"] == "ok"}
        picked = []
        step = max(1, len(obs) // 200)
        for o in obs[::step] + obs:
            if o["id"] in okids and all(o["id"] != p["id"] for p in picked):
                c = corrupt(copy.deepcopy(o))
                if c is not None:
                    picked.append(c)
                    if len(picked) >= n:
                        break
        if not picked:
            if any(v["v"].startswith("violation") for v in verdicts):
                # nothing was accepted because the judge rejected the observations: the violations are what this run
                # has to report (the self-test needs an accepted observation to start from)
                self.coverage.setdefault("binding_selftest", []).append({"judge": module, "skipped": "no accepted observation - every one was rejected"})
                return
            raise tlc.MachineryError(f"binding self-test of {module}: no accepted observation could be corrupted")
        vs = self.judge(module, picked, nshards=1, env=env)
        missed = [v["id"] for v in vs if v["v"] in ("ok", "unspec")]
        if missed:
            # reported at the end of the run: violations found in the meantime are printed first
            self.selftest_failed = f"binding self-test of {module}: corrupted observations {missed} were accepted"
            return
        self.coverage.setdefault("binding_selftest", []).append({"judge": module, "corrupted_observations": len(picked), "rejected": len(picked),
                                                                 "verdicts": sorted({v["v"] for v in vs})})

    # ---- verdict handling ------------------------------------------------------
    def absorb(self, verdicts: list[dict], by_id: dict, raw: dict | None = None):
        """Total verdicts: ok | unspec | dev:<Dev_id> | violation:<clause>."""
        counts: dict[str, int] = {}
        for v in verdicts:
            tag = v["v"]
            counts[tag] = counts.get(tag, 0) + 1
            if tag in ("ok", "unspec"):
                continue
            rec = by_id.get(v["id"])
            if tag.startswith("dev:"):
                dev = tag[4:]
                if dev in self.known:
                    self.known_hits[dev] = self.known_hits.get(dev, 0) + 1
                    self.known[dev].setdefault("_example", {"verdict": v, "record": rec})
                    continue
                tag = "violation:unlisted-deviation:" + dev
            self.violations.append(
                {"verdict": v, "record": rec, "clause": tag.split(":", 1)[-1], "case": (raw or {}).get(v["id"])}
            )
        for k, n in counts.items():
            self.coverage.setdefault("verdicts", {})
            self.coverage["verdicts"][k] = self.coverage["verdicts"].get(k, 0) + n
        return counts

    def violation(self, clause: str, record):
        self.violations.append({"verdict": {"v": "violation:" + clause}, "record": record, "clause": clause})

    # ---- finishing -------------------------------------------------------------
    def finish(self, evaluations: int, distinct_nontrivial: int, rule: str, samples: list, traces: int = 0, exhaustive: bool = False, extra: dict | None = None) -> int:
        os.makedirs(EVIDENCE, exist_ok=True)
        cov = dict(self.coverage)
        cov.update(
            {
                "evaluations": int(evaluations),
                "distinct_nontrivial": int(distinct_nontrivial),
                "rule": rule,
                "samples": samples[:5] if samples else ["(none)"],
                "traces_validated_against_impl": int(traces),
                "exhaustive": bool(exhaustive),
                "known_findings_hit": dict(self.known_hits),
            }
        )
        if self.level == "model_checking":
            cov["states"] = int(self.states)
            cov["transitions"] = int(self.transitions)
        if extra:
            cov.update(extra)
        ev = {
            "property_id": self.pid,
            "tier": self.tier,
            "seed": self.seed,
            "level": self.level,
            "coverage": cov,
            "assumptions": self.assumptions,
            "wall_s": round(time.time() - self.t0, 2),
            "violations": len(self.violations),
        }
        with open(os.path.join(EVIDENCE, f"{self.pid}.json"), "w") as f:
            json.dump(ev, f, indent=1, default=str)
        for dev, n in sorted(self.known_hits.items()):
            print(f"KNOWN-FINDING: property={self.pid} {self.known[dev]['what']} [{dev}: {n} case(s)]")
        rc = 0
        if self.violations:
            os.makedirs(REPLAY, exist_ok=True)
            # one replay file per distinct failing clause (first 20 cases each)
            by_clause: dict[str, list] = {}
            for v in self.violations:
                by_clause.setdefault(v["clause"], []).append(v)
            for clause, vs in sorted(by_clause.items()):
                safe = "".join(c if c.isalnum() or c in "-_" else "_" for c in clause)[:60]
                p = os.path.join(REPLAY, f"{self.pid}_{safe}.json")
                with open(p, "w") as f:
                    json.dump({"property": self.pid, "clause": clause, "count": len(vs), "cases": vs[:20]}, f, indent=1, default=str)
                print(f"VIOLATION property={self.pid} replay={p}")
                print(f"  clause={clause} cases={len(vs)} first={json.dumps(vs[0], default=str)[:600]}")
            rc = 1
        print(
            f"[{self.pid}] tier={self.tier} seed={self.seed} evaluations={evaluations} "
            f"nontrivial={distinct_nontrivial} states={self.states} violations={len(self.violations)} "
            f"known={sum(self.known_hits.values())} wall={ev['wall_s']}s"
        )
        self.cleanup()
        if getattr(self, "selftest_failed", None):
            if rc == 0:
                raise tlc.MachineryError(self.selftest_failed)
            print(f"[{self.pid}] note: {self.selftest_failed}")
        return rc


# ---- parallel driving of the real code -----------------------------------------
def _run_chunk(args):
    modname, fn, chunk = args
    import importlib

    mod = importlib.import_module(modname)
    f = getattr(mod, fn)
    out = []
    for c in chunk:
        try:
            out.append(f(c))
        except BaseException as e:  # a driver bug, not a property violation
            out.append({"id": c.get("id"), "driver_error": "".join(traceback.format_exception_only(type(e), e))})
    return out


def drive(modname: str, fn: str, cases: list[dict], procs: int = NPROC, chunk: int = 200) -> list[dict]:
    """Run driver function modname.fn over all cases in worker processes (spawned, so
    that no state of this process leaks into pySigma)."""
    if not cases:
        return []
    chunks = [(modname, fn, cases[i : i + chunk]) for i in range(0, len(cases), chunk)]
    ctx = mp.get_context("spawn")
    with ctx.Pool(min(procs, len(chunks))) as pool:
        res = pool.map(_run_chunk, chunks)
    obs = [o for r in res for o in r]
    bad = [o for o in obs if "driver_error" in o]
    if bad:
        raise tlc.MachineryError(f"driver {modname}.{fn} failed on {len(bad)} cases, first: {bad[0]}")
    return obs


def replay(pid: str, path: str, modname: str, judge_module: str, prepare=None) -> int:
    """Re-run exactly the cases stored in a replay file: drive the real code again and let
    TLC judge again. Exit 1 (with VIOLATION lines) if any of them still fails."""
    with open(path) as f:
        rp = json.load(f)
    cases = [c["case"] for c in rp["cases"] if c.get("case")]
    if not cases:
        print(f"replay file {path} holds no re-runnable cases")
        return 2
    chk = Check(pid, "quick", 0, "exploration", fresh=False)
    if prepare:
        prepare(chk, cases)
    cases = list({c["id"]: c for c in cases}.values())
    obs = drive(modname, "drive_case", cases)
    obs = [x for o in obs for x in (o["both"] if "both" in o else [o])]  # a case may yield several observations
    verdicts = chk.judge(judge_module, obs)
    bad = 0
    for v in verdicts:
        print(json.dumps(v))
        if v["v"].startswith("violation") or (v["v"].startswith("dev:") and v["v"][4:] not in chk.known):
            bad += 1
    if bad:
        print(f"VIOLATION property={pid} replay={path}")
    chk.cleanup()
    return 1 if bad else 0
