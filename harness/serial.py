"""Serialisation of public pySigma objects into plain JSON for the TLA+ judges.

Uniform record shape for values (TLC compares records field-wise, so every value record
has the same keys):  t     type tag
                     parts code points / STAR=-1 / QM=-2 / placeholder=-3 (+ phs names)
                     num   [numerator, denominator]   (TLC has integers only)
                     b     boolean payload
                     s     auxiliary text (code points)
                     vals  nested values (expansion)
                     flags sorted flag letters
"""
from __future__ import annotations

from fractions import Fraction


def cps(s: str) -> list[int]:
    return [ord(c) for c in s]


def parts_of(s) -> tuple[list[int], list[list[int]]]:
    from sigma.types import SpecialChars, Placeholder

    out, phs = [], []
    for p in s.s:
        if isinstance(p, str):
            out += [ord(c) for c in p]
        elif p == SpecialChars.WILDCARD_MULTI:
            out.append(-1)
        elif p == SpecialChars.WILDCARD_SINGLE:
            out.append(-2)
        elif isinstance(p, Placeholder):
            out.append(-3)
            phs.append(cps(p.name))
        else:
            out.append(-4)
    return out, phs


def _v(t, parts=(), num=(0, 1), b=False, s=(), vals=(), flags=(), phs=()):
    return {"t": t, "parts": list(parts), "num": list(num), "b": bool(b), "s": list(s), "vals": list(vals), "flags": list(flags), "phs": list(phs)}


def num_of(x) -> list[int]:
    f = Fraction(x).limit_denominator(10**6) if isinstance(x, float) else Fraction(x)
    n, d = f.numerator, f.denominator
    if abs(n) >= 2**31 or d >= 2**31:
        return [2**31 - 1, 1]
    return [n, d]


def dump_value(v) -> dict:
    from sigma import types as T

    if isinstance(v, T.SigmaCasedString):
        p, phs = parts_of(v)
        return _v("cased", parts=p, phs=phs)
    if isinstance(v, T.SigmaString):
        p, phs = parts_of(v)
        return _v("str", parts=p, phs=phs)
    if isinstance(v, T.SigmaTimestampPart):
        return _v("tspart", num=num_of(v.number), s=cps(v.timestamp_part.name.lower()))
    if isinstance(v, T.SigmaNumber):
        if abs(v.number) >= 2**31:  # beyond TLC's integers: the number as the text Python prints for it
            return _v("bignum", s=cps(repr(v.number)))
        return _v("num", num=num_of(v.number))
    if isinstance(v, T.SigmaBool):
        return _v("bool", b=v.boolean)
    if isinstance(v, T.SigmaNull):
        return _v("null")
    if isinstance(v, T.SigmaExists):
        return _v("exists", b=v.exists)
    if isinstance(v, T.SigmaRegularExpression):
        p, phs = parts_of(v.regexp)
        letters = sorted(T.SigmaRegularExpression.sigma_to_re_flag[f] for f in v.flags)
        return _v("re", parts=p, phs=phs, s=cps(str(v.regexp)), flags=[ord(c) for c in letters])
    if isinstance(v, T.SigmaCIDRExpression):
        return _v("cidr", s=cps(v.cidr))
    if isinstance(v, T.SigmaCompareExpression):
        if abs(v.number.number) >= 2**31:
            return _v("cmp", parts=cps(repr(v.number.number)), s=cps(v.op.name.lower()))
        unit = cps(v.number.timestamp_part.name.lower()) if isinstance(v.number, T.SigmaTimestampPart) else []
        return _v("cmp", num=num_of(v.number.number), s=cps(v.op.name.lower()), flags=unit)
    if isinstance(v, T.SigmaFieldReference):
        return _v("fieldref", s=cps(v.field), flags=[int(v.starts_with), int(v.ends_with)])
    if isinstance(v, T.SigmaQueryExpression):
        return _v("qexpr", s=cps(v.expr))
    if isinstance(v, T.SigmaExpansion):
        return _v("exp", vals=[dump_value(x) for x in v.values])
    return _v("other:" + type(v).__name__)


def outcome(fn):
    """{ok, out, exc, sigma, msg}: the call's result or its exception class."""
    from sigma.exceptions import SigmaError

    try:
        return {"ok": True, "out": fn(), "exc": "", "sigma": False, "msg": []}
    except Exception as e:  # noqa: BLE001 - the judge decides what an exception means
        return {"ok": False, "out": [], "exc": type(e).__name__, "sigma": isinstance(e, SigmaError), "msg": cps(str(e))[:300]}
