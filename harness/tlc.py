"""Thin wrapper around TLC (tla2tools 1.8) used by every check.

Nothing here knows anything about pySigma: it runs a module/cfg pair from /verif/spec,
passes parameters through environment variables (read by the specs with IOEnv) and
extracts state counts, coverage and PrintT lines from TLC's output.
"""
from __future__ import annotations

import os
import re
import shutil
import subprocess
import tempfile
import time
from concurrent.futures import ThreadPoolExecutor
from dataclasses import dataclass, field

VERIF = os.path.dirname(os.path.dirname(os.path.abspath(__file__)))
SPEC = os.path.join(VERIF, "spec")
JAR = "/opt/veriftools/tla/tla2tools.jar:/opt/veriftools/tla/CommunityModules-deps.jar"


class MachineryError(Exception):
    """Raised when TLC itself (not the property) fails: exit 2 of ./check."""


@dataclass
class TlcResult:
    module: str
    rc: int
    out: str
    wall_s: float
    states: int = 0
    distinct: int = 0
    transitions: int = 0
    ok: bool = False
    invariant_violated: str | None = None
    coverage: dict = field(default_factory=dict)

    def prints(self) -> list[str]:
        """Lines printed by PrintT/Print (everything that is not TLC chatter)."""
        res = []
        for line in self.out.splitlines():
            if line.startswith("<<") or line.startswith('"') or line.startswith("["):
                res.append(line)
        return res


_GEN = re.compile(r"(\d+) states generated, (\d+) distinct states found")
_INV = re.compile(r"Invariant (\S+) is violated")


def run_tlc(
    module: str,
    cfg: str | None = None,
    env: dict | None = None,
    workers: int | str = 1,
    timeout: int = 3600,
    simulate: str | None = None,
    depth: int | None = None,
    seed: int | None = None,
    coverage: bool = False,
    deadlock: bool = False,
    heap: str = "3g",
    dfid: bool = False,
    extra: list[str] | None = None,
    check_ok: bool = True,
) -> TlcResult:
    """Run TLC on spec/<module>.tla with spec/<cfg> (default <module>.cfg)."""
    cfg = cfg or module + ".cfg"
    scratch = tempfile.mkdtemp(prefix="verif_tlc_")
    try:
        cmd = [
            "java",
            "-XX:+UseParallelGC",
            f"-Xmx{heap}",
            "-Xss512m",
            f"-Djava.io.tmpdir={scratch}",  # TLC leaves a tlc-<n> directory per run in the JVM's tmpdir
            "-cp",
            JAR,
            "tlc2.TLC",
            "-metadir",
            scratch,
            "-noGenerateSpecTE",
            "-workers",
            str(workers),
            "-config",
            os.path.join(SPEC, cfg),
        ]
        if not deadlock:
            cmd.append("-deadlock")  # switch deadlock checking OFF
        if simulate:
            cmd += ["-simulate", simulate]
        if depth is not None:
            cmd += ["-depth", str(depth)]
        if seed is not None:
            cmd += ["-seed", str(seed)]
        if coverage:
            cmd += ["-coverage", "1"]
        if extra:
            cmd += extra
        cmd.append(os.path.join(SPEC, module + ".tla"))
        e = dict(os.environ)
        e.pop("JAVA_TOOL_OPTIONS", None)
        if env:
            e.update({k: str(v) for k, v in env.items()})
        t0 = time.time()
        try:
            p = subprocess.run(
                cmd, cwd=SPEC, env=e, capture_output=True, text=True, timeout=timeout
            )
        except subprocess.TimeoutExpired as ex:
            raise MachineryError(f"TLC timeout on {module} after {timeout}s") from ex
        out = p.stdout + p.stderr
        r = TlcResult(module=module, rc=p.returncode, out=out, wall_s=time.time() - t0)
        m = None
        for m in _GEN.finditer(out):
            pass
        if m:
            r.states = int(m.group(2))
            r.transitions = int(m.group(1))
        mi = _INV.search(out)
        if mi:
            r.invariant_violated = mi.group(1)
        r.ok = p.returncode == 0 and "Error:" not in out
        if coverage:
            r.coverage = parse_coverage(out)
        if check_ok and not r.ok and r.invariant_violated is None:
            raise MachineryError(f"TLC failed on {module} (rc={p.returncode}):\n{out[-4000:]}")
        return r
    finally:
        shutil.rmtree(scratch, ignore_errors=True)


_COV = re.compile(r"^<(\w+) line (\d+), col \d+ to line \d+, col \d+ of module (\w+)>: (\d+):(\d+)")


def parse_coverage(out: str) -> dict:
    """Per-action (distinct:total) counts from `-coverage 1`."""
    cov = {}
    for line in out.splitlines():
        m = _COV.match(line.strip())
        if m:
            cov[f"{m.group(3)}!{m.group(1)}"] = {"distinct": int(m.group(4)), "total": int(m.group(5))}
    return cov


def run_many(jobs: list[dict], parallel: int = 16) -> list[TlcResult]:
    """Run several TLC invocations concurrently (each -workers 1 by default)."""
    with ThreadPoolExecutor(max_workers=parallel) as ex:
        futs = [ex.submit(run_tlc, **j) for j in jobs]
        return [f.result() for f in futs]


def sany(module: str) -> bool:
    p = subprocess.run(
        ["java", "-cp", JAR, "tla2sany.SANY", os.path.join(SPEC, module + ".tla")],
        cwd=SPEC,
        capture_output=True,
        text=True,
    )
    return p.returncode == 0 and "error" not in (p.stdout + p.stderr).lower().replace("errors: 0", "")
