"""C14 - pipelines compose in a defined order: priority, then stage, then position."""
from __future__ import annotations

from collections import defaultdict

from ..common import Check, drive, replay as _replay, uncps, cps

ITEMS = {
    1: {"id": "t1", "type": "field_name_mapping", "mapping": {"fieldA": "fieldB"}},
    2: {"id": "t2", "type": "field_name_mapping", "mapping": {"fieldB": "fieldC"}},
    3: {"id": "t3", "type": "set_state", "key": "index", "val": "win", "rule_conditions": [{"type": "logsource", "product": "windows"}]},
    4: {"id": "t4", "type": "field_name_prefix", "prefix": "p_", "rule_conditions": [{"type": "processing_state", "key": "index", "val": "win"}]},
    5: {"id": "t5", "type": "field_name_suffix", "suffix": "_s"},
    6: {"id": "t6", "type": "value_placeholders"},
    7: {"id": "t7", "type": "nest", "items": [{"id": "t7i", "type": "value_placeholders"}]},
}
# converted in addition where the reference definition fills placeholders AND defines variable k1
PROBE_PH = {"title": "ph", "logsource": {"category": "c", "product": "linux"}, "detection": {"sel": {"fieldP|expand": "x%k1%y"}, "condition": "sel"}}
POST = {
    1: {"type": "embed", "prefix": "[", "suffix": "]"},
    2: {"type": "embed", "prefix": "<", "suffix": ">"},
    3: {"type": "embed", "prefix": "{", "suffix": "}"},
    # reads the context of the pipeline it runs in: a variable and the state
    4: {"type": "simple_template", "template": "{query} |k1={pipeline.vars[k1]} st={pipeline.state}"},
}
FIN = {1: {"type": "concat", "separator": " , ", "prefix": "A(", "suffix": ")"},
       2: {"type": "nested", "finalizers": [{"type": "template", "template": "k1={{ pipeline.vars.k1 }} :: {{ queries | join(' ; ') }}"}]}}
PROBES = [
    {"title": "lin", "logsource": {"category": "c", "product": "linux"}, "detection": {"sel": {"fieldA": "v1", "fieldB": "v2"}, "condition": ["sel", "not sel"]}},
    {"title": "win", "logsource": {"category": "c", "product": "windows"}, "detection": {"sel": {"fieldA": "v1"}, "condition": "sel"}},
]


def def_dict(d, with_stages=True):
    import copy

    out = {"name": f"p{d['name']}", "priority": d["prio"], "transformations": [copy.deepcopy(ITEMS[i]) for i in d["items"]]}
    if with_stages:
        out["postprocessing"] = [copy.deepcopy(POST[i]) for i in d["post"]]
        out["finalizers"] = [copy.deepcopy(FIN[i]) for i in d["fin"]]
    out["vars"] = {f"k{k}": v for k, v in d["vars"]}
    return out


def mkpipe(d, with_stages=True):
    from sigma.processing.pipeline import ProcessingPipeline

    return ProcessingPipeline.from_dict(def_dict(d, with_stages))


def backend_with(cls_pipe=None, fmt_pipe=None, fmt_name="test"):
    from sigma.backends.test import TextQueryTestBackend
    from sigma.processing.pipeline import ProcessingPipeline

    attrs = {
        "backend_processing_pipeline": cls_pipe or ProcessingPipeline(),
        "output_format_processing_pipeline": defaultdict(ProcessingPipeline, **{fmt_name: fmt_pipe or ProcessingPipeline()}),
    }
    return type("ComposeBackend", (TextQueryTestBackend,), attrs)


def _fills(refdef):
    return 6 in refdef["items"] or 7 in refdef["items"]


def _probes(refdef):
    return PROBES + ([PROBE_PH] if _fills(refdef) and any(k == 1 for k, _ in refdef["vars"]) else [])


def _ph_outcome(backend, fmt, via_rule):
    """The placeholder probe on its own (where the reference definition does NOT define its variable it must fail)."""
    r = _convert(backend, fmt, via_rule, [PROBE_PH])
    return ["ok"] + [q for p in r["out"] for q in p] if r["ok"] else ["failed", cps(r["exc"])]


def _convert(backend, fmt="default", via_rule=False, probes=PROBES):
    from sigma.collection import SigmaCollection
    from sigma.rule import SigmaRule
    from sigma.exceptions import SigmaError
    import copy

    r = {"ok": False, "out": [], "exc": "", "sigma": False}
    try:
        outs = []
        for p in probes:
            if via_rule:
                o = backend.convert_rule(SigmaRule.from_dict(copy.deepcopy(p)), fmt)
            else:
                o = backend.convert(SigmaCollection.from_dicts([copy.deepcopy(p)]), fmt)
            outs.append([cps(o)] if isinstance(o, str) else [cps(q) for q in o])
        r["out"] = outs
        r["ok"] = True
    except Exception as e:  # noqa: BLE001
        r["exc"] = type(e).__name__
        r["sigma"] = isinstance(e, SigmaError)
    return r


def _apply_state(pipeline):
    """Apply the pipeline object itself (no backend) to the windows probe: the state IT ends up with."""
    import copy
    from sigma.rule import SigmaRule

    try:
        rule = SigmaRule.from_dict(copy.deepcopy(PROBES[1]))
        pipeline.apply(rule)
        # ... and what its post-processing items make of a query text, in the context they run in
        return [f"{k}={v}" for k, v in sorted(pipeline.state.items())] + ["post=" + str(pipeline.postprocess_query(rule, "Q"))]
    except Exception as e:  # noqa: BLE001
        return ["exception:" + type(e).__name__]


def _eval_tree(t, pipes):
    if t["k"] == "leaf":
        return pipes[t["i"] - 1]
    return _eval_tree(t["l"], pipes) + _eval_tree(t["r"], pipes)


def drive_case(case):
    from sigma.processing.resolver import ProcessingPipelineResolver

    pool = case["pool"]
    ops = case["operands"]
    objs = {}
    for i in ops:  # (an operand named twice is the SAME object twice)
        if i not in objs:
            objs[i] = mkpipe(pool[i - 1])
    pipes = [objs[i] for i in ops]
    op = case["op"]
    fmt = "default"
    Plain = backend_with()
    applied = []
    compose_error = None
    composed = None
    b = None
    try:
        if op == "sum":
            composed = _eval_tree(case["tree"], pipes)
            b = Plain(composed)
        elif op == "resolve":
            res = ProcessingPipelineResolver({f"p{pool[i - 1]['name']}": p for i, p in zip(ops, pipes)})
            composed = res.resolve([f"p{pool[i - 1]['name']}" for i in ops])
            b = Plain(composed)
        elif op == "resolve_cwd":  # the working directory has a sub-directory named like every pipeline
            import os, tempfile

            res = ProcessingPipelineResolver({f"p{pool[i - 1]['name']}": p for i, p in zip(ops, pipes)})
            here = os.getcwd()
            with tempfile.TemporaryDirectory() as tmp:
                for d in pool:
                    os.mkdir(os.path.join(tmp, f"p{d['name']}"))
                os.chdir(tmp)
                try:
                    composed = res.resolve([f"p{pool[i - 1]['name']}" for i in ops])
                finally:
                    os.chdir(here)
            b = Plain(composed)
        elif op == "backend":
            b = backend_with(pipes[0], pipes[2])(pipes[1])
            fmt = "test"
            composed = None
        elif op == "backend_default":  # the format pipeline belongs to the DEFAULT format, which the caller does not name
            b = backend_with(pipes[0], pipes[2], "default")(pipes[1])
            fmt = None
            composed = None
        elif op == "backend_switch":
            b = backend_with(pipes[0], pipes[2])(pipes[1])
            _convert(b, "default")  # an earlier conversion in another format
            fmt = "test"
            composed = None
        elif op == "backend_switch_back":  # after a conversion in ANOTHER format: convert_rule() without naming a format
            b = backend_with(pipes[0], pipes[2], "default")(pipes[1])
            _convert(b, "test")
            fmt = None
            composed = None
        elif op == "vars_changed":  # the backend converts, THEN the user changes a variable of the pipeline
            composed = pipes[0] + pipes[1]
            b = Plain(composed)
            _convert(b, probes=PROBES + [PROBE_PH])
            composed.vars["k1"] = 55
        elif op == "reuse_sum_again":
            first = pipes[0] + pipes[1]
            composed = pipes[0] + pipes[1]
            b = Plain(composed)
        elif op == "reuse_first_sum":
            composed = pipes[0] + pipes[1]
            _second = pipes[0] + pipes[1]
            b = Plain(composed)
        elif op == "reuse_then_third":  # a + b is built, THEN b goes into another sum, then a + b is used
            composed = pipes[0] + pipes[1]
            _other = pipes[1] + pipes[2]
            b = Plain(composed)
        elif op == "reuse_after_use":  # a + b is built and USED, then a goes into a + c
            first = pipes[0] + pipes[1]
            _convert(Plain(first), probes=PROBES + [PROBE_PH])
            composed = pipes[0] + pipes[2]
            b = Plain(composed)
        elif op == "reuse_operand":
            _sum = pipes[0] + pipes[1]
            composed = pipes[0]
            b = Plain(composed)
        elif op == "resolve_defs_twice":  # the resolver is given generators that load the SAME definition dicts each time
            from sigma.processing.pipeline import ProcessingPipeline

            defs = {f"p{pool[i - 1]['name']}": def_dict(pool[i - 1]) for i in ops}
            res = ProcessingPipelineResolver({n: (lambda d=d: ProcessingPipeline.from_dict(d)) for n, d in defs.items()})
            names = [f"p{pool[i - 1]['name']}" for i in ops]
            _first = res.resolve(names)
            composed = res.resolve(list(reversed(names)))
            b = Plain(composed)
        elif op == "resolve_decorated":  # pipelines given as functions registered with the Pipeline decorator
            from sigma.pipelines.base import Pipeline

            def deco(p):
                @Pipeline
                def gen():
                    return p

                return gen

            gens = {f"p{pool[i - 1]['name']}": deco(p) for i, p in zip(ops, pipes)}
            composed = ProcessingPipelineResolver(gens).resolve([f"p{pool[i - 1]['name']}" for i in ops])
            b = Plain(composed)
        else:  # resolve_twice
            res = ProcessingPipelineResolver({f"p{pool[i - 1]['name']}": p for i, p in zip(ops, pipes)})
            names = [f"p{pool[i - 1]['name']}" for i in ops]
            _first = res.resolve(names)
            composed = res.resolve(list(reversed(names)))
            b = Plain(composed)
    except Exception as e:  # noqa: BLE001  composing the pipelines failed: that is the observation
        from sigma.exceptions import SigmaError

        compose_error = {"ok": False, "out": [], "exc": type(e).__name__, "sigma": isinstance(e, SigmaError)}
        composed = None
    via_rule = op in ("backend_switch", "backend_switch_back")
    # the composed object used directly, before a backend sums its parts once more
    state_after = _apply_state(composed) if composed is not None else []
    probes = _probes(case["ref"])
    got = compose_error or _convert(b, fmt, via_rule, probes)
    vars_ = sorted((int(k[1:]), v) for k, v in (composed.vars.items() if composed is not None else []) if k.startswith("k") and k[1:].isdigit())
    last = getattr(b, "last_processing_pipeline", None)
    applied = list(last.applied) if last is not None else []
    # reference: ONE pipeline with the definition the spec demands, on fresh objects
    refdef = dict(case["ref"], name=99)
    rb = Plain(mkpipe(refdef))
    ref = _convert(rb, fmt, via_rule, probes)
    ref_applied = list(rb.last_processing_pipeline.applied) if getattr(rb, "last_processing_pipeline", None) is not None else []
    raw = _convert(Plain(mkpipe(refdef, with_stages=False)), fmt, via_rule, probes)
    ref_state = _apply_state(mkpipe(refdef)) if composed is not None else []
    ph = [[], []]
    if compose_error is None and _fills(case["ref"]) and not any(k == 1 for k, _ in case["ref"]["vars"]):
        ph = [_ph_outcome(b, fmt, via_rule), _ph_outcome(Plain(mkpipe(refdef)), fmt, via_rule)]
    return {
        "id": case["id"],
        "ph": ph,
        "case": {k: case[k] for k in ("op", "operands", "tree", "ref")},
        "got": got,
        "ref": ref,
        "raw": raw,
        "vars": [[k, v] for k, v in vars_],
        "applied": applied + ["state"] + state_after,
        "ref_applied": ref_applied + ["state"] + ref_state,
    }


def _pretty(o):
    def res(r):
        return [[uncps(q) for q in p] for p in r["out"]] if r["ok"] else r["exc"]

    return {"op": o["case"]["op"], "operands": o["case"]["operands"], "tree": o["case"]["tree"], "got": res(o["got"]), "ref": res(o["ref"]), "vars": o["vars"]}


def run(tier: str, seed: int) -> int:
    chk = Check("C14", tier, seed, "model_checking")
    chk.model_check("MC_PipelineCompose")
    chk.model_check("MC_PipelineObjects", "MC_PipelineObjects.cfg")
    cases = chk.generate("Gen_C14")
    obs = drive("harness.props.c14", "drive_case", cases, chunk=50)
    verdicts = chk.judge("Judge_C14", obs)
    from .. import corrupt as _corrupt

    chk.binding_selftest("Judge_C14", obs, verdicts, _corrupt.c14)
    by_id = {o["id"]: _pretty(o) for o in obs}
    chk.absorb(verdicts, by_id, {c["id"]: c for c in cases})
    nontrivial = sum(1 for c in cases if len(c["operands"]) >= 2)
    samples = [by_id[o["id"]] for o in obs[:: max(1, len(obs) // 4)]][:4]
    return chk.finish(
        evaluations=len(obs),
        distinct_nontrivial=nontrivial,
        rule="TLC (Gen_C14) enumerates, over a pool of 6 pipeline definitions (non-commuting field renamings, state "
        "setter and state-gated item in both orders, bracket-adding postprocessing items, a concatenating finalizer, "
        "overlapping vars, equal priorities, an empty pipeline): every sequence of 1..3 (thorough 4) distinct operands x "
        "every bracketing of '+', every resolver argument order for 2..3 (4) pipelines, backend/user/format triples, and "
        "reuse histories (same objects added twice, first sum used after a second, operand used alone after being added, "
        "resolving twice); non-trivial = at least two operands",
        samples=samples,
        traces=len(obs),
        exhaustive=True,
    )


def replay(path: str) -> int:
    return _replay("C14", path, "harness.props.c14", "Judge_C14")
