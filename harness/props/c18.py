"""C18 - CIDR expansion matches exactly the addresses of the network."""
from __future__ import annotations

import json

from ..common import Check, drive, replay as _replay, uncps, cps
from ..serial import outcome

_B = None


def _backend():
    global _B
    if _B is None:
        from sigma.backends.test import TextQueryTestBackend

        cls = type("CidrNative", (TextQueryTestBackend,), {"cidr_expression": "{field}|{value}|{network}|{prefixlen}|{netmask}"})
        _B = cls()
    return _B


def _history(text, mirror_only=False):
    """What the process has expanded BEFORE the observation is made (the patterns of a network are a function of the
    network alone): the network of the same number and prefix length in the other address family, and the networks one
    bit shorter and one bit longer at the same address. Their results are not judged."""
    import ipaddress
    from sigma.types import SigmaCIDRExpression

    try:
        net = ipaddress.ip_network(text)
    except ValueError:
        return
    n, p = int(net.network_address), net.prefixlen
    before = []
    if n == 0 and p <= 32:  # (the only networks of the two families that have number AND prefix length in common)
        before.append(ipaddress.IPv6Network((0, p)) if net.version == 4 else ipaddress.IPv4Network((0, p)))
    cls = type(net)
    for q in (() if mirror_only else (p - 1, p + 1)):
        if 0 <= q <= net.max_prefixlen:
            before.append(cls((n, q), strict=False))
    for b in before:
        try:
            SigmaCIDRExpression(str(b)).expand()
        except Exception:  # noqa: BLE001  (history only)
            pass


def drive_case(case):
    from sigma.types import SigmaCIDRExpression
    from sigma.rule import SigmaRule
    from sigma.rule.detection import SigmaDetectionItem

    text = uncps(case["text"])
    _history(text, bool(case.get("newproc")))
    o = {"id": case["id"], "kind": case["kind"], "net": case["net"], "p": case["p"], "text": case["text"]}
    o["expand"] = outcome(lambda: [cps(p) for p in SigmaCIDRExpression(text).expand()])
    o["item"] = outcome(lambda: [cps(str(v)) for v in SigmaDetectionItem.from_mapping("f|cidr", text).value])

    def native():
        rule = SigmaRule.from_dict(
            {"title": "t", "logsource": {"category": "c"}, "detection": {"sel": {"f|cidr": text}, "condition": "sel"}}
        )
        return [cps(q) for q in _backend().convert_rule(rule)]

    o["native"] = outcome(native)
    return o


NEWPROC = 1_000_000


def _one_from_stdin():
    import sys

    print(json.dumps(drive_case(json.loads(sys.stdin.read()))))


def _drive_each_in_new_process(cases):
    """One interpreter per case: nothing but the case's own history has happened in the process."""
    import os, subprocess, sys
    from concurrent.futures import ThreadPoolExecutor
    from .. import tlc
    from ..common import VERIF, REPO

    def one(c):
        p = subprocess.run([sys.executable, "-c", "from harness.props.c18 import _one_from_stdin; _one_from_stdin()"],
                           input=json.dumps(c), capture_output=True, text=True, cwd=VERIF,
                           env=dict(os.environ, PYTHONPATH=VERIF + os.pathsep + REPO))
        if p.returncode != 0:
            raise tlc.MachineryError("interpreter for a single case failed: " + p.stderr[-1000:])
        return json.loads(p.stdout.strip().splitlines()[-1])

    with ThreadPoolExecutor(max_workers=min(16, os.cpu_count() or 4)) as ex:
        return list(ex.map(one, cases))


def _pretty(o):
    return {
        "cidr": uncps(o["text"]),
        "patterns": [uncps(p) for p in o["expand"]["out"]] if o["expand"]["ok"] else o["expand"]["exc"],
        "native": [uncps(p) for p in o["native"]["out"]] if o["native"]["ok"] else o["native"]["exc"],
    }


def run(tier: str, seed: int) -> int:
    chk = Check("C18", tier, seed, "model_checking")
    chk.model_check("MC_Cidr")
    cases = chk.generate("Gen_C18", shards=[1, 2, 3])
    obs = drive("harness.props.c18", "drive_case", cases)
    # the all-zero networks once more, each in an interpreter of its own in which nothing but the other family's network
    # of the same number and length was expanded before
    twins = [dict(c, id=c["id"] + NEWPROC, newproc=1) for c in cases if c["kind"] != "bad" and not any(c["net"]) and c["p"] <= 32]
    cases = cases + twins
    obs += _drive_each_in_new_process(twins)
    verdicts = chk.judge("Judge_C18", obs)
    from .. import corrupt as _corrupt

    chk.binding_selftest("Judge_C18", obs, verdicts, _corrupt.c18)
    by_id = {o["id"]: _pretty(o) for o in obs}
    chk.absorb(verdicts, by_id, {c["id"]: c for c in cases})
    nontrivial = len({tuple(c["text"]) for c in cases if c["kind"] != "bad" and c["p"] % 8 != 0})
    samples = [by_id[o["id"]] for o in obs[:: max(1, len(obs) // 5)]][:5]
    return chk.finish(
        evaluations=len(obs),
        distinct_nontrivial=nontrivial,
        rule="TLC (Gen_C18) enumerates IPv4 networks for every prefix length 0..32 x 12 (thorough 128) base addresses, "
        "IPv6 networks for prefix lengths 0..128 (quick: multiples of 4 + 14 odd ones) x 11 (thorough 49) base addresses "
        "with zero runs in different positions, and 11 invalid strings; IPv4 exactness is decided by octet interval "
        "arithmetic over the whole network, IPv6 by up to 36 corner addresses per network; non-trivial = prefix length "
        "not on an octet boundary",
        samples=samples,
        traces=len(obs),
        exhaustive=True,
    )


def replay(path: str) -> int:
    return _replay("C18", path, "harness.props.c18", "Judge_C18")
