"""C18 - CIDR expansion matches exactly the addresses of the network."""
from __future__ import annotations

from ..common import Check, drive, replay as _replay, uncps, cps
from ..serial import outcome

_B = None


def _backend():
    global _B
    if _B is None:
        from sigma.backends.test import TextQueryTestBackend

        cls = type("CidrNative", (TextQueryTestBackend,), {"cidr_expression": "{field}|{value}|{network}|{prefixlen}|{netmask}"})
        _B = cls()
    return _B


def _history(text):
    """What the process has expanded BEFORE the observation is made (the patterns of a network are a function of the
    network alone): the network of the same number and prefix length in the other address family, and the networks one
    bit shorter and one bit longer at the same address. Their results are not judged."""
    import ipaddress
    from sigma.types import SigmaCIDRExpression

    try:
        net = ipaddress.ip_network(text)
    except ValueError:
        return
    n, p = int(net.network_address), net.prefixlen
    before = []
    if net.version == 4:
        before.append(ipaddress.IPv6Network((n, p), strict=False))
    elif n < 2**32 and p <= 32:
        before.append(ipaddress.IPv4Network((n, p), strict=False))
    cls = type(net)
    for q in (p - 1, p + 1):
        if 0 <= q <= net.max_prefixlen:
            before.append(cls((n, q), strict=False))
    for b in before:
        try:
            SigmaCIDRExpression(str(b)).expand()
        except Exception:  # noqa: BLE001  (history only)
            pass


def drive_case(case):
    from sigma.types import SigmaCIDRExpression
    from sigma.rule import SigmaRule
    from sigma.rule.detection import SigmaDetectionItem

    text = uncps(case["text"])
    _history(text)
    o = {"id": case["id"], "kind": case["kind"], "net": case["net"], "p": case["p"], "text": case["text"]}
    o["expand"] = outcome(lambda: [cps(p) for p in SigmaCIDRExpression(text).expand()])
    o["item"] = outcome(lambda: [cps(str(v)) for v in SigmaDetectionItem.from_mapping("f|cidr", text).value])

    def native():
        rule = SigmaRule.from_dict(
            {"title": "t", "logsource": {"category": "c"}, "detection": {"sel": {"f|cidr": text}, "condition": "sel"}}
        )
        return [cps(q) for q in _backend().convert_rule(rule)]

    o["native"] = outcome(native)
    return o


def _pretty(o):
    return {
        "cidr": uncps(o["text"]),
        "patterns": [uncps(p) for p in o["expand"]["out"]] if o["expand"]["ok"] else o["expand"]["exc"],
        "native": [uncps(p) for p in o["native"]["out"]] if o["native"]["ok"] else o["native"]["exc"],
    }


def run(tier: str, seed: int) -> int:
    chk = Check("C18", tier, seed, "model_checking")
    chk.model_check("MC_Cidr")
    cases = chk.generate("Gen_C18", shards=[1, 2, 3])
    obs = drive("harness.props.c18", "drive_case", cases)
    verdicts = chk.judge("Judge_C18", obs)
    from .. import corrupt as _corrupt

    chk.binding_selftest("Judge_C18", obs, verdicts, _corrupt.c18)
    by_id = {o["id"]: _pretty(o) for o in obs}
    chk.absorb(verdicts, by_id, {c["id"]: c for c in cases})
    nontrivial = len({tuple(c["text"]) for c in cases if c["kind"] != "bad" and c["p"] % 8 != 0})
    samples = [by_id[o["id"]] for o in obs[:: max(1, len(obs) // 5)]][:5]
    return chk.finish(
        evaluations=len(obs),
        distinct_nontrivial=nontrivial,
        rule="TLC (Gen_C18) enumerates IPv4 networks for every prefix length 0..32 x 12 (thorough 128) base addresses, "
        "IPv6 networks for prefix lengths 0..128 (quick: multiples of 4 + 14 odd ones) x 11 (thorough 49) base addresses "
        "with zero runs in different positions, and 11 invalid strings; IPv4 exactness is decided by octet interval "
        "arithmetic over the whole network, IPv6 by up to 36 corner addresses per network; non-trivial = prefix length "
        "not on an octet boundary",
        samples=samples,
        traces=len(obs),
        exhaustive=True,
    )


def replay(path: str) -> int:
    return _replay("C18", path, "harness.props.c18", "Judge_C18")
