"""C12 - each pipeline transformation equals its documented source-level rewrite."""
from __future__ import annotations

import re

from ..common import Check, drive, replay as _replay, uncps, cps, NPROC
from ..serial import outcome
from ..docs import rule_dict, convert_via
from ..backend import make_backend


def scope_keys(sc):
    if sc["mode"] == "all":
        return {}
    return {"field_name_conditions": [{"type": sc["mode"] + "_fields", "fields": [uncps(n) for n in sc["names"]]}]}


def t_dict(T):
    ty = T["type"]
    if ty == "fmap":
        # (flag: write a single target as a one-element list)
        d = {"type": "field_name_mapping", "mapping": {(uncps(f) if f else None): ([uncps(t) for t in to] if len(to) != 1 or T["flag"] else uncps(to[0])) for f, to in T["m"]}}
    elif ty == "fprefix":
        d = {"type": "field_name_prefix", "prefix": uncps(T["s1"])}
    elif ty == "fsuffix":
        d = {"type": "field_name_suffix", "suffix": uncps(T["s1"])}
    elif ty == "fprefixmap":
        d = {"type": "field_name_prefix_mapping", "mapping": {uncps(f): ([uncps(t) for t in to] if len(to) != 1 else uncps(to[0])) for f, to in T["m"]}}
    elif ty == "drop":
        d = {"type": "drop_detection_item"}
    elif ty == "addcond":
        d = {"type": "add_condition", "conditions": {uncps(T["s1"]): uncps(T["s2"])}, "negated": bool(T["flag"])}
    elif ty == "replace":
        d = {"type": "replace_string", "regex": re.escape(uncps(T["s1"])), "replacement": uncps(T["s2"])}
    elif ty == "mapstr":
        d = {"type": "map_string", "mapping": {uncps(f): ([uncps(t) for t in to] if len(to) != 1 else uncps(to[0])) for f, to in T["m"]}}
    elif ty == "case":
        d = {"type": "case", "method": "upper" if T["flag"] else "lower"}
    elif ty == "setvalue":
        d = {"type": "set_value", "value": uncps(T["s2"])}
    elif ty == "convtype":
        d = {"type": "convert_type", "target_type": "num" if T["flag"] else "str"}
    elif ty == "regex":
        d = {"type": "regex", "method": uncps(T["s1"])}
    elif ty == "hashes":
        d = {"type": "hashes_fields", "valid_hash_algos": [uncps(a) for a, _ in T["m"]], "field_prefix": uncps(T["s1"]), "drop_algo_prefix": bool(T["flag"])}
    elif ty == "nest":
        d = {"type": "nest", "items": [t_dict(s) for s in T["sub"]]}
    else:
        raise ValueError(ty)
    d.update(scope_keys(T["scope"]))
    return d


def pipeline_dict(Ts):
    return {"name": "c12", "priority": 10, "transformations": [t_dict(T) for T in Ts]}


def K_of(case):
    on = bool(case["sw"])
    return dict(prec=["not", "and", "or"], paren=False, sep=1, orin=on, andin=False, inwild=False, sw=on, ew=on, ct=on, wm=False,
                cs="full", nexists=True, cidr=False, noteq=False, allowspecial=False)


def drive_case(case):
    from sigma.rule import SigmaRule
    from sigma.processing.pipeline import ProcessingPipeline

    def conv(with_pipeline):
        def go():
            p = ProcessingPipeline.from_dict(pipeline_dict(case["Ts"])) if with_pipeline else None
            return [cps(q) for q in convert_via(rule_dict(case["doc"]), make_backend(K_of(case), p), case["id"])]

        return go

    return {"id": case["id"], "doc": case["doc"], "Ts": case["Ts"], "identity": case["identity"], "ret": outcome(conv(True)), "plain": outcome(conv(False))}


def _pretty(o):
    def res(r):
        return [uncps(q) for q in r["out"]] if r["ok"] else r["exc"] + ": " + uncps(r["msg"])

    return {"detection": rule_dict(o["doc"])["detection"], "transformations": pipeline_dict(o["Ts"])["transformations"], "with_pipeline": res(o["ret"]), "without": res(o["plain"])}


def run(tier: str, seed: int) -> int:
    chk = Check("C12", tier, seed, "model_checking")
    chk.model_check("MC_Transform")
    n = NPROC
    cases = chk.generate("Gen_C12", shards=list(range(n)), env={"VERIF_NSHARDS": n})
    obs = drive("harness.props.c12", "drive_case", cases)
    verdicts = chk.judge("Judge_C12", obs)
    from .. import corrupt as _corrupt

    chk.binding_selftest("Judge_C12", obs, verdicts, _corrupt.c12)
    by_id = {o["id"]: _pretty(o) for o in obs}
    chk.absorb(verdicts, by_id, {c["id"]: c for c in cases})
    samples = [by_id[o["id"]] for o in obs[:: max(1, len(obs) // 5)]][:5]
    return chk.finish(
        evaluations=len(obs),
        distinct_nontrivial=sum(1 for c in cases if not c["identity"]),
        rule="TLC (Gen_C12) combines 54 detection bodies of the C01 item library (every value type, keyword lists, lists of "
        "maps) with 26 transformation lists: field mapping 1:1, 1:n, keyword-to-field, with field references, scoped; prefix, "
        "suffix, prefix mapping (1:1 and 1:n); drop; add condition (plain, negated); replace (global, scoped); map string; "
        "case; set value; a nested pipeline; 7 chains of two - and 7 identity instances (byte-identity demanded), under "
        "'sel' and 'not sel' and 2 backend configurations; non-trivial = non-identity transformation list",
        samples=samples,
        traces=len(obs),
        exhaustive=True,
    )


def replay(path: str) -> int:
    return _replay("C12", path, "harness.props.c12", "Judge_C12")
