"""C15 - converting a rule gives the same result whatever was converted before."""
from __future__ import annotations

import json
import os
import subprocess
import sys

from ..common import Check, drive, replay as _replay, uncps, cps, VERIF, REPO
from .c08 import rule_doc

CLASS_PIPE = """
name: verif-class-pipeline
priority: 5
transformations:
  - id: cst
    type: set_state
    key: index
    val: win
    rule_conditions:
      - type: logsource
        product: windows
  - id: cmap
    type: field_name_mapping
    mapping:
      fieldA: mappedA
  - id: cstrict
    type: strict_field_mapping_failure
"""
USER_PIPE = """
name: verif-user-pipeline
priority: 10
transformations:
  - id: ugate
    type: field_name_prefix
    prefix: "w_"
    rule_conditions:
      - type: processing_state
        key: index
        val: win
  - id: uboom
    type: rule_failure
    message: boom
    rule_conditions:
      - type: logsource
        category: failcat
  - id: ufile
    type: file_placeholders
    path: @VALUES@
    filter: "^adm_"
    include: [users]
  - id: uvars
    type: value_placeholders
    include: [backend_index]
  - id: utmpl
    type: add_condition
    template: true
    conditions:
      src: "$product"
postprocessing:
  - id: pwrap
    type: nest
    items:
      - id: pinner
        type: embed
        prefix: ""
        suffix: " #win"
        rule_conditions:
          - type: processing_state
            key: index
            val: win
  - id: pshow
    type: template
    template: "{{ query }} | applied={{ pipeline.applied_ids | sort | join(',') }}"
"""


def _values_file() -> str:
    """The external value list of the file_placeholders item (written when missing; every process of a run
    - also the freshly started interpreters - derives the same path)."""
    import tempfile

    p = os.path.join(tempfile.gettempdir(), "verif_c15_values.txt")
    if not os.path.exists(p):
        with open(p + ".tmp", "w") as f:
            f.write("adm_alice\nbob\nadm_carol\nsvc_backup\n")
        os.replace(p + ".tmp", p)
    return p


def user_pipeline():
    from sigma.processing.pipeline import ProcessingPipeline

    return ProcessingPipeline.from_yaml(USER_PIPE.replace("@VALUES@", _values_file()), allow_external_sources=True)


def _register_user_modifier():
    from ..usermod import register

    register()


def doc(kind: str) -> dict:
    _register_user_modifier()
    if kind == "okcont":
        d = rule_doc("ok1", 7)
        d["detection"]["sel"] = {"fieldA|contains": "v7"}
        return d
    if kind == "casedct":
        d = rule_doc("ok1", 7)
        d["detection"]["sel"] = {"fieldA|contains|cased": "v7"}
        return d
    if kind == "custmod":
        d = rule_doc("ok1", 7)
        d["detection"]["sel"] = {"fieldA|containsnum": 4625}
        return d
    if kind == "phfile":  # a placeholder filled from the external value list (filtered by the item)
        d = rule_doc("ok1", 7)
        d["detection"]["sel"] = {"fieldA|expand": "%users%"}
        return d
    if kind == "optph":  # a placeholder named like the pipeline variable of a backend OPTION this backend was not given
        d = rule_doc("ok1", 7)
        d["detection"]["sel"] = {"fieldA|expand": "%backend_index%"}
        return d
    if kind == "neqok":
        d = rule_doc("ok1", 7)
        d["detection"]["condition"] = "not sel"
        return d
    if kind == "neqfail":
        d = rule_doc("failPH", 7)
        d["detection"]["condition"] = "not sel"
        return d
    if kind == "direct":  # uses the mapping TARGET name itself: not a mapped field of this rule
        d = rule_doc("ok1", 7)
        d["detection"]["sel"] = {"mappedA": "v7"}
        return d
    return rule_doc(kind, 7)


PROBES = ("ok1", "okstate", "neqok", "ok2", "direct", "phfile", "optph", "custmod", "casedct")
_CLS = None


def backend_cls():
    global _CLS
    if _CLS is None:
        from sigma.backends.test import TextQueryTestBackend
        from sigma.processing.pipeline import ProcessingPipeline

        _CLS = type(
            "HistoryBackend",
            (TextQueryTestBackend,),
            dict(
                backend_processing_pipeline=ProcessingPipeline.from_yaml(CLASS_PIPE),
                convert_not_as_not_eq=True,
                not_eq_token="!=",
                not_eq_expression="{field}{backend.not_eq_token}{value}",
                not_startswith_expression="{field} not_startswith {value}",
                not_endswith_expression="{field} not_endswith {value}",
                not_contains_expression="{field} not_contains {value}",
                not_re_expression="{field}!=/{regex}/",
            ),
        )
    return _CLS


def _res(fn):
    from sigma.exceptions import SigmaError

    try:
        return {"ok": True, "out": [cps(q) for q in fn()], "exc": "", "sigma": False}
    except Exception as e:  # noqa: BLE001
        return {"ok": False, "out": [], "exc": type(e).__name__, "sigma": isinstance(e, SigmaError)}


def fresh_result(kind: str) -> dict:
    """Run in a NEW interpreter: new class object, new pipelines, nothing converted before."""
    from sigma.processing.pipeline import ProcessingPipeline
    from sigma.rule import SigmaRule

    b = backend_cls()(user_pipeline())
    return _res(lambda: b.convert_rule(SigmaRule.from_dict(doc(kind)), "state"))


def drive_case(case):
    from sigma.processing.pipeline import ProcessingPipeline
    from sigma.rule import SigmaRule
    from sigma.collection import SigmaCollection

    cls = backend_cls()
    shared = user_pipeline()
    bk = {}
    log = []
    for op in case["hist"]:
        if op[0] == "new":
            bk[op[1]] = cls(shared if op[2] else user_pipeline())
        elif op[0] == "opt":  # another backend of the class, WITH an option and WITHOUT user pipeline, converts a rule
            other = cls(None, index="other_index")
            r = _res(lambda: other.convert_rule(SigmaRule.from_dict(doc(op[1])), "state"))
            log.append(r["exc"] or "ok")
        elif op[0] == "init":
            bk[op[1]].init_processing_pipeline("state")
        elif op[0] == "rule":
            r = _res(lambda: bk[op[1]].convert_rule(SigmaRule.from_dict(doc(op[2])), "state"))
            log.append(r["exc"] or "ok")
        elif op[0] == "coll":
            r = _res(lambda: bk[op[1]].convert(SigmaCollection.from_dicts([doc(op[2])]), "state"))
            log.append(r["exc"] or "ok")
    b, kind = case["probe"]
    nerr = len(bk[b].errors)
    probe = _res(lambda: bk[b].convert_rule(SigmaRule.from_dict(doc(kind)), "state"))
    return {
        "id": case["id"],
        "hist": case["hist"],
        "probe": case["probe"],
        "got": probe,
        "errors_delta": len(bk[b].errors) - nerr,
        "fresh": case["_fresh"][kind],
        "windows": kind == "okstate",
        "direct": kind == "direct",
        "optph": kind == "optph",
    }


def _one_from_stdin():
    case = json.load(sys.stdin)
    print("\n" + json.dumps(drive_case(case)))


def _drive_each_in_new_process(cases):
    """One interpreter per case: nothing but the case's own history has happened in the process."""
    from concurrent.futures import ThreadPoolExecutor
    from .. import tlc

    def one(c):
        p = subprocess.run([sys.executable, "-c", "from harness.props.c15 import _one_from_stdin; _one_from_stdin()"],
                           input=json.dumps(c), capture_output=True, text=True, cwd=VERIF,
                           env=dict(os.environ, PYTHONPATH=VERIF + os.pathsep + REPO))
        if p.returncode != 0:
            raise tlc.MachineryError("interpreter for a single case failed: " + p.stderr[-1000:])
        return json.loads(p.stdout.strip().splitlines()[-1])

    with ThreadPoolExecutor(max_workers=min(16, os.cpu_count() or 4)) as ex:
        return list(ex.map(one, cases))


def run(tier: str, seed: int) -> int:
    chk = Check("C15", tier, seed, "model_checking")
    chk.model_check("MC_PipelineObjects", "MC_PipelineObjects.cfg" if tier == "quick" else "MC_PipelineObjects_thorough.cfg")
    from .. import tlc

    neg = tlc.run_tlc("MC_PipelineObjects", "MC_PipelineObjects_negative.cfg", workers=4, check_ok=False)
    if "HistoryFree is violated" not in neg.out:
        raise tlc.MachineryError("negative control: TLC found no counterexample for the pre-repair ownership mechanism")
    for cfg in ("MC_PipelineObjects_negative_tracking.cfg", "MC_PipelineObjects_negative_template.cfg"):
        neg = tlc.run_tlc("MC_PipelineObjects", cfg, workers=4, check_ok=False)
        if "HistoryFree is violated" not in neg.out:
            raise tlc.MachineryError(f"negative control {cfg}: TLC found no counterexample")
    chk.coverage["negative_control"] = {"cfgs": ["MC_PipelineObjects_negative.cfg (items keep their old owner)",
                                                 "MC_PipelineObjects_negative_tracking.cfg (field-mapping tracking survives apply)",
                                                 "MC_PipelineObjects_negative_template.cfg (template item overwrites its template)"],
                                        "refuted": "HistoryFree"}
    # the reference: each probe converted first thing in a newly started interpreter
    fresh = {}
    for kind in PROBES:
        p = subprocess.run(
            [sys.executable, "-c", f"import json; from harness.props.c15 import fresh_result; print(json.dumps(fresh_result({kind!r})))"],
            capture_output=True, text=True, cwd=VERIF, env=dict(os.environ, PYTHONPATH=VERIF + os.pathsep + REPO),
        )
        if p.returncode != 0:
            raise tlc.MachineryError("fresh interpreter failed: " + p.stderr[-1000:])
        fresh[kind] = json.loads(p.stdout.strip().splitlines()[-1])
    cases = chk.generate("Gen_C15")
    for c in cases:
        c["_fresh"] = fresh
    obs = drive("harness.props.c15", "drive_case", [c for c in cases if not c.get("newproc")], chunk=100)
    obs += _drive_each_in_new_process([c for c in cases if c.get("newproc")])
    verdicts = chk.judge("Judge_C15", obs)
    from .. import corrupt as _corrupt

    chk.binding_selftest("Judge_C15", obs, verdicts, _corrupt.c15)
    by_id = {o["id"]: {"history": o["hist"], "probe": o["probe"], "got": [uncps(q) for q in o["got"]["out"]] or o["got"]["exc"], "fresh": [uncps(q) for q in o["fresh"]["out"]] or o["fresh"]["exc"]} for o in obs}
    chk.absorb(verdicts, by_id, {c["id"]: {k: v for k, v in c.items() if k != "_fresh"} for c in cases})
    nontrivial = sum(1 for c in cases if len(c["hist"]) >= 3)
    samples = [by_id[o["id"]] for o in obs[:: max(1, len(obs) // 4)]][:4]
    # ---- the integrated layer: behaviours of spec/System.tla stepped through collections, backend and validator ----
    chk.model_check("MC_System", "MC_System.cfg" if tier == "quick" else "MC_System_thorough.cfg")
    neg = tlc.run_tlc("MC_System", "MC_System_negative.cfg", workers=4, check_ok=False)
    if neg.invariant_violated != "ConvertIdeal":
        raise tlc.MachineryError("negative control MC_System_negative.cfg: a merge that applies the first collection's filters only not refuted")
    chk.coverage["negative_control"]["cfgs"].append("MC_System_negative.cfg (merge applies the filters of the first collection only)")
    scases = chk.generate("Gen_System")
    for c in scases:
        c["id"] += SYS_BASE
    sobs = drive("harness.props.sysmodel", "drive_case", scases, chunk=20)
    sverdicts = chk.judge("Judge_System", sobs)
    chk.binding_selftest("Judge_System", sobs, sverdicts, _corrupt.system)
    chk.coverage["integrated_layer"] = {"behaviours": len(sobs), "calls": sum(len(o["ops"]) for o in sobs)}
    chk.absorb(sverdicts, {o["id"]: {"calls": [dict(op=x["op"], k=x["k"], ds=x["ds"], collect=x["collect"]) for x in o["ops"]],
                                     "observed_after_each_call": o["steps"]} for o in sobs}, {c["id"]: c for c in scases})
    return chk.finish(
        evaluations=len(obs) + len(sobs),
        distinct_nontrivial=nontrivial,
        rule="TLC (Gen_C15) enumerates every enabled history of <=2 (thorough 3) operations after creating backend A over "
        "(class pipeline: set_state, field mapping, strict mapping check; user pipeline: state-gated prefix, rule failure, "
        "placeholders from an external value list with a filter, templated add_condition) {create backend A/B sharing the user pipeline object or not, init pipeline, convert a single rule / a collection "
        "of each kind incl. failures in the pipeline, on a placeholder, on a missing detection and inside negated "
        "not-equals rendering} plus seeded random walks of 3..7 operations, each followed by 5 probe rules (one/two conditions, state-setting, negated, one that names a mapping target "
        "directly and must fail the strict mapping check) on each "
        "existing backend; the reference for every probe is its conversion as the first action of a newly started "
        "interpreter; non-trivial = history of at least 3 operations"
        "; plus behaviours of the integrated layer (spec/System.tla: load in every order / load unresolved and merge / "
        "validate / convert with one backend over two collections, and seeded walks of 7 calls), each call's effect on the "
        "objects validated against the specification's step",
        samples=samples,
        traces=len(obs) + len(sobs),
        exhaustive=False,
    )


SYS_BASE = 50_000_000


def replay(path: str) -> int:
    with open(path) as f:
        first = json.load(f)["cases"][0].get("case") or {}
    if "ops" in first:  # a behaviour of the integrated layer
        return _replay("C15", path, "harness.props.sysmodel", "Judge_System")

    def prepare(chk, cases):
        fresh = {k: fresh_result(k) for k in PROBES}
        for c in cases:
            c["_fresh"] = fresh

    return _replay("C15", path, "harness.props.c15", "Judge_C15", prepare)
