"""C02 - condition text parses to the boolean function it spells.

spec -> code: Gen_C02 (TLC) enumerates condition texts; the driver feeds them to
SigmaCondition.parse() and dumps the resulting tree.
code -> spec: Judge_C02 (TLC) parses the very same text with the reference state
machine of CondLang and compares truth tables over all assignments.
"""
from __future__ import annotations

from ..common import Check, drive, replay as _replay, uncps, cps


def _dump(node, fieldidx):
    from sigma.conditions import (
        ConditionAND,
        ConditionOR,
        ConditionNOT,
        ConditionFieldEqualsValueExpression,
    )

    if node is None:
        return {"k": "none", "i": 0, "args": []}
    if isinstance(node, ConditionFieldEqualsValueExpression):
        return {"k": "leaf", "i": fieldidx[node.field], "args": []}
    if isinstance(node, ConditionAND):
        return {"k": "and", "i": 0, "args": [_dump(a, fieldidx) for a in node.args]}
    if isinstance(node, ConditionOR):
        return {"k": "or", "i": 0, "args": [_dump(a, fieldidx) for a in node.args]}
    if isinstance(node, ConditionNOT):
        return {"k": "not", "i": 0, "args": [_dump(a, fieldidx) for a in node.args]}
    return {"k": "other:" + type(node).__name__, "i": 0, "args": []}


def _parse(names, text, reuse=False):
    """reuse: the rule is loaded with ANOTHER condition (its first detection alone), that condition object is read once,
    then its text is replaced by the case's text - as a pipeline item that rewrites conditions does - and read again
    through the attribute the backends use."""
    from sigma.rule import SigmaRule
    from sigma.exceptions import SigmaError

    det = {n: {f"F{i + 1}": "v"} for i, n in enumerate(names)}
    det["condition"] = names[0] if reuse else text
    fieldidx = {f"F{i + 1}": i + 1 for i in range(len(names))}
    doc = {"title": "t", "logsource": {"category": "test"}, "detection": det}
    ret = {"ok": False, "tree": {"k": "none", "i": 0, "args": []}, "exc": "", "sigma": False}
    try:
        rule = SigmaRule.from_dict(doc)
        if reuse:
            cond = rule.detection.parsed_condition[0]
            cond.parsed  # noqa: B018  (first access)
            cond.condition = text
            tree = cond.parsed
        else:
            tree = rule.detection.parsed_condition[0].parse()
        ret["ok"] = True
        ret["tree"] = _dump(tree, fieldidx)
    except Exception as e:
        ret["exc"] = type(e).__name__
        ret["sigma"] = isinstance(e, SigmaError)
    return ret


SECOND = 10_000_000  # id offset of the second observation of a case


def drive_case(case):
    """Two observations per case, made one after the other in the same process: the text parsed for
    the detections in the given order, then THE SAME TEXT for a second rule whose detections are
    the same names in reverse order (so every name stands for another detection content)."""
    names = [uncps(n) for n in case["names"]]
    text = uncps(case["text"])
    first = {"id": case["id"], "names": case["names"], "text": case["text"], "ret": _parse(names, text)}
    rev = list(reversed(case["names"]))
    # (every other case reads the second rule through a condition object that was read before its text was set)
    second = {"id": case["id"] + SECOND, "names": rev, "text": case["text"],
              "ret": _parse(list(reversed(names)), text, reuse=(case["id"] * 2654435761 >> 8) % 2 == 1)}
    return {"id": case["id"], "both": [first, second]}


def corrupt(o):
    """binding self-test: the recorded tree is put under a NOT"""
    if not o["ret"]["ok"]:
        return None
    o["ret"]["tree"] = {"k": "not", "i": 0, "args": [o["ret"]["tree"]]}
    return o


def run(tier: str, seed: int) -> int:
    chk = Check("C02", tier, seed, "model_checking")
    chk.model_check("MC_Text")
    chk.model_check("MC_CondLang", "MC_CondLang.cfg" if tier == "quick" else "MC_CondLang_thorough.cfg")
    cases = chk.generate("Gen_C02", shards=[1, 2, 3, 4, 5, 6, 7, 8, 9, 10, 11, 12])
    # plus the conditions the repository's own test suite parses (text + detection names as recorded there)
    from ..harvest import harvest

    hv = harvest({"condition"})["condition"]
    harvested = [{"id": 5_000_000 + i, "names": [cps(n) for n in h["names"]], "text": cps(h["text"])} for i, h in enumerate(hv)
                 if all(ord(c) < 2**16 for c in h["text"] + "".join(h["names"]))]
    chk.coverage["harvested_from_repository_tests"] = len(harvested)
    cases = cases + harvested
    obs = [o for pair in drive("harness.props.c02", "drive_case", cases) for o in pair["both"]]
    verdicts = chk.judge("Judge_C02", obs)
    chk.binding_selftest("Judge_C02", obs, verdicts, corrupt)
    by_id = {o["id"]: {"names": [uncps(n) for n in o["names"]], "text": uncps(o["text"]), "ret": o["ret"]} for o in obs}
    raw = {c["id"]: c for c in cases}
    raw.update({c["id"] + SECOND: c for c in cases})
    chk.absorb(verdicts, by_id, raw)
    texts = {(tuple(map(tuple, c["names"])), tuple(c["text"])) for c in cases}
    nontrivial = sum(1 for (_, t) in texts if t.count(32) + t.count(40) >= 2)
    samples = [by_id[o["id"]] for o in obs[:: max(1, len(obs) // 5)]][:5]
    return chk.finish(
        evaluations=len(obs),
        distinct_nontrivial=nontrivial,
        rule="TLC (Gen_C02) enumerates all condition ASTs with <=1 operator over every identifier and every "
        "selector (3 quantifiers x patterns) of 6 detection-name families, all ASTs with <=2 operators "
        "(thorough: <=3 for two families) over a reduced leaf set, plus seeded random ASTs with 3..6 operators, "
        "each printed in up to 4 styles; distinct = distinct (names, text); non-trivial = text with at least "
        "one operator, selector or parenthesis; every text is parsed twice in the same process, for the detections in the "
        "given and in reverse order (a second rule with the same condition text); every observation is judged over all 2^n assignments",
        samples=samples,
        traces=len(obs),
        exhaustive=False,
    )


def replay(path: str) -> int:
    return _replay("C02", path, "harness.props.c02", "Judge_C02")
