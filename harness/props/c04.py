"""C04 - encoding modifiers find the payload in encoded data at every alignment."""
from __future__ import annotations

from ..common import Check, drive, replay as _replay, uncps
from ..serial import dump_value, outcome


def dump_item(item):
    from sigma.conditions import ConditionAND

    return {
        "value": [dump_value(v) for v in item.value],
        "linking": "and" if item.value_linking is ConditionAND else "or",
        "negated": bool(item.negated),
    }


def drive_case(case):
    from sigma.rule.detection import SigmaDetectionItem

    key = "f|" + "|".join(case["chain"])
    src = uncps(case["src"])
    ret = outcome(lambda: dump_item(SigmaDetectionItem.from_mapping(key, src)))
    if not ret["ok"]:
        ret["out"] = {"value": [], "linking": "or", "negated": False}
    return {"id": case["id"], "payload": case["payload"], "chain": case["chain"], "wild": case.get("wild", 0), "ret": ret}


def _pretty(o):
    def val(v):
        if v["t"] == "exp":
            return [val(x) for x in v["vals"]]
        return "".join(chr(c) if c >= 0 else {-1: "<*>", -2: "<?>"}.get(c, "<ph>") for c in v["parts"])

    return {
        "payload": uncps(o["payload"]),
        "key": "f|" + "|".join(o["chain"]),
        "result": [val(v) for v in o["ret"]["out"]["value"]] if o["ret"]["ok"] else o["ret"]["exc"],
    }


def run(tier: str, seed: int) -> int:
    chk = Check("C04", tier, seed, "model_checking")
    chk.model_check("MC_Encoding", "MC_Encoding.cfg" if tier == "quick" else "MC_Encoding_thorough.cfg")
    cases = chk.generate("Gen_C04", shards=list(range(1, 17)))
    obs = drive("harness.props.c04", "drive_case", cases)
    verdicts = chk.judge("Judge_C04", obs)
    from .. import corrupt as _corrupt

    chk.binding_selftest("Judge_C04", obs, verdicts, _corrupt.c04)
    by_id = {o["id"]: _pretty(o) for o in obs}
    chk.absorb(verdicts, by_id, {c["id"]: c for c in cases})
    nontrivial = len({(tuple(c["payload"]), tuple(c["chain"])) for c in cases if len(c["payload"]) >= 2 or (c["payload"] and c["payload"][0] > 127)})
    samples = [by_id[o["id"]] for o in obs[:: max(1, len(obs) // 5)]][:5]
    return chk.finish(
        evaluations=len(obs),
        distinct_nontrivial=nontrivial,
        rule="TLC (Gen_C04) enumerates every payload of 1..3 (thorough 4) characters over {A,b,escaped *,backslash,e-acute,"
        "euro,A-macron,U+1F600} (1-4 UTF-8 bytes each, so every byte length mod 3) plus seeded random payloads of 5-9 "
        "characters, x 13 modifier chains; each recorded value is judged against 15 prefixes x 7 suffixes of neighbour "
        "bytes; non-trivial = more than one character or a non-ASCII character",
        samples=samples,
        traces=len(obs),
        exhaustive=True,
    )


def replay(path: str) -> int:
    return _replay("C04", path, "harness.props.c04", "Judge_C04")
