"""C03 - value modifiers produce exactly the values the specification defines."""
from __future__ import annotations

from fractions import Fraction

from ..common import Check, drive, replay as _replay, uncps
from ..serial import dump_value, outcome
from .c04 import dump_item


def _plain(v, as_float=False):
    if v["t"] == "s":
        return uncps(v["s"])
    if v["t"] == "n":
        n, d = v["num"]
        # (as_float: a whole number written with a decimal point - 1.0 - is the same number for Sigma and another type for Python)
        return (float(n) if as_float else n) if d == 1 else n / d
    if v["t"] == "b":
        return bool(v["b"])
    if v["t"] == "N":
        return int(uncps(v["s"]))
    return None


def drive_case(case):
    from sigma.rule.detection import SigmaDetectionItem

    key = ("f" if case["field"] else "") + "".join("|" + uncps(m) for m in case["chain"])
    vals = [_plain(v, (case["id"] * 2654435761 >> 10) % 2 == 1) for v in case["vals"]]
    value = vals[0] if len(vals) == 1 else vals
    if key == "":
        key = None
    ret = outcome(lambda: dump_item(SigmaDetectionItem.from_mapping(key, value)))
    if not ret["ok"]:
        ret["out"] = {"value": [], "linking": "or", "negated": False}
    else:
        for v in _walk(ret["out"]["value"]):
            if v["t"] == "re":
                v["parts"] = []  # the regular expression is compared as text (s), flags and placeholders
    return {"id": case["id"], "vals": case["vals"], "chain": case["chain"], "field": case["field"], "ret": ret}


def _src(v):
    from ..serial import num_of

    if isinstance(v, bool):
        return {"t": "b", "s": [], "num": [0, 1], "b": v}
    if isinstance(v, (int, float)):
        return {"t": "n", "s": [], "num": num_of(v), "b": False}
    if isinstance(v, str):
        return {"t": "s", "s": [ord(c) for c in v], "num": [0, 1], "b": False}
    return {"t": "null", "s": [], "num": [0, 1], "b": False}


HARVEST_BASE = 9_000_000


def harvested_observations():
    """Calls of SigmaDetectionItem.from_mapping made by the repository's own tests, with the results
    observed in the test process (harness/harvest_plugin.py), in the observation format of Judge_C03."""
    from ..harvest import harvest

    obs = []
    for i, m in enumerate(harvest({"mapping"})["mapping"]):
        key = m["key"]
        name, _, mods = (key or "").partition("|")
        vals = m["val"] if m["islist"] else [m["val"]]
        if any(isinstance(v, float) and (v != v or abs(v) == float("inf")) for v in vals):
            continue
        ret = m["ret"]
        if not ret["ok"]:
            ret["out"] = {"value": [], "linking": "or", "negated": False}
        else:
            for v in _walk(ret["out"]["value"]):
                if v["t"] == "re":
                    v["parts"] = []
        ret["msg"] = []
        obs.append({"id": HARVEST_BASE + i, "vals": [_src(v) for v in vals], "chain": [[ord(c) for c in x] for x in mods.split("|") if mods],
                    "field": bool(key is not None and name != ""), "ret": ret})
    return obs


def _walk(vs):
    for v in vs:
        yield v
        yield from _walk(v["vals"])


def _pretty(o):
    def val(v):
        if v["t"] == "exp":
            return [val(x) for x in v["vals"]]
        if v["t"] in ("str", "cased"):
            return v["t"] + ":" + "".join(chr(c) if c >= 0 else {-1: "<*>", -2: "<?>"}.get(c, "<ph>") for c in v["parts"]) + ("" if not v["phs"] else " phs=" + ",".join(uncps(p) for p in v["phs"]))
        return {k: (uncps(x) if k == "s" else x) for k, x in v.items() if k in ("t", "num", "b", "s", "flags") and x not in ([], False)}

    return {
        "key": ("f" if o["field"] else "") + "".join("|" + uncps(m) for m in o["chain"]),
        "value": [_plain(v) for v in o["vals"]],
        "result": ({"value": [val(v) for v in o["ret"]["out"]["value"]], "linking": o["ret"]["out"]["linking"], "negated": o["ret"]["out"]["negated"]} if o["ret"]["ok"] else o["ret"]["exc"]),
    }


def corrupt(o):
    """binding self-test: the recorded value linking is flipped"""
    if not o["ret"]["ok"]:
        return None
    o["ret"]["out"]["linking"] = "and" if o["ret"]["out"]["linking"] == "or" else "or"
    return o


def run(tier: str, seed: int) -> int:
    chk = Check("C03", tier, seed, "model_checking")
    chk.model_check("MC_Modifiers", "MC_Modifiers.cfg" if tier == "quick" else "MC_Modifiers_thorough.cfg")
    cases = chk.generate("Gen_C03", shards=list(range(0, 34)))
    obs = drive("harness.props.c03", "drive_case", cases)
    hv = harvested_observations()
    chk.coverage["harvested_from_repository_tests"] = len(hv)
    obs += hv
    cases = cases + [{"id": o["id"], "vals": o["vals"], "chain": o["chain"], "field": o["field"]} for o in hv]
    verdicts = chk.judge("Judge_C03", obs)
    chk.binding_selftest("Judge_C03", obs, verdicts, corrupt)
    by_id = {o["id"]: _pretty(o) for o in obs}
    counts = chk.absorb(verdicts, by_id, {c["id"]: c for c in cases})
    st = {}
    for v in verdicts:
        st[v["st"]] = st.get(v["st"], 0) + 1
    chk.coverage["spec_status"] = st
    nontrivial = sum(1 for c in cases if len(c["chain"]) >= 1)
    samples = [by_id[o["id"]] for o in obs[:: max(1, len(obs) // 5)]][:5]
    return chk.finish(
        evaluations=len(obs),
        distinct_nontrivial=nontrivial,
        rule="TLC (Gen_C03) enumerates 44 seed values (32 strings with wildcards, escapes, dashes at/off word boundaries, "
        "percent signs, regex edges, CIDR texts, non-ASCII; numbers, bools, null; 5 lists) x every modifier chain of "
        "length <=2 over the full 33-entry table (admissible and inadmissible), chains of length 3 (quick: seeded "
        "sample; thorough: all over 30 names) and seeded chains of length 4 over 10 core values; distinct by "
        "construction; non-trivial = at least one modifier; plus every distinct SigmaDetectionItem.from_mapping call the "
        "repository's own test suite makes, with the result observed inside the test run (harness/harvest_plugin.py)",
        samples=samples,
        traces=len(obs),
        exhaustive=True,
    )


def replay(path: str) -> int:
    return _replay("C03", path, "harness.props.c03", "Judge_C03")
