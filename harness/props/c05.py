"""C05 - string values keep their exact characters and wildcards in every rendering.

TLC (Gen_C05) enumerates source strings and field names; the driver records what the
public API makes of them (parts, plain form and its re-parse, target renderings for a
family of escaping configurations, regex form + the set of subjects Python's `re`
matches, slices, quoted field names); TLC (Judge_C05) decodes each rendering with the
target language's own rules (spec/SigmaStr.tla) and compares with the source's parts.
"""
from __future__ import annotations

import itertools
import json
import re

from ..common import Check, drive, replay as _replay, uncps, cps, read_ndjson

_CFG = None
_BACKENDS = {}


def _cfg(path):
    global _CFG
    if _CFG is None:
        with open(path) as f:
            _CFG = json.load(f)
    return _CFG


def _parts(s):
    from sigma.types import SpecialChars, Placeholder

    out = []
    for p in s.s:
        if isinstance(p, str):
            out += [ord(c) for c in p]
        elif p == SpecialChars.WILDCARD_MULTI:
            out.append(-1)
        elif p == SpecialChars.WILDCARD_SINGLE:
            out.append(-2)
        else:
            out.append(-3)
    return out


def _res(fn):
    from sigma.exceptions import SigmaError

    try:
        return {"ok": True, "out": fn(), "exc": "", "sigma": False}
    except Exception as e:
        return {"ok": False, "out": [], "exc": type(e).__name__, "sigma": isinstance(e, SigmaError)}


def _str_backend(i, K):
    key = ("s", i)
    if key not in _BACKENDS:
        from sigma.backends.test import TextQueryTestBackend

        attrs = dict(
            escape_char=chr(K["esc"]) if K["esc"] >= 0 else None,
            wildcard_multi=uncps(K["wm"]) if K["wm"] else None,
            wildcard_single=uncps(K["ws"]) if K["ws"] else None,
            add_escaped=uncps(K["add"]),
            filter_chars=uncps(K["filt"]),
            str_quote=chr(K["quote"]) if K["quote"] >= 0 else "",
            str_quote_pattern=re.compile(r"^.*\s") if K.get("cq") else None,
            str_quote_pattern_negation=False,
        )
        _BACKENDS[key] = type(f"StrBackend{i}", (TextQueryTestBackend,), attrs)()
    return _BACKENDS[key]


def _field_backend(i, FK):
    key = ("f", i)
    if key not in _BACKENDS:
        from sigma.backends.test import TextQueryTestBackend

        q = chr(FK["quote"]) if FK["quote"] >= 0 else None
        esc_chars = [chr(c) for c in FK["escset"]]
        attrs = dict(
            field_quote=q,
            field_quote_pattern=None if FK["always"] else re.compile("^\\w+$"),
            field_quote_pattern_negation=True,
            field_escape=chr(FK["esc"]) if FK["esc"] >= 0 else None,
            field_escape_quote=True,
            field_escape_pattern=re.compile("[" + "".join(re.escape(c) for c in esc_chars) + "]"),
        )
        _BACKENDS[key] = type(f"FieldBackend{i}", (TextQueryTestBackend,), attrs)()
    return _BACKENDS[key]


_RX_BACKENDS = {}


def _regex_paths(src, delim):
    """[cased, wildcard match, keyword]: the text between the marks of the regular-expression literal in the query each
    path produces (an empty list for a path the value does not take)."""
    from sigma.rule import SigmaRule

    if delim not in _RX_BACKENDS:
        from sigma.backends.test import TextQueryTestBackend
        from sigma.processing.pipeline import ProcessingPipeline

        M = "\u00a6"
        _RX_BACKENDS[delim] = type("RegexPathsBackend", (TextQueryTestBackend,), dict(
            add_escaped_re=delim, re_escape=(), re_escape_escape_char=False, backend_processing_pipeline=ProcessingPipeline(),
            case_sensitive_match_expression="{field} CS " + M + "{regex}" + M,
            case_sensitive_startswith_expression=None, case_sensitive_endswith_expression=None, case_sensitive_contains_expression=None,
            startswith_expression=None, endswith_expression=None, contains_expression=None,
            wildcard_match_expression="{field} WM " + M + "{regex}" + M,
            unbound_value_str_expression="KW " + M + "{regex}" + M,
        ))
    cls = _RX_BACKENDS[delim]
    out = []
    for det in ({"f|cased": src}, {"f": src}, [src]):
        q = cls().convert_rule(SigmaRule.from_dict({"title": "t", "logsource": {"category": "c"}, "detection": {"sel": det, "condition": "sel"}}))
        parts = q[0].split("\u00a6")
        out.append(cps(parts[1]) if len(parts) == 3 else [0 - 1])
    return out


def drive_case(case):
    from sigma.types import SigmaString, SpecialChars
    from sigma.conversion.state import ConversionState

    cfg = _cfg(case["_cfg"])
    if case["kind"] == "field":
        name = uncps(case["name"])
        outs = []
        for i, FK in enumerate(cfg["field"]):
            b = _field_backend(i, FK)
            outs.append(_res(lambda: cps(b.escape_and_quote_field(name))))
        return {"id": case["id"], "kind": "field", "name": case["name"], "outs": outs}
    src = uncps(case["src"])
    s = SigmaString(src)
    o = {"id": case["id"], "kind": "str", "src": case["src"], "ks": case["ks"], "subj": case["subj"]}
    o["parts"] = _parts(s)
    o["len"] = len(s)
    plain = _res(lambda: cps(s.to_plain()))
    o["plain"] = plain
    o["plain_parts"] = _res(lambda: _parts(SigmaString(uncps(plain["out"])))) if plain["ok"] else plain
    o["conv"] = []
    o["val"] = []
    o["val2"] = []
    for k in case["ks"]:
        K = cfg["str"][k - 1]
        esc = chr(K["esc"]) if K["esc"] >= 0 else None
        q = chr(K["quote"]) if K["quote"] >= 0 else ""
        o["conv"].append(
            _res(lambda: cps(s.convert(esc, uncps(K["wm"]) if K["wm"] else None, uncps(K["ws"]) if K["ws"] else None, q + uncps(K["add"]), uncps(K["filt"]))))
        )
        b = _str_backend(k, K)
        o["val"].append(_res(lambda: cps(b.convert_value_str(s, ConversionState()))))
        # the same value as a DERIVED string object (wildcards put around it as the contains modifier does, then
        # sliced off again as the backend does for its contains operator): same parts, same literal
        o["val2"].append(_res(lambda: cps(b.convert_value_str((SpecialChars.WILDCARD_MULTI + s + SpecialChars.WILDCARD_MULTI)[1:-1], ConversionState()))))
    # regex form: ground truth is Python's re on every subject <= 3 over the case's alphabet
    alpha = [chr(c) for c in case["subj"]]
    subjects = ["".join(t) for n in range(4) for t in itertools.product(alpha, repeat=n)]

    def rx():
        r = str(s.to_regex().regexp)
        c = re.compile(r, re.DOTALL)
        return [cps(u) for u in subjects if c.fullmatch(u)]

    o["re_matches"] = _res(rx)
    # the SAME value object rendered once more as a regular expression, now for a literal with a delimiter
    delim = chr(case["rdelim"])

    def rd():
        r = str(s.to_regex(delim).regexp)
        c = re.compile(r, re.DOTALL)
        return {"text": cps(r), "matches": [cps(u) for u in subjects if c.fullmatch(u)]}

    o["rdelim"] = case["rdelim"]
    o["rd"] = _res(rd)
    # ... and the way a backend does it for a target that wants the delimiter AND the escape character escaped
    # (re_escape = [delimiter], re_escape_escape_char): the text that goes between the delimiters
    o["rdesc"] = _res(lambda: {"esc": cps(s.to_regex().escape([delim], "\\", True, False)), "plain": cps(str(s.to_regex().regexp))})
    # ... and the same through a BACKEND whose templates put the regular-expression form into a literal delimited by that
    # character (add_escaped_re), on every path that has the form as template variable: the case-sensitive one, the
    # wildcard match, the unbound keyword
    o["rdpaths"] = _res(lambda: _regex_paths(src, delim))
    # the regex transformation of processing pipelines (three methods)
    from sigma.processing.transformations import RegexTransformation
    from sigma.types import SigmaRegularExpression, SigmaRegularExpressionFlag

    alpha_ci = [chr(c) for c in case["subjci"]]
    subjects_ci = ["".join(t) for n in range(4) for t in itertools.product(alpha_ci, repeat=n)]

    def rxt(method, subs):
        def go():
            r = RegexTransformation(method=method).apply_string_value(None, SigmaString(src))
            if not isinstance(r, SigmaRegularExpression):
                return [[-7]]  # not converted (documented for the empty string)
            flags = re.DOTALL | (re.IGNORECASE if SigmaRegularExpressionFlag.IGNORECASE in r.flags else 0)
            c = re.compile(str(r.regexp), flags)
            return [cps(u) for u in subs if c.fullmatch(u)]

        return go

    o["subjci"] = case["subjci"]
    o["rxt"] = [_res(rxt("plain", subjects)), _res(rxt("ignore_case_flag", subjects_ci)), _res(rxt("ignore_case_brackets", subjects_ci))]
    o["slices"] = [
        _res(lambda: _parts(s[1:])),
        _res(lambda: _parts(s[:-1])),
        _res(lambda: _parts(s[1:-1])),
    ]
    return o


def run(tier: str, seed: int) -> int:
    chk = Check("C05", tier, seed, "model_checking")
    chk.model_check("MC_Text")
    chk.model_check("MC_SigmaStr", "MC_SigmaStr.cfg" if tier == "quick" else "MC_SigmaStr_thorough.cfg")
    # results remembered on a value object between renderings for different targets
    chk.model_check("MC_Memo")
    from .. import tlc

    neg = tlc.run_tlc("MC_Memo", "MC_Memo_negative.cfg", workers=2, check_ok=False)
    if neg.invariant_violated != "AnswersTheRequest":
        raise tlc.MachineryError("negative control MC_Memo_negative.cfg: a memo keyed by the object alone not refuted")
    chk.coverage["negative_control_memo"] = {"cfg": "MC_Memo_negative.cfg (the memo is keyed by the object alone, not by the parameters of the request)",
                                             "refuted_invariant": neg.invariant_violated}
    cfgpath = chk.path("c05_cfg.json")
    cases = chk.generate("Gen_C05", shards=[1, 2, 3, 4], env={"VERIF_OUT2": cfgpath})
    # plus the texts the repository's own tests build Sigma strings from
    from ..harvest import harvest

    hv = sorted({h["text"] for h in harvest({"string"})["string"] if 0 < len(h["text"]) <= 24})
    hpath = chk.path("c05_harvest.ndjson")
    with open(hpath, "w") as f:
        for t in hv:
            f.write(json.dumps({"src": cps(t)}) + "\n")
    hcases = chk.generate("Gen_C05", shards=[5], env={"VERIF_OUT2": cfgpath, "VERIF_IN": hpath}) if hv else []
    chk.coverage["harvested_from_repository_tests"] = len(hcases)
    cases += hcases
    for c in cases:
        c["_cfg"] = cfgpath
    obs = drive("harness.props.c05", "drive_case", cases)
    verdicts = chk.judge("Judge_C05", obs)
    from .. import corrupt as _corrupt

    chk.binding_selftest("Judge_C05", obs, verdicts, _corrupt.c05)

    def pretty(o):
        if o["kind"] == "field":
            return {"field": uncps(o["name"]), "outs": [uncps(x["out"]) if x["ok"] else x["exc"] for x in o["outs"]]}
        return {
            "src": uncps(o["src"]),
            "parts": o["parts"],
            "plain": uncps(o["plain"]["out"]),
            "plain_parts": o["plain_parts"]["out"],
            "conv": {k: (uncps(x["out"]) if x["ok"] else x["exc"]) for k, x in zip(o["ks"], o["val"])},
            "slices": [x["out"] if x["ok"] else x["exc"] for x in o["slices"]],
        }

    by_id = {o["id"]: pretty(o) for o in obs}
    chk.absorb(verdicts, by_id, {c["id"]: c for c in cases})
    nontrivial = sum(
        1
        for o in obs
        if (o["kind"] == "str" and any(c in (92, 42, 63, 34, 39, 58, 38, 94, 46, 37, 95, 32) for c in o["src"]))
        or (o["kind"] == "field" and any(c in (32, 96, 92, 46) for c in o["name"]))
    )
    samples = [by_id[o["id"]] for o in obs[:: max(1, len(obs) // 5)]][:5]
    return chk.finish(
        evaluations=len(obs),
        distinct_nontrivial=nontrivial,
        rule="TLC (Gen_C05) enumerates every source string up to length 4 (thorough 5-6) over the alphabet of each "
        "of 3 configuration groups (7 escaping configurations), seeded random strings up to length 10, and every "
        "field name up to length 4 (thorough 5) over {a,space,`,\\,.,_} x 3 field-quoting configurations; distinct by "
        "construction (sets); non-trivial = contains at least one character with a meaning in Sigma or in the target",
        samples=samples,
        traces=len(obs),
        exhaustive=True,
    )


def replay(path: str) -> int:
    def prepare(chk, cases):
        cfgpath = chk.path("c05_cfg.json")
        chk.generate("Gen_C05", shards=[4], env={"VERIF_OUT2": cfgpath})
        for c in cases:
            c["_cfg"] = cfgpath

    return _replay("C05", path, "harness.props.c05", "Judge_C05", prepare)
