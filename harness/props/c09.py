"""C09 - rule references resolve the same way whatever the document order."""
from __future__ import annotations

import os
import shutil
import tempfile

from ..common import Check, drive, uncps, cps
from ..serial import outcome

PATHS = ("yaml", "dicts", "merge", "mergegen", "files", "file1", "hexnames")


def uuid_of(k: int) -> str:
    return f"00000000-0000-4000-8000-{k:012d}"


def name_of(k, hexnames=False):
    """A rule name; hexnames: a name that happens to read as a UUID (32 hexadecimal digits) - still a name."""
    return "deadbeefdeadbeefdeadbeef%08x" % k if hexnames else f"n{k}"


def doc_dict(d, hexnames=False):
    base = {"title": f"D{d['id']}", "name": name_of(d["name"], hexnames), "id": uuid_of(d["uid"])}
    if d["kind"] == "rule":
        base.update({"logsource": {"category": "t"}, "detection": {"sel": {"f": f"v{d['id']}"}, "condition": "sel"}})
    else:
        refs = [name_of(r["key"], hexnames) if r["by"] == "name" else uuid_of(r["key"]) for r in d["refs"]]
        base["correlation"] = {
            "type": "event_count",
            "rules": refs,
            "group-by": ["g"],
            "timespan": "5m",
            "condition": {"gte": 1},
            "generate": bool(d["generate"]),
        }
        if d.get("arefs"):
            base["correlation"]["aliases"] = {"al": {(name_of(r["key"], hexnames) if r["by"] == "name" else uuid_of(r["key"])): "f" for r in d["arefs"]}}
    return base


def run_one(docs, perm, path):
    import yaml
    from sigma.collection import SigmaCollection
    from sigma.backends.test import TextQueryTestBackend
    from sigma.exceptions import SigmaError

    dicts = [doc_dict(docs[i - 1], path == "hexnames") for i in perm]
    r = {"perm": perm, "path": path, "grp": 1 if path == "hexnames" else 0, "ok": False, "exc": "", "sigma": False, "stage": "load", "order": [], "order0": [], "events": [], "out": []}
    tmp = None
    try:
        if path == "yaml":
            coll = SigmaCollection.from_yaml(yaml.safe_dump_all(dicts))
        elif path in ("dicts", "hexnames"):
            coll = SigmaCollection.from_dicts(dicts)
        elif path == "merge":
            coll = SigmaCollection.merge([SigmaCollection.from_dicts([d], resolve_references=False) for d in dicts])
        elif path == "mergegen":  # merge() takes any iterable: here a generator
            coll = SigmaCollection.merge(SigmaCollection.from_dicts([d], resolve_references=False) for d in dicts)
        elif path == "file1":  # load_ruleset with ONE file that holds all documents
            tmp = tempfile.mkdtemp(prefix="verif_c09_")
            p = os.path.join(tmp, "all.yml")
            with open(p, "w") as f:
                yaml.safe_dump_all(dicts, f)
            coll = SigmaCollection.load_ruleset([p])
        else:
            tmp = tempfile.mkdtemp(prefix="verif_c09_")
            files = []
            for k, d in enumerate(dicts):
                p = os.path.join(tmp, f"{k:02d}.yml")
                with open(p, "w") as f:
                    yaml.safe_dump(d, f)
                files.append(p)
            coll = SigmaCollection.load_ruleset(files)
        r["order"] = [int(rule.title[1:]) for rule in coll.rules]
        r["order0"] = list(r["order"])  # SigmaCollection.rules as the loader left it
        r["stage"] = "convert"
        events = []

        def cb(rule, fmt, index, cond, result):
            events.append(int(rule.title[1:]))
            return result

        out = TextQueryTestBackend().convert(coll, callback=cb)
        # the order the backend converted in (convert() resolves and orders again)
        r["order"] = [int(rule.title[1:]) for rule in coll.rules]
        r["events"] = events
        r["out"] = [cps(q) for q in out]
        r["ok"] = True
    except Exception as e:  # noqa: BLE001
        r["exc"] = type(e).__name__
        r["sigma"] = isinstance(e, SigmaError)
    finally:
        if tmp:
            shutil.rmtree(tmp, ignore_errors=True)
    return r


def drive_case(case):
    runs = [run_one(case["docs"], perm, path) for perm in case["perms"] for path in PATHS]
    return {"id": case["id"], "docs": case["docs"], "runs": runs}


def run(tier: str, seed: int) -> int:
    chk = Check("C09", tier, seed, "model_checking")
    chk.model_check("MC_Collection", "MC_Collection.cfg" if tier == "quick" else "MC_Collection_thorough.cfg")
    # negative control: the ordering used before the repair must be refuted by TLC
    from .. import tlc

    neg = tlc.run_tlc("MC_Collection", "MC_Collection_negative.cfg", workers=4, check_ok=False)
    if neg.invariant_violated is None:
        raise tlc.MachineryError("negative control: TLC found no counterexample for the partial-order sort")
    chk.coverage["negative_control"] = {"cfg": "MC_Collection_negative.cfg", "refuted_invariant": neg.invariant_violated}
    cases = chk.generate("Gen_C09")
    # one work item per (shape, slice of permutations) so that the pool is busy
    items = []
    for c in cases:
        step = 30
        for k in range(0, len(c["perms"]), step):
            items.append({"id": c["id"] * 1000 + k // step, "docs": c["docs"], "perms": c["perms"][k : k + step]})
    part = drive("harness.props.c09", "drive_case", items, chunk=2)
    merged = {}
    for o in part:
        m = merged.setdefault(o["id"] // 1000, {"id": o["id"] // 1000, "docs": o["docs"], "runs": []})
        m["runs"] += o["runs"]
    obs = list(merged.values())
    verdicts = chk.judge("Judge_C09", obs, nshards=len(obs))
    from .. import corrupt as _corrupt

    chk.binding_selftest("Judge_C09", obs, verdicts, _corrupt.c09)
    by_id = {}
    for o in obs:
        by_id[o["id"]] = {"docs": [doc_dict(d) for d in o["docs"]], "runs": len(o["runs"])}
    for v in verdicts:
        if v["v"] != "ok" and v["run"] > 0:
            r = merged[v["id"]]["runs"][v["run"] - 1]
            by_id[v["id"]] = dict(by_id[v["id"]], failing_run={k: (r[k] if k != "out" else [uncps(q) for q in r[k]]) for k in r}, runs_failing=v["nbad"])
    chk.absorb(verdicts, by_id, {c["id"]: c for c in cases})
    nruns = sum(len(o["runs"]) for o in obs)
    distinct = len({(o["id"], tuple(r["perm"]), r["path"]) for o in obs for r in o["runs"] if list(r["perm"]) != sorted(r["perm"])})
    sample = merged[1]["runs"][5]
    return chk.finish(
        evaluations=nruns,
        distinct_nontrivial=distinct,
        rule="TLC (Gen_C09) emits 12 rule-set shapes (plain rules, correlation rules by name/id, chains of depth <=3, "
        "shared and unrelated rules, generate on/off, one missing reference) with ALL permutations of <=4 (thorough <=6) "
        "documents and a seeded sample of larger ones; each permutation is loaded through 4 paths (from_yaml, from_dicts, "
        "merge, load_ruleset) and converted; one evaluation = one (shape, permutation, path) run = one trace; "
        "non-trivial = any order other than the identity",
        samples=[{"docs": [doc_dict(d) for d in merged[1]["docs"]], "run": {k: (sample[k] if k != "out" else [uncps(q) for q in sample[k]]) for k in sample}}],
        traces=nruns,
        exhaustive=True,
    )


def replay(path: str) -> int:
    import json

    with open(path) as f:
        rp = json.load(f)
    bad = 0
    for c in rp["cases"]:
        case = c.get("case")
        if not case:
            continue
        o = drive_case(case)
        chk = Check("C09", "quick", 0, "exploration", fresh=False)
        v = chk.judge("Judge_C09", [o], nshards=1)
        chk.cleanup()
        print(json.dumps(v))
        bad += sum(1 for x in v if x["v"] != "ok")
    if bad:
        print(f"VIOLATION property=C09 replay={path}")
    return 1 if bad else 0
