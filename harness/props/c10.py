"""C10 - correlation queries carry every element of the correlation rule faithfully."""
from __future__ import annotations

import copy

from ..common import Check, drive, replay as _replay, uncps, cps
from ..serial import outcome
from ..backend import make_backend

RS, US, GS = "\x1e", "\x1f", "\x1d"
UIDS = [f"00000000-0000-4000-8000-00000000000{k}" for k in (1, 2, 3, 4, 5)]
RULES = [
    {"title": "R1", "name": "r1", "id": UIDS[0], "logsource": {"category": "c", "product": "windows"}, "detection": {"sel": {"fieldA": "v1"}, "condition": "sel"}},
    {"title": "R2", "name": "r2", "id": UIDS[1], "logsource": {"category": "c"}, "detection": {"sel": {"fieldX": "v2"}, "other": {"g1": 2}, "condition": ["sel", "sel and not other"]}},
    {"title": "R3", "id": UIDS[2], "logsource": {"category": "c"}, "detection": {"sel": {"fieldA|contains": "v3"}, "condition": "sel"}},
    {"title": "R4", "name": "r4", "id": UIDS[3], "logsource": {"category": "c"}, "detection": {"sel": {"fieldB": ["v4", "w4"]}, "condition": "sel"}},
    # rule 5 is itself a correlation rule (over rule 1): a correlation rule may be referred to like any other rule
    {"title": "R5", "name": "r5", "id": UIDS[4], "correlation": {"type": "event_count", "rules": ["r1"], "group-by": ["g1"], "timespan": "1h", "condition": {"gte": 3}}},
]
TYPES = ["event_count", "value_count", "temporal", "temporal_ordered", "value_sum", "value_avg", "value_percentile", "value_median"]


def K_of(B):
    m = "m"
    extra = dict(
        correlation_methods={m: "verif"},
        default_correlation_method=m,
        default_correlation_query={m: "{search}" + RS + "{typing}" + RS + "{aggregate}" + RS + "{condition}"},
        correlation_search_single_rule_expression="SINGLE" + GS + "{ruleid}" + GS + "{query}" + GS + "{normalization}",
        correlation_search_multi_rule_expression="MULTI" + US + "{queries}",
        correlation_search_multi_rule_query_expression="{ruleid}" + GS + "{query}" + GS + "{normalization}",
        correlation_search_multi_rule_query_expression_joiner=US,
        groupby_expression={m: "{fields}"},
        groupby_field_expression={m: "{field}"},
        groupby_field_expression_joiner={m: ","},
        groupby_expression_nofield={m: "-"},
        referenced_rules_expression={m: "{ruleid}"},
        referenced_rules_expression_joiner={m: ","},
        extended_correlation_condition_rule_reference_expression={m: "`{ruleid}`:exists:"},
        finalize_correlation_subqueries=bool(B["optin"]),
        timespan_seconds=B["tsmode"] == "sec",
        timespan_mapping={"m": "min", "h": "hr"} if B["tsmode"] == "map" else None,
    )
    for t in TYPES:
        extra[t + "_aggregation_expression"] = {m: t + GS + "{timespan}" + GS + "{groupby}" + GS + "{field}" + GS + "{percentile}" + GS + "{referenced_rules}"}
        extra[t + "_condition_expression"] = {m: "{op}" + GS + "{count}" + GS + "{field}" + GS + "{referenced_rules}"}
    for t in ("temporal_extended", "temporal_ordered_extended"):
        base = t.replace("_extended", "")
        extra[t + "_aggregation_expression"] = {m: base + GS + "{timespan}" + GS + "{groupby}" + GS + GS + GS + "{referenced_rules}"}
        extra[t + "_condition_expression"] = {m: "EXT" + GS + "{extended_condition}"}
    if B["typing"]:
        extra.update(typing_expression="TYPING" + US + "{queries}", typing_rule_query_expression="{ruleid}" + GS + "{query}", typing_rule_query_expression_joiner=US)
    if B["norm"]:
        extra.update(correlation_search_field_normalization_expression="{alias}={field}", correlation_search_field_normalization_expression_joiner=";")
    return dict(prec=["not", "and", "or"], paren=False, sep=1, orin=False, andin=False, inwild=False, sw=False, ew=False, ct=False, wm=False,
                cs="full", nexists=True, cidr=False, noteq=False, allowspecial=False, _extra=extra)


def pipeline_dict(B):
    d = {"name": "c10", "priority": 10, "transformations": [], "postprocessing": [{"type": "embed", "prefix": "<", "suffix": ">"}]}
    if B["pipe"] in ("rename", "rename_win"):
        d["transformations"].append({"type": "field_name_mapping", "mapping": {"g1": "G1", "fieldA": "FA", "fieldX": "FX", "f": "F"}})
    if B["pipe"] == "rename_win":  # ... for windows rules only
        d["transformations"][-1]["rule_conditions"] = [{"type": "logsource", "product": "windows"}]
    return d


def ref_text(k):
    return RULES[k - 1].get("name") or RULES[k - 1]["id"]


def corr_doc(c, alias_by_id=False):
    d = {"type": uncps(c["type"]), "timespan": f"{c['ts']['count']}{chr(c['ts']['unit'])}", "generate": bool(c["generate"])}
    cond = c["cond"]
    if cond["kind"] == "ext":
        d["condition"] = uncps(cond["expr"])
        if c.get("explicit"):  # an explicit rules list next to the extended condition
            d["rules"] = [ref_text(k) for k in c["refs"]]
    else:
        d["rules"] = [ref_text(k) for k in c["refs"]]
        cd = {cond["op"]: cond["count"] + (0.5 if cond.get("frac") else 0)}
        if cond["hasfield"]:
            cd["field"] = uncps(cond["field"])
        if cond["haspct"]:
            cd["percentile"] = cond["pct"] + (0.5 if cond.get("frac") else 0)
        d["condition"] = cd
    if c["hasgroup"]:
        d["group-by"] = [uncps(g) for g in c["groupby"]]
    if c["aliases"]:
        # alias mappings may name a rule by its id although the rules list names it by its name
        d["aliases"] = {uncps(a["alias"]): {(RULES[k - 1]["id"] if alias_by_id else ref_text(k)): uncps(f) for k, f in a["map"]} for a in c["aliases"]}
    return {"title": "C", "name": "corr", "correlation": d}


def drive_case(case):
    from sigma.collection import SigmaCollection
    from sigma.processing.pipeline import ProcessingPipeline

    c, B = case["c"], case["B"]
    K = K_of(B)

    def conv(docs):
        def go():
            b = make_backend(K, ProcessingPipeline.from_dict(pipeline_dict(B)))
            return [cps(q) for q in b.convert(SigmaCollection.from_dicts(copy.deepcopy(docs)))]

        return go

    used = sorted(set(c["refs"]))
    alone = [outcome(conv([RULES[k]]))["out"] for k in range(4)] + [outcome(conv([RULES[0], RULES[4]]))["out"][-1:]]
    docs = [RULES[k - 1] for k in used]
    if 5 in used and 1 not in used:
        docs = [RULES[0]] + docs
    ret = outcome(conv(docs + [corr_doc(c, case["id"] % 2 == 1)]))
    return {"id": case["id"], "c": c, "B": B, "uids": [cps(u) for u in UIDS], "alone": alone, "ret": ret}


def _pretty(o):
    vis = lambda s: s.replace(RS, " ¦RS¦ ").replace(US, " ¦US¦ ").replace(GS, " ¦GS¦ ")
    return {
        "correlation": corr_doc(o["c"])["correlation"],
        "backend": o["B"],
        "result": [vis(uncps(q)) for q in o["ret"]["out"]] if o["ret"]["ok"] else o["ret"]["exc"] + ": " + uncps(o["ret"]["msg"]),
    }


def run(tier: str, seed: int) -> int:
    chk = Check("C10", tier, seed, "model_checking")
    chk.model_check("MC_Correlation")
    cases = chk.generate("Gen_C10")
    obs = drive("harness.props.c10", "drive_case", cases, chunk=50)
    verdicts = chk.judge("Judge_C10", obs)
    from .. import corrupt as _corrupt

    chk.binding_selftest("Judge_C10", obs, verdicts, _corrupt.c10)
    by_id = {o["id"]: _pretty(o) for o in obs}
    chk.absorb(verdicts, by_id, {c["id"]: c for c in cases})
    samples = [by_id[o["id"]] for o in obs[:: max(1, len(obs) // 4)]][:4]
    return chk.finish(
        evaluations=len(obs),
        distinct_nontrivial=len(obs),
        rule="TLC (Gen_C10) enumerates (A) all 8 correlation types x 6 condition operators x 7 timespan units with counts, "
        "reference sets, group-by/alias variants, generate and backend template sets chosen by index; (B) every one of 48 "
        "backend template sets (timespan mapped / seconds / passthrough, typing, normalisation, sub-query finalisation opt-in, "
        "field-renaming pipeline) x 6 reference sets (1-4 rules, by name or id, one- and two-condition rules) x 3 group-by / "
        "alias variants; (C) 8 extended boolean conditions x 2 print styles x 2 temporal types; every case is distinct and "
        "non-trivial",
        samples=samples,
        traces=len(obs),
        exhaustive=False,
    )


def replay(path: str) -> int:
    return _replay("C10", path, "harness.props.c10", "Judge_C10")
