"""C19 - validation only observes: it is exact about references and changes nothing."""
from __future__ import annotations

import itertools
import json
from pathlib import Path

from ..common import Check, drive, replay as _replay, uncps, cps

ISSUE_T = {
    "DanglingDetectionIssue": ("dangling_detection", "detection_name"),
    "DanglingConditionIssue": ("dangling_condition", "condition_name"),
    "IdentifierCollisionIssue": ("identifier_uniqueness", None),
    "DuplicateTitleIssue": ("duplicate_title", None),
    "DuplicateFilenameIssue": ("duplicate_filename", None),
}


def uuid_of(k):
    return f"00000000-0000-4000-8000-{k:012d}"


def rule_dict(r, idx):
    body = r.get("body", "map")

    def one(i):
        if body == "maps":  # nested detections, with values the value validators have something to say about
            return [{f"F{i + 1}": "v", f"G{i + 1}": "4711"}, {f"H{i + 1}|contains": "x**y"}]
        if body == "keywords":
            return [f"kw{i + 1}", "other*"]
        return {f"F{i + 1}": "v"}

    det = {uncps(n): one(i) for i, n in enumerate(r["names"])}
    conds = [uncps(c) for c in r["conds"]]
    det["condition"] = conds[0] if len(conds) == 1 else conds
    # (log source and a numeric EventID vary with the rule's directory / file number: material for the validators that
    #  look at log sources and event identifiers - none of the five modelled ones does)
    first = next(iter(det))
    if body == "map":
        det[first] = dict(det[first], EventID=int(r["fname"]))
    elif body == "maps":
        det[first] = [dict(det[first][0], EventID=int(r["fname"]))] + det[first][1:]
    det["condition"] = conds[0] if len(conds) == 1 else conds
    ls = {"product": "windows", "service": "sysmon"} if r["dir"] == 1 else {"product": "windows", "service": "application"}
    # (which rule of the collection an object is, is carried by a custom attribute - these take no part in the equality
    #  of rules, so that two rules drawn alike ARE equal, as two copies of one file are)
    d = {"title": f"T{r['title']}", "description": "verif", "verif_idx": idx, "logsource": ls, "detection": det}
    # (every rule carries the same ill-formed tags - material for the tag validators, which must name each rule itself)
    d["tags"] = ["cve.2024-0002", "stp.1k", "car.2016", "detection.nope", "attack.t1059", f"cve.{r['dir']}"]
    if r["uid"]:
        d["id"] = uuid_of(r["uid"])
    return d


def run_once(case, perm, vorder):
    from uuid import UUID
    from sigma.rule import SigmaRule
    from sigma.exceptions import SigmaRuleLocation
    from sigma.validation import SigmaValidator
    from sigma.validators.core import validators as VALIDATORS
    from sigma.backends.test import TextQueryTestBackend

    coll = case["coll"]
    rules = []
    for idx in perm:
        r = coll[idx - 1]
        rules.append(SigmaRule.from_dict(rule_dict(r, idx), source=SigmaRuleLocation(Path(f"dir{r['dir']}/file{r['fname']}.yml"))))
    names = list(case["V"])
    if vorder:
        names = list(reversed(names))
    excl = {}
    for v, uid in case["excl"]:
        excl.setdefault(UUID(uuid_of(uid)) if uid else None, set()).add(VALIDATORS[v])  # uid 0: the rules without id
    # every other case defines the validator through its configuration document instead; an id that occurs in several
    # entries of the exclusion table is written there once per entry, each time in another of its spellings
    conf = None
    if (case["id"] * 2654435761 >> 11) % 2 == 1:  # (scrambled: neighbouring case numbers differ in one dimension only)
        seen = {}
        ex = {}
        for v, uid in case["excl"]:
            k = seen.get(uid, 0)
            seen[uid] = k + 1
            text = uuid_of(uid)
            key = None if not uid else [text, text.upper(), "{" + text + "}", text.replace("-", "")][k % 4]
            ex.setdefault(key, []).append(v)
        conf = {"validators": names, "exclusions": {k: (v[0] if len(v) == 1 else v) for k, v in ex.items()}}
    snapshot = lambda: [json.dumps(r.to_dict(), sort_keys=True, default=str) for r in rules]
    before = snapshot()
    out = {"perm": list(perm), "ok": False, "issues": [], "unchanged": False, "allsig": []}
    try:
        sv = SigmaValidator.from_dict(conf, VALIDATORS) if conf is not None else SigmaValidator([VALIDATORS[n] for n in names], excl)
        issues = sv.validate_rules(iter(rules))
        # every built-in validator over the same objects: they must not change the rules either, and what they report
        # must not depend on the order (their issues are compared between the runs, not with an expected set)
        # (not the two that compare tags with MITRE data: they fetch it over the network, which this sandbox has not)
        offline = [v for n, v in VALIDATORS.items() if n not in ("attacktag", "d3_fendtag")]
        allv = SigmaValidator(list(reversed(offline)) if vorder else offline).validate_rules(iter(rules))
        def sig(i):
            # (an issue that names more rules than the collection has - state kept between runs - is cut short:
            #  a digest stands for the rest, the comparison between the orders is the same)
            t = (type(i).__name__ + ":" + ",".join(sorted("R" + str(r.custom_attributes["verif_idx"]) for r in i.rules[:64])) + ":"
                 + ";".join(sorted(f"{k}={v}" for k, v in vars(i).items() if k != "rules")))
            if len(i.rules) > 64 or len(t) > 400:
                import hashlib

                t = t[:200] + "#" + str(len(i.rules)) + "#" + hashlib.sha1(t.encode()).hexdigest()
            return cps(t)

        out["allsig"] = sorted(sig(i) for i in allv)[:200]
        recs = []
        for i in issues:
            t, attr = ISSUE_T.get(type(i).__name__, (type(i).__name__, None))
            rs = sorted(int(r.custom_attributes["verif_idx"]) for r in i.rules)[:32]
            if attr:
                key = cps(getattr(i, attr))
            elif t == "identifier_uniqueness":
                key = [int(str(i.identifier)[-12:])]
            elif t == "duplicate_title":
                key = [int(i.title[1:])]
            elif t == "duplicate_filename":
                key = [int(i.filename[4:-4])]
            else:
                key = []
            recs.append({"t": t, "rules": rs, "key": key})
        out["issues"] = recs
        after = snapshot()
        q = [TextQueryTestBackend().convert_rule(r) for r in rules]
        fresh = [TextQueryTestBackend().convert_rule(SigmaRule.from_dict(rule_dict(coll[idx - 1], idx))) for idx in perm]
        out["unchanged"] = before == after and q == fresh
        out["ok"] = True
    except Exception as e:  # noqa: BLE001
        out["exc"] = type(e).__name__ + ": " + str(e)[:200]
    return out


def _drive_harvested(case):
    """A rule document the repository's own tests load: every built-in validator over it, in both orders - the rule
    is left as it was and the issues are the same."""
    import pickle, base64
    from sigma.rule import SigmaRule
    from sigma.validation import SigmaValidator
    from sigma.validators.core import validators as VALIDATORS
    from sigma.backends.test import TextQueryTestBackend

    doc = pickle.loads(base64.b64decode(case["blob"]))
    runs = []
    for vo in (0, 1):
        out = {"perm": [], "ok": False, "issues": [], "unchanged": False, "allsig": []}
        try:
            rule = SigmaRule.from_dict(pickle.loads(base64.b64decode(case["blob"])))
        except Exception:  # noqa: BLE001  not a loadable rule: nothing to validate
            return {"id": case["id"], "skip": True}
        try:
            def snap():
                try:
                    return json.dumps(rule.to_dict(), sort_keys=True, default=str)
                except Exception as e:  # noqa: BLE001
                    return "to_dict: " + type(e).__name__

            def conv():
                try:
                    return TextQueryTestBackend().convert_rule(rule)
                except Exception as e:  # noqa: BLE001
                    return "convert: " + type(e).__name__

            before = snap()  # (converting applies the backend's pipeline to the rule object: only AFTER the second snapshot)
            # (the two validators that compare tags with MITRE data fetch it over the network, which this sandbox has not)
            vs = [v for n, v in VALIDATORS.items() if n not in ("attacktag", "d3_fendtag")]
            issues = SigmaValidator(list(reversed(vs)) if vo else vs).validate_rules(iter([rule]))
            out["allsig"] = sorted(cps(type(i).__name__ + ":" + ";".join(sorted(f"{k}={v}" for k, v in vars(i).items() if k != "rules"))) for i in issues)
            after = snap()
            fresh = SigmaRule.from_dict(pickle.loads(base64.b64decode(case["blob"])))
            q1 = conv()
            rule = fresh
            out["unchanged"] = before == after and q1 == conv()
            out["ok"] = True
        except Exception as e:  # noqa: BLE001
            out["exc"] = type(e).__name__ + ": " + str(e)[:200]
        runs.append(out)
    return {"id": case["id"], "coll": [], "V": [], "excl": [], "runs": runs, "harvested": True, "title": str(doc.get("title", ""))[:60]}


def drive_case(case):
    if case.get("harvested"):
        return _drive_harvested(case)
    n = len(case["coll"])
    runs = [run_once(case, perm, vo) for perm in itertools.permutations(range(1, n + 1)) for vo in (0, 1)]
    return {"id": case["id"], "coll": case["coll"], "V": case["V"], "excl": case["excl"], "runs": runs}


def run(tier: str, seed: int) -> int:
    chk = Check("C19", tier, seed, "model_checking")
    chk.model_check("MC_Validation")
    cases = chk.generate("Gen_C19")
    # plus the rule documents the repository's own tests load (nested detections, every modifier, metadata of all kinds)
    from ..harvest import harvest
    import pickle, base64

    hv = [h for h in harvest({"doc"})["doc"] if h.get("cls") == "rule" and isinstance(h["doc"], dict)]
    hcases = [{"id": 8_000_000 + i, "harvested": True, "blob": base64.b64encode(pickle.dumps(h["doc"])).decode()} for i, h in enumerate(hv)]
    obs = drive("harness.props.c19", "drive_case", cases + hcases, chunk=40)
    obs = [o for o in obs if not o.get("skip")]
    chk.coverage["harvested_from_repository_tests"] = sum(1 for o in obs if o.get("harvested"))
    verdicts = chk.judge("Judge_C19", obs)
    from .. import corrupt as _corrupt

    chk.binding_selftest("Judge_C19", obs, verdicts, _corrupt.c19)

    def pretty(o):
        if o.get("harvested"):
            return {"harvested_rule": o["title"], "first_run": {k: v for k, v in o["runs"][0].items() if k != "allsig"}}
        return {"rules": [rule_dict(r, i + 1) | {"file": f"dir{r['dir']}/file{r['fname']}.yml"} for i, r in enumerate(o["coll"])], "validators": o["V"], "exclusions": o["excl"], "first_run": o["runs"][0]}

    by_id = {o["id"]: pretty(o) for o in obs}
    for v in verdicts:
        if v["v"] != "ok" and v["run"] > 0:
            o = next(x for x in obs if x["id"] == v["id"])
            by_id[v["id"]]["failing_run"] = o["runs"][v["run"] - 1]
    chk.absorb(verdicts, by_id, {c["id"]: c for c in cases + hcases})
    nruns = sum(len(o["runs"]) for o in obs)
    nontrivial = sum(1 for o in obs if any(r["issues"] for r in o["runs"]))
    samples = [by_id[o["id"]] for o in obs[:: max(1, len(obs) // 3)]][:3]
    return chk.finish(
        evaluations=nruns,
        distinct_nontrivial=nontrivial,
        rule="TLC (Gen_C19) draws collections of 1..3 rules from 12 rule shapes (detection names incl. keyword-prefixed and "
        "underscore-prefixed ones; conditions with identifiers, selectors, selectors matching nothing; two conditions) x id in "
        "{none, 1, 2} x title x file name x directory (so ids / titles / file names collide in every multiplicity) x validator "
        "subsets x exclusion tables; the driver runs EVERY permutation of the rules x two validator orders; one evaluation = one "
        "run; non-trivial = collection for which at least one issue is reported",
        samples=samples,
        traces=nruns,
        exhaustive=False,
    )


def replay(path: str) -> int:
    return _replay("C19", path, "harness.props.c19", "Judge_C19")
