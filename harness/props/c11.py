"""C11 - a filter narrows exactly the rules it targets and nothing else."""
from __future__ import annotations

import copy
import random

from ..common import Check, drive, replay as _replay, uncps, cps
from ..docs import rule_dict, body_plain, with_global
from ..backend import make_backend

K = dict(prec=["not", "and", "or"], paren=False, sep=1, orin=False, andin=False, inwild=False, sw=False, ew=False, ct=False, wm=False,
         cs="full", nexists=True, cidr=False, noteq=False, allowspecial=False)


def ls_dict(ls):
    d = {}
    for k, key in (("cat", "category"), ("prod", "product"), ("svc", "service"), ("def", "definition")):
        if ls[k]:
            d[key] = uncps(ls[k])
    return d


def rule_doc(r, idx):
    d = rule_dict(r["doc"], title=f"R{idx}")
    d["name"] = uncps(r["name"])
    d["id"] = uncps(r["uid"])
    d["logsource"] = ls_dict(r["ls"])
    return d


def filter_doc(f, idx):
    body = {uncps(d["name"]): body_plain(d["body"]) for d in f["doc"]["dets"]}
    body["condition"] = uncps(f["doc"]["conds"][0])
    body["rules"] = "any" if f["any"] else [uncps(r) for r in f["rules"]]
    return {"title": f"F{idx}", "description": "verif filter", "logsource": ls_dict(f["ls"]), "filter": body}


PIPE = {"name": "suffix", "priority": 10, "transformations": [{"type": "field_name_suffix", "suffix": "_x"}]}


def _convert(docs, seed, pipe=False):
    from sigma.collection import SigmaCollection
    from sigma.exceptions import SigmaError

    r = {"ok": False, "out": [], "exc": "", "sigma": False}
    import contextlib
    from unittest import mock

    draws = contextlib.nullcontext()
    if seed == "repeat":  # the generator hands out every draw TWICE in a row: aaaa.., aaaa.., bbbb.., bbbb.., ...
        n = [0]

        def choices(population, k=1, **kw):
            n[0] += 1
            return [population[((n[0] - 1) // 2) % len(population)]] * k

        draws = mock.patch.object(random, "choices", choices)
    try:
        random.seed(0 if seed == "repeat" else seed)
        with draws:
            coll = SigmaCollection.from_dicts(copy.deepcopy(docs))
        from sigma.processing.pipeline import ProcessingPipeline

        b = make_backend(K, ProcessingPipeline.from_dict(copy.deepcopy(PIPE))) if pipe else make_backend(K)
        r["out"] = [[cps(q) for q in b.convert_rule(rule)] for rule in sorted(coll.rules, key=lambda x: x.title)]
        r["ok"] = True
    except Exception as e:  # noqa: BLE001
        r["exc"] = type(e).__name__ + ": " + str(e)[:200]
        r["sigma"] = isinstance(e, SigmaError)
    return r


def drive_case(case):
    rules = [rule_doc(r, i + 1) for i, r in enumerate(case["rules"])]
    filters = [filter_doc(f, i + 1) for i, f in enumerate(case["filters"])]
    if case.get("glob") == "cond":
        rules = with_global(rules)
    elif case.get("glob") == "ls":  # the first rule stands in front of the global document that gives the others their product
        rules = rules[:1] + with_global(rules[1:], key="logsource", sub="product")
    return {
        "id": case["id"],
        "rules": case["rules"],
        "filters": case["filters"],
        "pipe": bool(case.get("pipe")),
        "plain": _convert(rules, 0, bool(case.get("pipe"))),
        "filtered": [_convert(rules + filters, s, bool(case.get("pipe"))) for s in (11, 12, "repeat")],
    }


def _pretty(o):
    def res(r):
        return [[uncps(q) for q in rq] for rq in r["out"]] if r["ok"] else r["exc"]

    return {
        "rule1": rule_doc(o["rules"][0], 1),
        "filters": [filter_doc(f, i + 1) for i, f in enumerate(o["filters"])],
        "plain": res(o["plain"]),
        "filtered": res(o["filtered"][0]),
    }


def run(tier: str, seed: int) -> int:
    chk = Check("C11", tier, seed, "model_checking")
    chk.model_check("MC_Filter")
    from .. import tlc

    neg = tlc.run_tlc("MC_Filter", "MC_Filter_negative.cfg", workers=4, check_ok=False)
    if neg.invariant_violated != "NoCaptureEitherWay":
        raise tlc.MachineryError("negative control: selector matching without name spaces for generated names not refuted")
    chk.coverage["negative_control"] = {"cfg": "MC_Filter_negative.cfg (generated names within reach of every pattern)", "refuted_invariant": neg.invariant_violated}
    chk.model_check("MC_FilterStack")
    neg = tlc.run_tlc("MC_FilterStack", "MC_FilterStack_negative.cfg", workers=4, check_ok=False)
    if neg.invariant_violated != "BothFiltersMean":
        raise tlc.MachineryError("negative control: a second filter application that keeps a prefix already in use not refuted")
    chk.coverage["negative_control_stack"] = {"cfg": "MC_FilterStack_negative.cfg (a draw whose names are in use is kept)", "refuted_invariant": neg.invariant_violated}
    cases = chk.generate("Gen_C11")
    obs = drive("harness.props.c11", "drive_case", cases, chunk=50)
    verdicts = chk.judge("Judge_C11", obs)
    from .. import corrupt as _corrupt

    chk.binding_selftest("Judge_C11", obs, verdicts, _corrupt.c11)
    by_id = {o["id"]: _pretty(o) for o in obs}
    chk.absorb(verdicts, by_id, {c["id"]: c for c in cases})
    samples = [by_id[o["id"]] for o in obs[:: max(1, len(obs) // 4)]][:4]
    return chk.finish(
        evaluations=len(obs) * 3,
        distinct_nontrivial=len(obs),
        rule="TLC (Gen_C11) enumerates 6 rule conditions (identifiers, selectors, them, keyword-prefixed names) x 7 filter "
        "conditions (identifiers, not, them, prefix/suffix patterns; filter detections named sel, 1x, ax, And, notable - "
        "overlapping with the rule's) x 6 log-source relations x 5 rule-list kinds (name, id, any, empty, other rule), "
        "two-condition rules, two rules targeted by one filter and converted through a field-renaming pipeline, stacked filters (quick: 150 sampled) and a family with an underscore-leading filter "
        "detection; every pair is converted under two seeds of the random prefix and with a generator that hands out every draw twice in a row (stacked filters then draw the SAME prefix), with a bystander rule; all pairs are "
        "distinct and non-trivial",
        samples=samples,
        traces=len(obs) * 3,
        exhaustive=True,
    )


def replay(path: str) -> int:
    return _replay("C11", path, "harness.props.c11", "Judge_C11")
