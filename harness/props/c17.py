"""C17 - placeholders expand completely or conversion fails; never emitted as text."""
from __future__ import annotations

from ..common import Check, drive, replay as _replay, uncps, cps, NPROC
from ..serial import outcome
from ..docs import rule_dict, convert_via, plain_value
from ..backend import make_backend

TYPE = {"value": "value_placeholders", "wildcard": "wildcard_placeholders", "qexpr": "query_expression_placeholders"}


def _values_file(case, name):
    """The values of one variable as a text file, one per line (written once per process and content)."""
    import hashlib, os, tempfile

    vals = [plain_value(v) for n, vs in case["vars"] if uncps(n) == name for v in vs]
    text = "".join(str(v) + "\n" for v in vals)
    p = os.path.join(tempfile.gettempdir(), "verif_c17_" + hashlib.sha256(text.encode()).hexdigest()[:12] + ".txt")
    if not os.path.exists(p):
        with open(p + f".{os.getpid()}", "w") as f:
            f.write(text)
        os.replace(p + f".{os.getpid()}", p)
    return p


def _via_file(case, it):
    """Equivalent route: a value list item that handles exactly one placeholder, whose variable holds texts / whole
    numbers (or nothing), written as a file_placeholders item reading the same values from a file - in every other case."""
    if it["type"] != "value" or it["mode"] != "include" or len(it["names"]) != 1 or (case["id"] * 2654435761 >> 13) % 2 == 0:
        return False
    name = uncps(it["names"][0])
    tables = [vs for n, vs in case["vars"] if uncps(n) == name]
    return len(tables) == 1 and all(v["t"] in ("s", "n") and (v["t"] != "n" or v["num"][1] == 1) for v in tables[0])


def pipeline_dict(case):
    items = []
    for it in case["pipe"]:
        d = {"type": TYPE[it["type"]]}
        if _via_file(case, it):
            d = {"type": "file_placeholders", "path": _values_file(case, uncps(it["names"][0]))}
        if it["mode"] != "all":
            d[it["mode"]] = [uncps(n) for n in it["names"]]
        if it["type"] == "qexpr":
            d["expression"] = '{field}:lookup:"{id}"'
        items.append(d)
    vars_ = {uncps(n): [plain_value(v) for v in vals] for n, vals in case["vars"]}
    return {"name": "ph", "priority": 10, "vars": vars_, "transformations": items}


def K_of(case):
    on = bool(case["sw"])
    return dict(prec=["not", "and", "or"], paren=False, sep=1, orin=False, andin=False, inwild=False, sw=on, ew=on, ct=on, wm=False,
                cs="full", nexists=True, cidr=False, noteq=False, allowspecial=False,
                # every other case (scrambled) on a target that takes regular expressions verbatim
                reverb=(case["id"] * 2654435761 >> 9) % 2 == 1)


def drive_case(case):
    from sigma.rule import SigmaRule
    from sigma.processing.pipeline import ProcessingPipeline

    def conv():
        b = make_backend(K_of(case), ProcessingPipeline.from_dict(pipeline_dict(case), allow_external_sources=True))
        return [cps(q) for q in convert_via(rule_dict(case["doc"]), b, case["id"])]

    ret = outcome(conv)
    return {"id": case["id"], "doc": case["doc"], "pipe": case["pipe"], "vars": case["vars"], "ret": ret}


def _pretty(o):
    return {
        "detection": rule_dict(o["doc"])["detection"],
        "pipeline": pipeline_dict(o),
        "result": [uncps(q) for q in o["ret"]["out"]] if o["ret"]["ok"] else o["ret"]["exc"] + ": " + uncps(o["ret"]["msg"]),
    }


def run(tier: str, seed: int) -> int:
    chk = Check("C17", tier, seed, "model_checking")
    chk.model_check("MC_Modifiers", "MC_Modifiers.cfg")
    chk.model_check("MC_Placeholders")
    n = NPROC
    cases = chk.generate("Gen_C17", shards=list(range(n)), env={"VERIF_NSHARDS": n})
    obs = drive("harness.props.c17", "drive_case", cases)
    verdicts = chk.judge("Judge_C17", obs)
    from .. import corrupt as _corrupt

    chk.binding_selftest("Judge_C17", obs, verdicts, _corrupt.c17)
    by_id = {o["id"]: _pretty(o) for o in obs}
    chk.absorb(verdicts, by_id, {c["id"]: c for c in cases})
    nontrivial = sum(1 for c in cases if c["pipe"])
    samples = [by_id[o["id"]] for o in obs[:: max(1, len(obs) // 5)]][:5]
    return chk.finish(
        evaluations=len(obs),
        distinct_nontrivial=nontrivial,
        rule="TLC (Gen_C17) enumerates 10 values with 0..3 placeholders (with literals, wildcards, an escaped percent sign, "
        "an undefined name) in string position under 4 modifier chains, under 'all' with a second value, as keyword and "
        "as regular expression x 17 pipelines of <=2 placeholder items (value list / wildcard / query expression with "
        "include / exclude) x 5 variable tables (two values, wildcard value + number, empty, wrong type, missing) x 2 "
        "backend configurations; non-trivial = pipeline with at least one item",
        samples=samples,
        traces=len(obs),
        exhaustive=True,
    )


def replay(path: str) -> int:
    return _replay("C17", path, "harness.props.c17", "Judge_C17")
