"""C01 - the converted query is logically equivalent to the Sigma rule."""
from __future__ import annotations

from ..common import Check, drive, replay as _replay, uncps, cps, NPROC
from ..serial import outcome
from ..docs import rule_dict, convert_via
from ..backend import make_backend


def drive_case(case):
    from sigma.rule import SigmaRule

    def conv():
        return [cps(q) for q in convert_via(rule_dict(case["doc"]), make_backend(case["K"]), case["id"])]

    ret = outcome(conv)
    return {"id": case["id"], "doc": case["doc"], "K": case["K"], "ret": ret}


def _pretty(o):
    import yaml

    return {
        "rule": rule_dict(o["doc"])["detection"],
        "K": {k: v for k, v in o["K"].items() if v not in (False,)},
        "queries": [uncps(q) for q in o["ret"]["out"]] if o["ret"]["ok"] else o["ret"]["exc"] + ": " + uncps(o["ret"]["msg"]),
    }


def corrupt(o):
    """binding self-test: the first recorded query is negated"""
    if not o["ret"]["ok"] or not o["ret"]["out"]:
        return None
    o["ret"]["out"][0] = cps("NOT (") + o["ret"]["out"][0] + cps(")")
    return o


def run(tier: str, seed: int) -> int:
    chk = Check("C01", tier, seed, "model_checking")
    chk.model_check("MC_Render", "MC_Render.cfg" if tier == "quick" else "MC_Render_thorough.cfg")
    chk.model_check("MC_Deferred")
    from .. import tlc as _tlc

    neg = _tlc.run_tlc("MC_Deferred", "MC_Deferred_negative.cfg", workers=4, check_ok=False)
    if neg.invariant_violated != "AlwaysMeansTree":
        raise _tlc.MachineryError("negative control: the design of deferred parts outside a conjunction not refuted")
    chk.coverage["negative_control"] = {"cfg": "MC_Deferred_negative.cfg (deferred predicate below OR / a negated group)", "refuted_invariant": neg.invariant_violated}
    n = NPROC
    cases = chk.generate("Gen_C01", shards=list(range(n)), env={"VERIF_NSHARDS": n})
    obs = drive("harness.props.c01", "drive_case", cases)
    verdicts = chk.judge("Judge_C01", obs)
    chk.binding_selftest("Judge_C01", obs, verdicts, corrupt)
    by_id = {o["id"]: _pretty(o) for o in obs}
    chk.absorb(verdicts, by_id, {c["id"]: c for c in cases})
    import json

    docs = {json.dumps(c["doc"], sort_keys=True) for c in cases}
    samples = [by_id[o["id"]] for o in obs[:: max(1, len(obs) // 5)]][:5]
    return chk.finish(
        evaluations=len(obs),
        distinct_nontrivial=len({(json.dumps(c["doc"], sort_keys=True), json.dumps(c["K"], sort_keys=True)) for c in cases}),
        rule="TLC (Gen_C01) builds rules from a library of 44 detection items (every value type and the modifier chains of "
        "interest) combined into 67 detection bodies (maps, lists of maps, keyword lists): every body alone x {d, not d, "
        "not not d} x every configuration, and every condition tree with <=2 (thorough 3) operators over three detections "
        "and selectors with bodies/configurations chosen by index; configurations = 7 hand-picked + seeded random draws "
        "from the full product of 15 knobs (6 precedence orders, parenthesize, separator, OR/AND-in, wildcards in lists, "
        "startswith/endswith/contains/wildcard-match, case-sensitive family, not-exists, native CIDR, not-equals, "
        "allow-special); every (rule, K) pair is distinct and non-trivial (has at least one field/value predicate); each "
        "query is compared with the rule over all truth assignments of its atoms",
        samples=samples,
        traces=len(obs),
        exhaustive=False,
        extra={"distinct_rules": len(docs)},
    )


def replay(path: str) -> int:
    return _replay("C01", path, "harness.props.c01", "Judge_C01")
