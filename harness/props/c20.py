"""C20 - output is byte-identical across processes, hash seeds and random draws."""
from __future__ import annotations

import json
import os
import subprocess
import sys
from concurrent.futures import ThreadPoolExecutor

from ..common import Check, VERIF, REPO, NPROC
from .. import tlc

SOURCES = [  # (kind, generator module, shards, env, how many cases to keep)
    ("c01", "Gen_C01", list(range(8)), {"VERIF_NSHARDS": 8}, 500),
    ("c11", "Gen_C11", [0], {}, 300),
    ("c12", "Gen_C12", list(range(8)), {"VERIF_NSHARDS": 8}, 500),
    ("c17", "Gen_C17", list(range(8)), {"VERIF_NSHARDS": 8}, 400),
    ("c07", "Gen_C07", [1, 2, 3, 4], {}, 600),
    ("c19", "Gen_C19", [0], {}, 200),
    ("c13", "Gen_C13", [0], {}, 300),
    ("c20x", "Gen_C20", [0], {}, 2000),
]


def run(tier: str, seed: int) -> int:
    chk = Check("C20", tier, seed, "exploration")
    chk.model_check("MC_Determinism")
    neg = tlc.run_tlc("MC_Determinism", "MC_Determinism_negative.cfg", workers=2, check_ok=False)
    if neg.invariant_violated is None:
        raise tlc.MachineryError("negative control: unsorted set rendering not refuted")
    neg2 = tlc.run_tlc("MC_Determinism", "MC_Determinism_negative_names.cfg", workers=2, check_ok=False)
    if neg.invariant_violated != "Deterministic" or neg2.invariant_violated != "NoInternalName":
        raise tlc.MachineryError("negative control: a message built from an internal random name not refuted")
    chk.coverage["negative_control"] = {"cfgs": ["MC_Determinism_negative.cfg (set rendered in iteration order)",
                                                 "MC_Determinism_negative_names.cfg (message names an object by its random name)"],
                                        "refuted_invariants": [neg.invariant_violated, neg2.invariant_violated]}
    corpus = []
    mult = 1 if tier == "quick" else 4
    for kind, gen, shards, env, keep in SOURCES:
        cases = chk.generate(gen, shards=shards, env=env)
        step = max(1, len(cases) // (keep * mult))
        for c in cases[::step][: keep * mult]:
            if kind == "c17":
                pass
            corpus.append([kind, c])
    cpath = chk.path("corpus.json")
    with open(cpath, "w") as f:
        json.dump(corpus, f)
    hseeds = [0, 1, 2, 3] if tier == "quick" else list(range(0, 12)) + [12345, 2**31 - 1, seed + 100, seed + 101]
    rseeds = [1, 2] if tier == "quick" else [1, 2, 3]
    runs = [(h, r) for h in hseeds for r in rseeds]

    def one(hr):
        h, r = hr
        out = chk.path(f"run_{h}_{r}.json")
        env = dict(os.environ, PYTHONHASHSEED=str(h), PYTHONPATH=VERIF + os.pathsep + REPO)
        p = subprocess.run([sys.executable, "-m", "harness.c20_corpus", cpath, out, str(r)], cwd=VERIF, env=env, capture_output=True, text=True)
        if p.returncode != 0:
            raise tlc.MachineryError(f"corpus run failed (hash seed {h}): {p.stderr[-800:]}")
        with open(out) as f:
            return json.load(f)

    with ThreadPoolExecutor(max_workers=min(NPROC, len(runs))) as ex:
        results = list(ex.map(one, runs))
    obs = []
    for i, (kind, case) in enumerate(corpus):
        recs = [res[i] for res in results]
        obs.append({"id": i + 1, "kind": kind, "shas": [r["sha"] for r in recs], "internal": any(r["internal"] for r in recs),
                    "iserror": recs[0]["text"].startswith(("Sigma", "EXC")) or kind in ("c07", "c19")})
    verdicts = chk.judge("Judge_C20", obs)
    from .. import corrupt as _corrupt

    chk.binding_selftest("Judge_C20", obs, verdicts, _corrupt.c20)
    by_id = {}
    for i, o in enumerate(obs):
        texts = sorted({res[i]["text"] for res in results})
        by_id[o["id"]] = {"kind": o["kind"], "distinct_outputs": texts[:3], "runs": [f"hash={h},random={r}" for h, r in runs]}
    chk.absorb(verdicts, by_id, {o["id"]: {"id": o["id"], "kind": o["kind"]} for o in obs})
    samples = [by_id[k] for k in list(by_id)[:: max(1, len(by_id) // 4)]][:4]
    return chk.finish(
        evaluations=len(obs) * len(runs),
        distinct_nontrivial=len(obs),
        rule="corpus = cases of the TLC generators of C01 (rules x backend configurations), C11 (filters, random prefix), C12 "
        "(transformations incl. one-to-many mappings and added conditions with random names), C17 (placeholder pipelines), C07 "
        "(malformed documents: error records), C19 (all validators: issue lists), C13 (generated item identifiers, applied-id "
        "sets), the generator of C20 itself (regex flag sets on backends supporting a subset of the flags, several unmapped fields under the "
        "strict mapping check, merged variable tables); every case is executed in separately started interpreters for each (PYTHONHASHSEED, random.seed) pair - quick "
        "4 x 2, thorough 16 x 3 - and its output text (queries in order, or error / issue records) is digested; distinct = "
        "corpus cases",
        samples=samples,
        traces=len(runs),
        exhaustive=False,
        extra={"hash_seeds": hseeds, "random_seeds": rseeds, "corpus_cases": len(obs)},
    )


def replay(path: str) -> int:
    print("C20 violations depend on process-level seeds; re-run ./check C20 --tier quick")
    return 2
