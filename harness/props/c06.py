"""C06 - serialising a rule and loading it again preserves its meaning."""
from __future__ import annotations

import copy
import json
import re

from ..common import Check, drive, replay as _replay, uncps, cps, NPROC
from ..docs import rule_dict
from ..backend import make_backend
from .c12 import pipeline_dict
from .c10 import RULES as C10_RULES, K_of as c10_K, TYPES

K = dict(prec=["not", "and", "or"], paren=False, sep=1, orin=True, andin=False, inwild=False, sw=True, ew=True, ct=True, wm=False,
         cs="full", nexists=True, cidr=False, noteq=False, allowspecial=False)


def _res(fn):
    from sigma.exceptions import SigmaError

    try:
        return {"ok": True, "out": fn(), "exc": "", "sigma": False}
    except Exception as e:  # noqa: BLE001
        return {"ok": False, "out": [], "exc": type(e).__name__ + ": " + str(e)[:150], "sigma": isinstance(e, SigmaError)}


def canon(d):
    """Dict form as canonical JSON text (dates etc. stringified), as code points."""
    return cps(json.dumps(d, sort_keys=True, default=str))


def extra_docs():
    """Documents the driver adds: metadata-rich rule in both date spellings, correlations of all types, filters."""
    import importlib.util, os

    spec = importlib.util.spec_from_file_location("gen_c07_docs", os.path.join(os.path.dirname(__file__), "..", "..", "tools", "gen_c07_docs.py"))
    # the tool writes the TLA+ file on import; only its dictionaries are needed here
    src = open(spec.origin).read().split("def node(v):")[0]
    ns = {"__file__": spec.origin}
    exec(src, ns)
    docs = [("rule", ns["RULE"]), ("corr", ns["CORR"]), ("corr", ns["CORR_EXT"]), ("filter", ns["FILTER"])]
    r2 = copy.deepcopy(ns["RULE"])
    r2["date"], r2["modified"] = "2024/1/5", "2024-02-01"
    docs.append(("rule", r2))
    # what YAML itself makes of unquoted dates: date and datetime objects
    import datetime

    r3 = copy.deepcopy(ns["RULE"])
    r3["date"], r3["modified"] = datetime.date(2024, 1, 5), datetime.datetime(2024, 2, 3, 4, 5, 6)
    docs.append(("rule", r3))
    # date objects of years no date written as text may have (0999, 4000): either not loadable, or written so that they load again
    for y in (999, 4000):
        ry = copy.deepcopy(ns["RULE"])
        ry["date"] = datetime.date(y, 1, 1)
        docs.append(("rule", ry))
    # a log source with an additional key of the rule author's own, in a rule and in a filter
    r4 = copy.deepcopy(ns["RULE"])
    r4["logsource"]["vendor_hint"] = "foo"
    docs.append(("rule", r4))
    f3 = copy.deepcopy(ns["FILTER"])
    f3["logsource"]["vendor_hint"] = "foo"
    docs.append(("filter", f3))
    # a taxonomy of the author's own; a rule with the bare minimum of metadata
    r5 = copy.deepcopy(ns["RULE"])
    r5["taxonomy"] = "acme"
    docs.append(("rule", r5))
    docs.append(("rule", {"title": "Minimal", "logsource": {"category": "c"}, "detection": {"sel": {"fieldA": "a"}, "condition": "sel"}}))
    for t in TYPES:
        c = copy.deepcopy(ns["CORR"])
        c["correlation"]["type"] = t
        if t in ("event_count", "temporal", "temporal_ordered"):
            c["correlation"]["condition"] = {"gte": 2}
        if t == "value_percentile":
            c["correlation"]["condition"]["percentile"] = 75
        c["correlation"]["timespan"] = {"event_count": "30s", "temporal": "2h", "value_sum": "1d", "value_avg": "1w", "value_median": "1M"}.get(t, "1y")
        docs.append(("corr", c))
        # the smallest values a threshold and a percentile can take (falsy in Python)
        c0 = copy.deepcopy(c)
        c0["correlation"]["condition"] = dict(c0["correlation"]["condition"], gte=0)
        if t == "value_percentile":
            c0["correlation"]["condition"]["percentile"] = 0
        docs.append(("corr", c0))
    f2 = copy.deepcopy(ns["FILTER"])
    f2["filter"]["rules"] = "any"
    docs.append(("filter", f2))
    return docs


META = ["id", "name", "taxonomy", "status", "level", "author", "description", "license", "references", "tags", "fields",
        "falsepositives", "scope", "related", "custom_attributes"]
DATES = ["date", "modified"]
META_TEMPLATE = "{{ query }}" + "".join("\x1e{{ rule.%s }}" % a for a in META) + "".join(
    "\x1e{%% if rule.%s %%}{{ rule.%s.year }}-{{ rule.%s.month }}-{{ rule.%s.day }}{%% endif %%}" % (a, a, a, a) for a in DATES)


def convert_meta(x):
    """The rule converted by a backend whose output template prints the rule's metadata (dates: the day only - the time
    of day a YAML timestamp may carry is not part of a Sigma date): [[attribute, text], ...]."""
    from sigma.processing.pipeline import ProcessingPipeline

    pipe = ProcessingPipeline.from_dict({"name": "meta", "priority": 10, "postprocessing": [{"type": "template", "template": META_TEMPLATE}]})
    qs = make_backend(K, pipe).convert_rule(x)
    parts = qs[0].split("\x1e")[1:]
    assert len(parts) == len(META) + len(DATES)
    return [[a, cps(t)] for a, t in zip(META + DATES, parts)]


def drive_case(case):
    import yaml
    from sigma.rule import SigmaRule
    from sigma.correlations import SigmaCorrelationRule
    from sigma.filters import SigmaFilter
    from sigma.collection import SigmaCollection
    from sigma.processing.pipeline import ProcessingPipeline

    kind = case["kind"]
    if kind in ("rule", "transformed") and "doc" in case and "dets" in case["doc"]:
        doc = rule_dict(case["doc"])
        cls = SigmaRule
    else:
        doc = case["pydoc"]
        cls = {"rule": SigmaRule, "corr": SigmaCorrelationRule, "filter": SigmaFilter}[kind]
    o = {"id": case["id"], "kind": kind, "doc": case.get("doc", {"dets": [], "conds": []}), "strs": []}
    if case.get("harvested") and kind == "rule":
        o["strs"] = [cps(t) for t in _strings(doc.get("detection"))][:200]
    loaded = _res(lambda: cls.from_dict(copy.deepcopy(doc)))
    o["load"] = {k: v for k, v in loaded.items() if k != "out"}
    empty = {"ok": False, "out": [], "exc": "", "sigma": False}
    o["m1"] = o["m2"] = {"ok": True, "out": [], "exc": "", "sigma": False}
    if not loaded["ok"]:
        o.update(q1=empty, d1=empty, reload=empty, d2=empty, d3=empty, q2=empty)
        return o
    obj = loaded["out"]

    def convert(x):
        if isinstance(x, SigmaRule):
            return [cps(q) for q in make_backend(K).convert_rule(x)]
        if isinstance(x, SigmaCorrelationRule) and case.get("harvested"):
            # a document of the repository's tests: a stand-in rule for every reference it makes
            stubs = [SigmaRule.from_dict(dict({"title": "stub", "logsource": {"category": "c"}, "detection": {"sel": {"fieldA": "v1"}, "condition": "sel"}},
                                              **({"id": r.reference} if _is_uuid(r.reference) else {"name": r.reference})))
                     for r in x.rules]
            b = make_backend(c10_K({"tsmode": "pass", "typing": False, "norm": True, "optin": False, "pipe": "none"}))
            return [cps(q) for q in b.convert(SigmaCollection(stubs + [x]))]
        if isinstance(x, SigmaCorrelationRule):
            coll = SigmaCollection(copy.deepcopy([SigmaRule.from_dict(copy.deepcopy(r)) for r in C10_RULES[:1]]) + [x])
            b = make_backend(c10_K({"tsmode": "pass", "typing": False, "norm": True, "optin": False, "pipe": "none"}))
            return [cps(q) for q in b.convert(coll)]
        return [canon(x.to_dict())]  # filters: their dict form stands for their meaning

    if kind == "transformed":
        ap = _res(lambda: ProcessingPipeline.from_dict(pipeline_dict(case["Ts"])).apply(obj))
        if not ap["ok"]:
            o["load"] = {"ok": False, "exc": ap["exc"], "sigma": ap["sigma"]}
            o.update(q1=empty, d1=empty, reload=empty, d2=empty, d3=empty, q2=empty)
            return o
    if kind == "corr":
        # the pool rule the base correlation refers to
        doc2 = copy.deepcopy(doc)
    refit = kind == "corr" and not case.get("harvested")
    o["q1"] = _res(lambda: convert(obj)) if not refit else _res(lambda: convert(_corr_for_conv(cls, doc)))
    if kind == "rule" and "pydoc" in case:
        o["m1"] = _res(lambda: convert_meta(obj))
    d1 = _res(lambda: obj.to_dict())
    o["d1"] = dict(d1, out=canon(d1["out"]) if d1["ok"] else [])
    if not d1["ok"]:
        o.update(reload=empty, d2=empty, d3=empty, q2=empty)
        return o
    re1 = _res(lambda: cls.from_dict(copy.deepcopy(d1["out"])))
    o["reload"] = {k: v for k, v in re1.items() if k != "out"}
    if not re1["ok"]:
        o.update(d2=empty, d3=empty, q2=empty)
        return o
    d2 = _res(lambda: re1["out"].to_dict())
    o["d2"] = dict(d2, out=canon(d2["out"]) if d2["ok"] else [])
    d3 = _res(lambda: cls.from_yaml(yaml.safe_dump(d1["out"], sort_keys=False)).to_dict())
    o["d3"] = dict(d3, out=canon(d3["out"]) if d3["ok"] else [])
    o["q2"] = _res(lambda: convert(re1["out"])) if not refit else _res(lambda: convert(_corr_for_conv(cls, d1["out"])))
    if kind == "rule" and "pydoc" in case:
        o["m2"] = _res(lambda: convert_meta(re1["out"]))
    return o


def _strings(v):
    if isinstance(v, str):
        yield v
    elif isinstance(v, dict):
        for x in v.values():
            yield from _strings(x)
    elif isinstance(v, list):
        for x in v:
            yield from _strings(x)


def _is_uuid(t):
    import uuid

    try:
        uuid.UUID(t)
        return True
    except (ValueError, AttributeError, TypeError):
        return False


def _corr_for_conv(cls, doc):
    """A correlation rule object whose references fit the C10 pool rule r1."""
    d = copy.deepcopy(doc)
    c = d["correlation"]
    if isinstance(c.get("condition"), str):
        c["condition"] = "r1"
    else:
        c["rules"] = ["r1"]
    if "aliases" in c and c["aliases"]:
        c["aliases"] = {a: {"r1": f for _, f in m.items()} for a, m in c["aliases"].items()}
    return cls.from_dict(d)


def run(tier: str, seed: int) -> int:
    chk = Check("C06", tier, seed, "exploration")
    chk.model_check("MC_Serial")
    from .. import tlc

    neg = tlc.run_tlc("MC_Serial", "MC_Serial_negative.cfg", workers=4, check_ok=False)
    if neg.invariant_violated != "MetaRoundTrip":
        raise tlc.MachineryError("negative control: TLC found no counterexample for a dict form without the related list")
    chk.coverage["negative_control"] = {"cfg": "MC_Serial_negative.cfg (to_dict leaves one attribute out)", "refuted_invariant": neg.invariant_violated}
    n = NPROC
    cases = chk.generate("Gen_C06", shards=list(range(n)), env={"VERIF_NSHARDS": n})
    base = max(c["id"] for c in cases) + 1
    for i, (kind, d) in enumerate(extra_docs()):
        cases.append({"id": base + i, "kind": kind, "pydoc": d})
    from ..harvest import harvest

    hv = [h for h in harvest({"doc"})["doc"] if isinstance(h["doc"], dict)]
    chk.coverage["harvested_from_repository_tests"] = len(hv)
    cases += [{"id": 7_000_000 + i, "kind": h["cls"], "pydoc": h["doc"], "harvested": True} for i, h in enumerate(hv)]
    obs = drive("harness.props.c06", "drive_case", cases)
    verdicts = chk.judge("Judge_C06", obs)
    from .. import corrupt as _corrupt

    chk.binding_selftest("Judge_C06", obs, verdicts, _corrupt.c06)
    raw = {c["id"]: c for c in cases}

    def pretty(o):
        c = raw[o["id"]]
        src = rule_dict(c["doc"])["detection"] if "doc" in c else c["pydoc"]
        f = lambda r: ([uncps(q) for q in r["out"]] if isinstance(r.get("out"), list) and r["out"] and isinstance(r["out"][0], list) else (uncps(r["out"]) if r.get("out") else "")) if r["ok"] else r["exc"]
        return {"kind": o["kind"], "source": src, "transformations": pipeline_dict(c["Ts"])["transformations"] if c.get("Ts") else [], "q1": f(o["q1"]), "q2": f(o["q2"]), "d1": f(o["d1"])[:300] if o["d1"]["ok"] else o["d1"]["exc"]}

    by_id = {o["id"]: pretty(o) for o in obs}
    chk.absorb(verdicts, by_id, raw)
    nontrivial = sum(1 for o in obs if o["load"]["ok"] and o["q1"]["ok"])
    samples = [by_id[o["id"]] for o in obs[:: max(1, len(obs) // 4)]][:4]
    return chk.finish(
        evaluations=len(obs),
        distinct_nontrivial=nontrivial,
        rule="TLC (Gen_C06) enumerates: every detection body of the rule library (every value type and modifier chain of "
        "interest, maps, lists of maps, keyword lists) with one and two conditions; every string value <=3 (thorough 4) over "
        "{backslash, *, ?, quote, a, space} under 6 modifier chains; every body after each of 11 transformation lists (object "
        "changed by a pipeline); the driver adds a metadata-rich rule in both date spellings, correlation rules of all 8 types "
        "with aliases / extended condition, and filters; every rule, correlation and filter document the repository's own tests load "
        "(harvested); metadata-rich rules are also converted by a backend that prints every metadata attribute; non-trivial = "
        "loads and converts",
        samples=samples,
        traces=len(obs),
        exhaustive=True,
    )


def replay(path: str) -> int:
    return _replay("C06", path, "harness.props.c06", "Judge_C06")
