"""C16 - a pipeline file cannot grant itself code execution, file or network access."""
from __future__ import annotations

import copy
import os
import shutil
import sys
import tempfile

from ..common import Check, drive, replay as _replay

EVENTS: list = []
_HOOKED = [False]
_WATCH: dict = {"paths": ()}
OPTINS = {"allow_external_sources": True, "allow_template_vars": True, "vars_allowed_paths": ["/"]}


def optins(d, kind="file"):
    """The keys a hostile pipeline document would write for this kind of item: the opt-in, and its own
    directory tree as allowed base (keys an item does not know would only make it fail to load)."""
    if kind in ("file", "http", "command"):
        return {"allow_external_sources": True}
    return {"allow_template_vars": True, "vars_allowed_paths": [d]}


def _hook(event, args):
    if event in ("subprocess.Popen", "os.system", "os.exec", "os.posix_spawn"):
        EVENTS.append(event)
    elif event in ("socket.connect", "socket.getaddrinfo", "urllib.Request", "http.client.connect"):
        EVENTS.append(event)
    elif event == "open" and args and isinstance(args[0], str) and any(args[0].startswith(p) or os.path.realpath(args[0]).startswith(p) for p in _WATCH["paths"]):
        EVENTS.append("open:" + os.path.basename(args[0]))
    elif event in ("exec", "compile") and args and _WATCH["paths"]:
        name = getattr(args[0], "co_filename", None) if event == "exec" else (args[1] if len(args) > 1 else None)
        if isinstance(name, str) and any(os.path.realpath(name).startswith(p) for p in _WATCH["paths"]):
            EVENTS.append(event + ":" + os.path.basename(name))


def _workdir():
    d = tempfile.mkdtemp(prefix="verif_c16_")
    base = os.path.join(d, "base")
    os.makedirs(base)
    os.makedirs(os.path.join(d, "base_evil"))
    os.makedirs(os.path.join(d, "out"))
    code = "vars = {'f': lambda x: x}\n"
    for p in ("base/vars.py", "base_evil/vars.py", "out/vars.py"):
        with open(os.path.join(d, p), "w") as f:
            f.write(code)
    os.symlink(os.path.join(d, "out", "vars.py"), os.path.join(base, "link.py"))
    with open(os.path.join(d, "values.txt"), "w") as f:
        f.write("alpha\nbeta\n")
    with open(os.path.join(base, "pipeline.yml"), "w") as f:
        f.write("# location of the pipeline file\n")
    return d


def build_doc(case, d):
    kind, depth, inject = case["kind"], case["depth"], set(case["inject"])
    infile = kind in ("jcmdf", "jvarsf", "jfilef")  # the template text stands in a file (path + template)
    if infile:
        kind = kind[:-1]
    varspath = {"inside": "base/vars.py", "outside": "out/vars.py", "symlink": "base/link.py", "sibling": "base_evil/vars.py"}[case["pathclass"]]
    if kind == "file":
        item = {"type": "file_placeholders", "path": os.path.join(d, "values.txt"), "include": ["ph"]}
    elif kind == "http":
        item = {"type": "http_placeholders", "url": "http://127.0.0.1:9/values", "timeout": 1, "include": ["ph"]}
    elif kind == "command":
        item = {"type": "command_placeholders", "cmd": ["/bin/echo", "alpha"], "include": ["ph"]}
    elif kind == "jcmd":  # the template text loads a pipeline of its own, handing ITSELF the opt-in argument
        inner = "transformations:\n  - type: command_placeholders\n    cmd: ['/bin/echo', 'alpha']\n"
        item = {"type": "template", "template": "{% set p = pipeline.from_yaml(" + repr(inner) + ", allow_external_sources=True) %}"
                "{{ p.items[0].transformation.placeholder_replacements(none) | list }}{{ query }}"}
    elif kind == "jvars":
        inner = {"postprocessing": [{"type": "template", "template": "x", "vars": os.path.join(d, varspath)}]}
        item = {"type": "template", "template": "{% set p = pipeline.from_dict(" + repr(inner) + ", allow_template_vars=True) %}{{ query }}"}
    elif kind == "jfile":  # file access through the path object of the rule's source location
        item = {"type": "template", "template": "{{ rule.source.path.joinpath(" + repr(os.path.join(d, "values.txt")) + ").read_text() }}{{ query }}"}
    elif kind == "ptemplate":
        item = {"type": "template", "template": "{{ query }}", "vars": os.path.join(d, varspath)}
    elif kind == "ytag":
        item = {"type": "set_state", "key": "k", "val": "v"}  # (the text is written by hand in drive_case)
    else:
        item = {"type": "template", "template": "{{ queries | join(',') }}", "vars": os.path.join(d, varspath)}
    if infile:
        name = f"tmpl_{kind}.j2"
        with open(os.path.join(d, "base", name), "w") as f:
            f.write(item["template"])
        item = {"type": "template", "path": os.path.join(d, "base"), "template": name}
    if "item" in inject:
        item.update(optins(d, kind))
    stage = {"file": "transformations", "http": "transformations", "command": "transformations", "ptemplate": "postprocessing", "ftemplate": "finalizers",
             "jcmd": "postprocessing", "jvars": "postprocessing", "jfile": "postprocessing", "ytag": "transformations"}[kind]
    node = item
    for level in range(1, depth + 1):
        if stage == "finalizers":
            node = {"type": "nested", "finalizers": [node]}
        else:
            node = {"type": "nest", "items": [node]}
        if f"wrap{level}" in inject:
            node.update(optins(d, kind))
    doc = {"name": "c16", "priority": 10, stage: [node]}
    if "top" in inject:
        doc.update(optins(d, kind))
    return doc


def _find_bits(obj, seen=None, depth=0):
    """Capability flags on instantiated items (any depth)."""
    seen = seen if seen is not None else set()
    if id(obj) in seen or depth > 8:
        return False
    seen.add(id(obj))
    if getattr(obj, "allow_external_sources", False) is True or getattr(obj, "allow_template_vars", False) is True:
        return True
    for attr in ("items", "postprocessing_items", "finalizers", "transformation", "_nested_pipeline"):
        v = getattr(obj, attr, None)
        if v is None:
            continue
        for x in v if isinstance(v, (list, tuple)) else [v]:
            if _find_bits(x, seen, depth + 1):
                return True
    return False


def drive_case(case):
    import yaml
    from sigma.processing.pipeline import ProcessingPipeline
    from sigma.backends.test import TextQueryTestBackend
    from sigma.collection import SigmaCollection
    from sigma.exceptions import SigmaError

    if not _HOOKED[0]:
        sys.addaudithook(_hook)
        _HOOKED[0] = True
    d = _workdir()
    cap = "ext" if case["kind"] in ("file", "http", "command", "jcmd", "jfile", "jcmdf", "jfilef", "ytag") else "vars"
    envname = "PYSIGMA_ALLOW_EXTERNAL_SOURCES" if cap == "ext" else "PYSIGMA_ALLOW_VARS_EXECUTION"
    saved = {k: os.environ.get(k) for k in ("PYSIGMA_ALLOW_EXTERNAL_SOURCES", "PYSIGMA_ALLOW_VARS_EXECUTION")}
    for k in saved:
        os.environ.pop(k, None)
    if case["env"] != "unset":
        os.environ[envname] = case["env"]
    o = {k: case[k] for k in ("id", "kind", "depth", "inject", "caller", "env", "pathclass", "dirs")}
    o.update(ok=False, sigma=False, exc="", effect=False, bit=False, events=[], security=False)
    del EVENTS[:]
    _WATCH["paths"] = (os.path.realpath(d),)
    try:
        doc = build_doc(case, d)
        kwargs = {}
        if cap == "ext" and case["caller"]:
            kwargs["allow_external_sources"] = True
        if cap == "vars" and case["caller"]:
            kwargs["allow_template_vars"] = True
        if case["dirs"] == "caller":
            kwargs["vars_allowed_paths"] = (os.path.join(d, "base"),)
        elif case["dirs"] == "empty":  # a collection of allowed base directories without entries (a tuple or a list)
            kwargs["vars_allowed_paths"] = () if case["id"] % 2 else []
        elif case["dirs"] == "source":
            kwargs["source_path"] = os.path.join(d, "base", "pipeline.yml")
        text = yaml.safe_dump(doc)
        if case["kind"] == "ytag":  # written by hand: no YAML dumper produces such a text
            call = "!!python/object/apply:subprocess.check_output [['/bin/echo', 'alpha']]"
            text = ["name: c16\npriority: 10\nvars:\n  users: " + call + "\ntransformations: []\n",
                    "name: " + call + "\npriority: 10\ntransformations: []\n",
                    "name: c16\npriority: 10\ntransformations:\n  - type: set_state\n    key: k\n    val: " + call + "\n",
                    "name: c16\npriority: 10\ntransformations:\n  - type: nest\n    items:\n      - type: nest\n        items:\n          - id: " + call
                    + "\n            type: set_state\n            key: k\n            val: v\n"][case["depth"]]
        del EVENTS[:]
        if case["dirs"] == "resolver":  # the text stands in the pipeline file, which is loaded by its name
            from sigma.processing.resolver import ProcessingPipelineResolver

            base = os.path.join(d, "base")
            with open(os.path.join(base, "pipeline.yml"), "w") as f:
                f.write(text)
            del EVENTS[:]
            p = [lambda: ProcessingPipelineResolver().resolve_pipeline(os.path.join(base, "pipeline.yml")),
                 lambda: ProcessingPipelineResolver().resolve([os.path.join(base, "pipeline.yml")]),
                 lambda: ProcessingPipelineResolver().resolve([base])][case["id"] % 3]()
        elif case["kind"] != "ytag" and "source_path" not in kwargs and (case["id"] * 2654435761 >> 12) % 2 == 1:
            # equivalent route: the document handed over as a Python dict whose sequences are TUPLES (as a caller building the
            # document in code may write them)
            def tup(x):
                if isinstance(x, dict):
                    return {k: tup(v) for k, v in x.items()}
                if isinstance(x, list):
                    return tuple(tup(v) for v in x)
                return x

            dd = {k: (tup(v) if k in ("transformations", "postprocessing", "finalizers") else v) for k, v in copy.deepcopy(doc).items()}
            dd = {k: (list(v) if isinstance(v, tuple) else v) for k, v in dd.items()}  # (the stages themselves stay lists)
            p = ProcessingPipeline.from_dict(dd, **kwargs)
        else:
            p = ProcessingPipeline.from_yaml(text, **kwargs)
        o["bit"] = _find_bits(p)
        # (template kinds have no placeholder item: their rule must convert up to the template stage)
        rule = {"title": "t", "logsource": {"category": "c"}, "detection": {"sel": {"f|expand": "%ph%"} if cap == "ext" and not case["kind"].startswith("j") else {"f": "v"}, "condition": "sel"}}
        from sigma.exceptions import SigmaRuleLocation

        TextQueryTestBackend(p).convert(SigmaCollection.from_dicts([rule], source=SigmaRuleLocation(os.path.join(d, "base", "pipeline.yml"))))
        o["ok"] = True
    except Exception as e:  # noqa: BLE001
        o["exc"] = type(e).__name__
        o["sigma"] = isinstance(e, SigmaError)
        # a security error raised for a nested item reaches the caller wrapped in a configuration error
        chain, cur = [], e
        while cur is not None and len(chain) < 6:
            chain.append(type(cur).__name__)
            cur = cur.__cause__ or cur.__context__
        o["security"] = "SigmaSecurityError" in chain or "security" in str(e).lower()
    finally:
        # (reading the pipeline file and reading / compiling the template FILE an item names is what loading means)
        o["events"] = [e for e in EVENTS if e not in ("open:pipeline.yml",) and ":tmpl_" not in e]
        _WATCH["paths"] = ()
        for k, v in saved.items():
            os.environ.pop(k, None)
            if v is not None:
                os.environ[k] = v
        shutil.rmtree(d, ignore_errors=True)
    o["effect"] = len(o["events"]) > 0
    return o


def run(tier: str, seed: int) -> int:
    chk = Check("C16", tier, seed, "model_checking")
    chk.model_check("MC_Security")
    cases = chk.generate("Gen_C16")
    obs = drive("harness.props.c16", "drive_case", cases, chunk=60)
    verdicts = chk.judge("Judge_C16", obs)
    from .. import corrupt as _corrupt

    chk.binding_selftest("Judge_C16", obs, verdicts, _corrupt.c16)
    by_id = {o["id"]: o for o in obs}
    chk.absorb(verdicts, by_id, {c["id"]: c for c in cases})
    eff = sum(1 for o in obs if o["effect"])
    chk.coverage["runs_with_side_effect_events"] = eff
    chk.coverage["runs_ending_in_security_error"] = sum(1 for o in obs if o["exc"] == "SigmaSecurityError")
    if eff == 0:
        from .. import tlc

        raise tlc.MachineryError("vacuous: no side effect event observed even where it is granted (audit hook broken?)")
    nontrivial = sum(1 for c in cases if c["inject"])
    samples = [by_id[o["id"]] for o in obs[:: max(1, len(obs) // 4)]][:4]
    return chk.finish(
        evaluations=len(obs),
        distinct_nontrivial=nontrivial,
        rule="TLC (Gen_C16) enumerates item kind (file / HTTP / command placeholder source, template postprocessing / finalizer "
        "with a Python vars file) x nesting depth 0..2 (nest / nested wrappers) x injection of truthy allow_external_sources / "
        "allow_template_vars / vars_allowed_paths at the pipeline top level, on the item, on each wrapper, on all of them x "
        "caller opt-in x environment value {unset,0,1,true,TRUE,yes}; for templates x vars path {inside, outside, symlink to "
        "outside, prefix-sharing sibling} x allowed directories {none, from caller, derived from the pipeline file}; every "
        "case is loaded with from_yaml and used in a conversion under a Python audit hook; non-trivial = at least one injected key",
        samples=samples,
        traces=len(obs),
        exhaustive=True,
    )


def replay(path: str) -> int:
    return _replay("C16", path, "harness.props.c16", "Judge_C16")
