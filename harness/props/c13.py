"""C13 - a pipeline item acts exactly where its conditions hold."""
from __future__ import annotations

import copy

from ..common import Check, drive, replay as _replay, uncps
from ..serial import outcome

RULE = {
    "title": "t",
    "logsource": {"category": "c", "product": "windows"},
    "tags": ["attack.t1000"],
    "level": "high",
    "author": "me",
    "severity_score": 5,
    "fields": ["fieldA", "fieldE"],
    "detection": {"sel": {"fieldA": ["foo*", "bar"], "fieldC": None, "fieldD": 5, "fieldG|fieldref": "fieldH", "fieldK": "kv", "Hashes": "MD5=aa11", "fieldS|cased": "Adm"}, "condition": "sel"},
}


# a second rule processed by the SAME pipeline object afterwards: its field list has, as an original entry, the name the
# first rule's fieldA was renamed to; nothing in its detection is touched by the preceding items
RULE2 = dict(RULE, fields=["fieldB"], detection={"sel": {"fieldQ": 1}, "condition": "sel"})


def cond_dict(level, c):
    t = c["t"]
    if level == "rule":
        if t == "logsource":
            d = {"type": "logsource"}
            for k, key in (("cat", "category"), ("prod", "product"), ("svc", "service")):
                if c[k]:
                    d[key] = uncps(c[k])
            return d
        if t == "contains_field":
            return {"type": "contains_field", "field": uncps(c["s"])}
        if t in ("is_sigma_rule", "is_sigma_correlation_rule"):
            return {"type": t}
        if t == "tag":
            return {"type": "tag", "tag": uncps(c["s"])}
        if t == "attr":
            v = uncps(c["v"])
            return {"type": "rule_attribute", "attribute": uncps(c["k"]), "op": c["s"], "value": int(v) if v.isdigit() else v}
        if t == "contains_item":
            v = uncps(c["v"])
            return {"type": "contains_detection_item", "field": uncps(c["k"]), "value": int(v) if v.isdigit() else v}
    if level == "item" and t in ("match_string", "match_value", "contains_wildcard", "is_null"):
        d = {"type": t, "cond": "all" if c["all"] else "any"}
        if t == "match_string":
            d["pattern"] = "^" + uncps(c["s"])
        if t == "match_value":
            d["value"] = uncps(c["s"])
        return d
    if level == "field" and t in ("include_re", "exclude_re"):
        import re

        return {"type": t[:-3] + "_fields", "mode": "re",
                "fields": [("(?i)" if p["ci"] else "") + re.escape(uncps(p["text"])) + ("$" if p["end"] else "") for p in c["pats"]]}
    if level == "field" and t in ("include", "exclude"):
        return {"type": t + "_fields", "fields": [uncps(n) for n in c["names"]]}
    if t == "applied":
        return {"type": "processing_item_applied", "processing_item_id": uncps(c["s"])}
    if t == "state":
        d = {"type": "processing_state", "key": uncps(c["k"]), "val": c["n"] if c["num"] else uncps(c["v"])}
        if c["op"] != "eq":
            d["op"] = c["op"]
        return d
    raise ValueError(f"unknown condition {level} {c}")


# names of the conditions in map + expression form: plain ones, and ones that begin with the words of the operators
COND_NAMES = {"rule": ["c1", "c2"], "item": ["not_c1", "order2"], "field": ["android1", "and-c2"]}


def expr_text(e, names):
    if e["k"] == "id":
        return names[e["i"] - 1]
    if e["k"] == "not":
        return "not (" + expr_text(e["a"], names) + ")"
    return "(" + expr_text(e["l"], names) + f") {e['k']} (" + expr_text(e["r"], names) + ")"


def group_keys(level, g, prefix):
    d = {}
    conds = [cond_dict(level, c) for c in g["conds"]]
    if g["link"] == "expr":
        names = COND_NAMES[level]
        d[prefix + "_conditions"] = {names[i]: c for i, c in enumerate(conds)}
        d[prefix + "_cond_expr"] = expr_text(g["expr"], names)
    else:
        d[prefix + "_conditions"] = conds
        if g["link"] != "default":  # and / or - or whatever word stands in their place
            d[prefix + "_cond_op"] = g["link"]
        if g["neg"]:
            d[prefix + "_cond_not"] = True
    return d


def pipeline_dict(G, nest=False):
    marker = {"id": "mark", "type": "field_name_suffix", "suffix": "_M"}
    marker.update(group_keys("rule", G["rule"], "rule"))
    marker.update(group_keys("item", G["item"], "detection_item"))
    marker.update(group_keys("field", G["field"], "field_name"))
    rulemark = {"id": "rmark", "type": "set_state", "key": "mark", "val": "1"}
    rulemark.update(group_keys("rule", G["rule"], "rule"))
    return {
        "name": "gate",
        "priority": 10,
        "transformations": [
            {"id": "st", "type": "set_state", "key": "k", "val": "v"},
            {"id": "pre", "type": "replace_string", "regex": "^kv$", "replacement": "kw",
             "field_name_conditions": [{"type": "include_fields", "fields": ["fieldK"]}]},
            {"id": "ren", "type": "field_name_mapping", "mapping": {"fieldA": "fieldB", "fieldK": ["fieldK1", "fieldK2"]}},
            # acts on ONE of the two items fieldK was replaced by
            {"id": "only1", "type": "replace_string", "regex": "^kw$", "replacement": "kx",
             "field_name_conditions": [{"type": "include_fields", "fields": ["fieldK1"]}]},
            # an item that is REPLACED by another one (Hashes -> FileMD5) after something was applied to it
            {"id": "hpre", "type": "replace_string", "regex": "^MD5", "replacement": "MD5",
             "field_name_conditions": [{"type": "include_fields", "fields": ["Hashes"]}]},
            {"id": "hsplit", "type": "hashes_fields", "valid_hash_algos": ["MD5"], "field_prefix": "File"},
            # a state variable whose value is falsy in Python: set all the same
            {"id": "st0", "type": "set_state", "key": "z", "val": ""},
            # a number
            {"id": "stn", "type": "set_state", "key": "n", "val": 5},
            # the key the rule marker sets has a value already: the marker (inside the nest as well) OVERWRITES it
            {"id": "stpre", "type": "set_state", "key": "mark", "val": "0"},
        ] + ([{"id": "wrap", "type": "nest", "items": [rulemark, marker]}] if nest else [rulemark, marker]),
    }


PP_FIRST = {
    "embed": {"type": "embed", "prefix": "[", "suffix": "]"},
    "simple_template": {"type": "simple_template", "template": "[{query}]"},
    "template": {"type": "template", "template": "[{{ query }}]"},
    "replace": {"type": "replace", "pattern": "zzz", "replacement": "y"},
}


def pp_pipeline_dict(G, pp, nest=False):
    d = pipeline_dict(G)
    mark = {"id": "pmark", "type": "embed", "prefix": "M(", "suffix": ")"}
    mark.update(group_keys("rule", G["rule"], "rule"))
    if nest:  # nest{T} = T for post-processing items as well
        mark = {"id": "pwrap", "type": "nest", "items": [mark]}
    d["postprocessing"] = ([dict(PP_FIRST[pp], id="first")] if pp != "none" else []) + [mark]
    d["transformations"] = d["transformations"][:8]
    return d


def drive_case(case):
    from sigma.processing.pipeline import ProcessingPipeline
    from sigma.rule import SigmaRule

    if case.get("pp", "-") != "-":
        from sigma.backends.test import TextQueryTestBackend

        def gopp():
            p = ProcessingPipeline.from_dict(pp_pipeline_dict(case["G"], case["pp"], bool(case.get("nest"))))
            q = TextQueryTestBackend(p).convert_rule(SigmaRule.from_dict(copy.deepcopy(RULE)))
            return {"items": [], "refs": [], "fields": [], "rule": all(x.startswith("M(") for x in q)}

        ret = outcome(gopp)
        if not ret["ok"]:
            ret["out"] = {"items": [], "fields": [], "rule": False, "refs": []}
        return {"id": case["id"], "G": case["G"], "pp": case["pp"], "nest": bool(case.get("nest")), "ret": ret}

    def go():
        p = ProcessingPipeline.from_dict(pipeline_dict(case["G"], bool(case.get("nest"))))
        r = SigmaRule.from_dict(copy.deepcopy(RULE))
        p.apply(r)
        # (a one-to-many renaming replaces an item by a nested detection holding one item per new name)
        items = [j for i in r.detection.detections["sel"].detection_items for j in (i.detection_items if hasattr(i, "detection_items") else [i])]
        out = {
            "items": [str(i.field).endswith("_M") for i in items],
            "refs": [v.field.endswith("_M") for i in items for v in i.value if type(v).__name__ == "SigmaFieldReference"],
            "fields": [f.endswith("_M") for f in r.fields],
            "rule": p.state.get("mark") == "1",
        }
        r2 = SigmaRule.from_dict(copy.deepcopy(RULE2))
        p.apply(r2)
        out["second"] = {"fields": [f.endswith("_M") for f in r2.fields], "rule": p.state.get("mark") == "1",
                         "items": [str(i.field).endswith("_M") for i in r2.detection.detections["sel"].detection_items]}
        return out

    ret = outcome(go)
    if not ret["ok"]:
        ret["out"] = {"items": [], "fields": [], "rule": False, "refs": [], "second": {"fields": [], "rule": False, "items": []}}
    return {"id": case["id"], "G": case["G"], "pp": "-", "nest": bool(case.get("nest")), "ret": ret}


def run(tier: str, seed: int) -> int:
    chk = Check("C13", tier, seed, "model_checking")
    chk.model_check("MC_Gating")
    cases = chk.generate("Gen_C13")
    obs = drive("harness.props.c13", "drive_case", cases)
    verdicts = chk.judge("Judge_C13", obs)
    from .. import corrupt as _corrupt

    chk.binding_selftest("Judge_C13", obs, verdicts, _corrupt.c13)
    by_id = {o["id"]: {"marker_item": dict(pipeline_dict(o["G"])["transformations"][10], inside_nest=bool(o.get("nest"))), "observed": o["ret"]["out"] if o["ret"]["ok"] else o["ret"]["exc"] + ": " + uncps(o["ret"]["msg"])} for o in obs}
    chk.absorb(verdicts, by_id, {c["id"]: c for c in cases})
    nontrivial = sum(1 for c in cases if sum(len(c["G"][k]["conds"]) for k in ("rule", "item", "field")) >= 1)
    samples = [by_id[o["id"]] for o in obs[:: max(1, len(obs) // 4)]][:4]
    return chk.finish(
        evaluations=len(obs),
        distinct_nontrivial=nontrivial,
        rule="TLC (Gen_C13) builds gate configurations from pools with a true and a false instance of every built-in condition "
        "type (12 rule, 11 detection-item, 8 field-name conditions): every group alone with 0, 1 or 2 conditions in list form "
        "(default/and/or linking x negation) or map form with every expression over 1-2 identifiers, incl. the EMPTY group "
        "under every linking/negation setting, plus a seeded product of 12 x 12 x 10 groups; a marker transformation behind "
        "a state-setting and a field-renaming item shows where it acted (8 detection items - one of them case-sensitive, two of them the replacements of a one-to-many renaming, one the replacement of a Hashes item -, a field reference in a value, 2 field-list entries, the rule); "
        "plus a marker post-processing item behind a first post-processing item of each kind (embed, simple_template, template, replace, none) "
        "gated on that item's application, plus the single-group gates once more with the marker items inside a nested pipeline; non-trivial = at least one condition",
        samples=samples,
        traces=len(obs),
        exhaustive=False,
    )


def replay(path: str) -> int:
    return _replay("C13", path, "harness.props.c13", "Judge_C13")
