"""C08 - a failing rule never changes other rules' output; every query is accounted for."""
from __future__ import annotations

import copy

from ..common import Check, drive, replay as _replay, uncps, cps
from ..docs import with_global_top

PIPELINE = """
name: verif-c08
priority: 10
transformations:
  - id: af
    type: add_field
    field: y
    rule_conditions:
      - type: logsource
        product: windows
  - id: st
    type: set_state
    key: index
    val: win
    rule_conditions:
      - type: logsource
        product: windows
  - id: boom
    type: rule_failure
    message: boom
    rule_conditions:
      - type: logsource
        category: failcat
  - id: wrap
    type: nest
    items:
      - id: nst
        type: set_state
        key: index
        val: nestwin
        rule_conditions:
          - type: logsource
            category: nestcat
  - id: dropper
    type: drop_detection_item
    field_name_conditions:
      - type: include_fields
        fields: [fieldDrop]
  - id: map
    type: field_name_mapping
    mapping:
      fieldA: mappedA
      fieldB: mappedB
      g: mappedG
      base: mappedBase
      y: mappedY
  - id: strict
    type: strict_field_mapping_failure
  - id: acond
    type: add_condition
    conditions:
      idx: main
    rule_conditions:
      - type: logsource
        category: dropcat
    rule_cond_not: true
  - id: pre
    type: field_name_prefix
    prefix: "p_"
  - id: sf
    type: set_field
    fields: [x]
    rule_conditions:
      - type: logsource
        product: linux
postprocessing:
  - id: showfields
    type: simple_template
    template: "{query} | fields={rule.fields}"
  - id: asjson
    type: json
    json_template: '{"lang": "test", "searches": ["%QUERY%", {"again": "%QUERY%"}], "enabled": true}'
"""


def rule_doc(kind: str, pos: int) -> dict:
    d = {
        "title": f"R{pos}",
        "name": f"r{pos}",
        "logsource": {"category": "c", "product": "linux"},
        "detection": {"sel": {"fieldA": f"v{pos}"}, "condition": "sel"},
        "fields": ["base"],
    }
    if kind == "ok2":
        d["detection"]["condition"] = ["sel", "not sel"]
    elif kind == "okstate":
        d["logsource"]["product"] = "windows"
    elif kind == "oknest":
        d["logsource"]["category"] = "nestcat"
    elif kind == "failP":
        d["logsource"]["category"] = "failcat"
    elif kind == "failPH":
        d["detection"]["sel"] = {"fieldA|expand": "%undefined%"}
    elif kind == "failT":
        d["detection"]["sel"] = [True]
    elif kind == "failC":
        d["detection"]["condition"] = "sel and missing"
    elif kind == "failU":  # a regular expression flag on a backend without flag support
        d["detection"]["sel"] = {"fieldA|re|i": "abc"}
    elif kind == "failNPH":  # fails while a value BELOW A NOT is converted
        d["detection"]["flt"] = {"fieldB|expand": "%undefined%"}
        d["detection"]["condition"] = "sel and not flt"
    elif kind == "failM":  # names the mapping's TARGET directly: no mapped field of this rule
        d["detection"]["sel"] = {"mappedA": f"v{pos}"}
    elif kind == "okdrop":  # the pipeline drops every detection item the rule has
        d["detection"]["sel"] = {"fieldDrop": f"v{pos}"}
        d["logsource"]["category"] = "dropcat"  # (the one category no condition is added for: nothing is left)
    elif kind == "okneg":
        d["detection"]["flt"] = {"fieldB|startswith": "x"}
        d["detection"]["condition"] = "sel and not flt"
    return d


def corr_doc(pos: int, generate: bool) -> dict:
    return {
        "title": f"R{pos}",
        "name": f"r{pos}",
        "correlation": {"type": "event_count", "rules": ["r1"], "group-by": ["g"], "timespan": "5m", "condition": {"gte": 1}, "generate": generate},
    }


NOTEQ = dict(convert_not_as_not_eq=True, not_eq_token="!=", not_eq_expression="{field}{backend.not_eq_token}{value}",
             not_startswith_expression="{field} not_startswith {value}", not_endswith_expression="{field} not_endswith {value}",
             not_contains_expression="{field} not_contains {value}", not_re_expression="{field}!=/{regex}/",
             not_cidr_expression="not_cidrmatch('{field}', \"{value}\")")


def _convert(docs, collect, noteq=False):
    from sigma.collection import SigmaCollection
    from sigma.backends.test import TextQueryTestBackend as Base

    # a class of its own for every conversion: what a conversion leaves behind on its backend CLASS stays with it
    from sigma.processing.pipeline import ProcessingPipeline

    TextQueryTestBackend = type("C08Backend", (Base,), dict(NOTEQ if noteq else {}, re_flag_prefix=False, re_flags={}, backend_processing_pipeline=ProcessingPipeline(),
                                                         # the query frame shows a pipeline state variable, with a default for rules that do not set it
                                                         query_expression="[idx={state[index]}] {query}", state_defaults={"index": "dflt"}))
    from sigma.processing.pipeline import ProcessingPipeline
    from sigma.exceptions import SigmaError

    r = {"ok": False, "out": [], "exc": "", "sigma": False, "errors": []}
    try:
        coll = SigmaCollection.from_dicts(copy.deepcopy(docs))
        b = TextQueryTestBackend(ProcessingPipeline.from_yaml(PIPELINE), collect_errors=collect)
        out = b.convert(coll, "state")
        r["out"] = [cps(q) for q in out]
        # error records are attributed by object identity (documents may be identical); rules keep
        # their document position here because the only correlation rule comes last
        pos = {id(rule): i + 1 for i, rule in enumerate(coll.rules)}
        r["errors"] = [[pos.get(id(rule), 0), type(e).__name__] for rule, e in b.errors]
        r["ok"] = True
    except Exception as e:  # noqa: BLE001
        r["exc"] = type(e).__name__
        r["sigma"] = isinstance(e, SigmaError)
    return r


def drive_case(case):
    kinds = case["kinds"]
    docs = [rule_doc(k, 0 if case.get("dup") else i + 1) for i, k in enumerate(kinds)]
    noteq = bool(case.get("noteq"))
    alone = [_convert([d], False, noteq) for d in docs]
    o = {"id": case["id"], "kinds": kinds, "collect": case["collect"], "corr": case["corr"], "dup": bool(case.get("dup")), "alone": alone}
    if case["corr"] != "none":
        c = corr_doc(len(kinds) + 1, case["corr"] == "gen")
        o["corr_alone"] = _convert([docs[0], c], False, noteq)
        docs = docs + [c]
    else:
        o["corr_alone"] = {"ok": False, "out": [], "exc": "", "sigma": False, "errors": []}
    # every other collection is written the short way: the field list the documents have in common stands once, in a
    # global action document (the rules alone are converted from their full documents)
    if case["corr"] == "none" and (case["id"] * 2654435761 >> 9) % 2 == 1:
        docs = with_global_top(docs, "fields")
    o["coll"] = _convert(docs, case["collect"], noteq)
    return o


def _pretty(o):
    def res(r):
        return {"out": [uncps(q) for q in r["out"]], "errors": r["errors"]} if r["ok"] else r["exc"]

    return {"kinds": o["kinds"], "dup": o.get("dup", False), "collect": o["collect"], "corr": o["corr"], "collection": res(o["coll"]), "alone": [res(a) for a in o["alone"]]}


def run(tier: str, seed: int) -> int:
    chk = Check("C08", tier, seed, "model_checking")
    chk.model_check("MC_Conversion", "MC_Conversion.cfg" if tier == "quick" else "MC_Conversion_thorough.cfg")
    from .. import tlc

    neg = tlc.run_tlc("MC_Conversion", "MC_Conversion_negative.cfg", workers=4, check_ok=False)
    if neg.invariant_violated is None:
        raise tlc.MachineryError("negative control: a not-equals context left without restoring the templates not refuted")
    chk.coverage["negative_control"] = {"cfg": "MC_Conversion_negative.cfg (templates not restored when the conversion raises inside a NOT)",
                                        "refuted_invariant": neg.invariant_violated}
    # objects handed from a pipeline item to the rules it processes (field lists, condition lists, added detections)
    chk.model_check("MC_Sharing")
    for cfg, inv in (("MC_Sharing_negative.cfg", "ConfigurationKept"), ("MC_Sharing_negative2.cfg", "EachRuleItsOwn")):
        neg = tlc.run_tlc("MC_Sharing", cfg, workers=4, check_ok=False)
        if neg.invariant_violated != inv:
            raise tlc.MachineryError(f"negative control {cfg}: handing out the configured object itself not refuted")
    chk.coverage["negative_control_sharing"] = {"cfgs": ["MC_Sharing_negative.cfg", "MC_Sharing_negative2.cfg"],
                                                "refuted": ["ConfigurationKept", "EachRuleItsOwn"],
                                                "mechanism": "the item hands its configured list object to every rule (set_field, add_condition, a filter's condition list before their repairs)"}
    cases = chk.generate("Gen_C08")
    obs = drive("harness.props.c08", "drive_case", cases, chunk=40)
    verdicts = chk.judge("Judge_C08", obs)
    from .. import corrupt as _corrupt

    chk.binding_selftest("Judge_C08", obs, verdicts, _corrupt.c08)
    by_id = {o["id"]: _pretty(o) for o in obs}
    chk.absorb(verdicts, by_id, {c["id"]: c for c in cases})
    nontrivial = sum(1 for c in cases if len(c["kinds"]) >= 2 and any(k.startswith("fail") for k in c["kinds"]))
    samples = [by_id[o["id"]] for o in obs[:: max(1, len(obs) // 4)]][:4]
    return chk.finish(
        evaluations=len(obs),
        distinct_nontrivial=nontrivial,
        rule="TLC (Gen_C08) enumerates every sequence of 1..3 (thorough 4) rules over 8 kinds (one/two conditions, "
        "pipeline-state-setting at the top level and inside a nested pipeline, failing in the pipeline, on an unresolved placeholder, on an unsupported value, on a "
        "missing detection) x collect on/off x without / with a non-generating / generating correlation rule over rule 1, plus "
        "every sequence with a repeated kind once more with IDENTICAL documents per kind (equal rule objects failing with equal errors); every "
        "collection is converted with a stateful pipeline and output format and compared with per-rule fresh "
        "conversions; non-trivial = at least two rules of which at least one fails",
        samples=samples,
        traces=len(obs),
        exhaustive=True,
    )


def replay(path: str) -> int:
    return _replay("C08", path, "harness.props.c08", "Judge_C08")
