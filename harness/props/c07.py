"""C07 - malformed documents raise Sigma errors only; collecting mode never raises."""
from __future__ import annotations

from ..common import Check, drive, replay as _replay, uncps, cps

KEYMARK = {"\x01i": 5, "\x01b": True, "\x01n": None}


def to_py(n):
    t = n["t"]
    if t == "map":
        d = {}
        for k, v in n["kv"]:
            ks = uncps(k)
            d[KEYMARK.get(ks, ks)] = to_py(v)
        return d
    if t == "list":
        return [to_py(x) for x in n["items"]]
    if t == "str":
        return uncps(n["s"])
    if t == "int":
        return n["n"]
    if t == "float":
        if n["d"] == 0:  # the special floats of YAML: .inf / .nan
            return float("inf") if n["n"] else float("nan")
        return n["n"] / n["d"]
    if t == "bool":
        return bool(n["b"])
    return None


GLOBAL_DOC = {"action": "global", "level": "critical", "tags": ["attack.g0001"], "logsource": {"product": "gp"}, "detection": {"gsel": {"g": 1}}}
RULE_DOC = {"title": "Valid rule", "logsource": {"category": "c"}, "detection": {"sel": {"a": 1}, "condition": "sel"}}


CORR_DOC = {"title": "Valid correlation", "correlation": {"type": "event_count", "rules": ["base_rule", "11111111-1111-4111-8111-111111111111"],
                                                          "group-by": ["g"], "timespan": "5m", "condition": {"gte": 2}}}
NAMED_RULE_DOC = {"title": "Base rule", "name": "base_rule", "id": "11111111-1111-4111-8111-111111111111", "logsource": {"category": "c"},
                  "detection": {"sel": {"fieldA": "a"}, "condition": "sel"}}
FULL_RULE_DOC = {"title": "Base rule", "name": "base_rule", "logsource": {"category": "process_creation", "product": "windows"},
                 "detection": {"sel": {"fieldA": "a"}, "condition": "sel"}}


def _err(e):
    return [type(e).__name__, cps(str(e))[:200]]


def _load(fn, errors_of):
    from sigma.exceptions import SigmaError

    r = {"ok": False, "sigma": False, "err": ["", []], "errors": [], "exc": ""}
    try:
        obj = fn()
        r["ok"] = True
        r["errors"] = [_err(e) for e in errors_of(obj)]
    except Exception as e:  # noqa: BLE001
        r["sigma"] = isinstance(e, SigmaError)
        r["err"] = _err(e)
        r["exc"] = type(e).__name__
    return r


def drive_case(case):
    if "_pydoc" in case:  # a document harvested from the repository's own tests, already a Python object
        return _drive(case, case["_pydoc"])
    return _drive(case, to_py(case["doc"]))


def _drive(case, doc):
    import copy
    from sigma.rule import SigmaRule
    from sigma.correlations import SigmaCorrelationRule
    from sigma.filters import SigmaFilter
    from sigma.collection import SigmaCollection

    o = {"id": case["id"], "kind": case["kind"], "mut": case["mut"]}

    def coll_errors(c):
        return list(c.errors) + [e for r in c.rules for e in r.errors] + [e for f in c.filters for e in f.errors]

    # collection actions: the document is loaded together with a global / repeat action document
    docs = [doc]
    if case["kind"] == "global+rule":
        docs = [GLOBAL_DOC, doc]
    elif case["kind"] == "global*+rule":
        docs = [doc, RULE_DOC]
    elif case["kind"] == "rule+repeat*":
        if isinstance(doc, dict) and doc.get("action") == "global":
            doc["action"] = "repeat"
        docs = [RULE_DOC, doc]
    elif case["kind"] == "rule*+corr":
        docs = [doc, CORR_DOC]
    elif case["kind"] == "rule+corr*":
        docs = [NAMED_RULE_DOC, doc]
    elif case["kind"] == "rule+filter*":
        docs = [FULL_RULE_DOC, doc]
    resolve = case["kind"] in ("rule*+corr", "rule+corr*", "rule+filter*")
    o["coll_strict"] = _load(lambda: SigmaCollection.from_dicts(copy.deepcopy(docs), resolve_references=resolve), lambda x: [])
    o["coll_collect"] = _load(lambda: SigmaCollection.from_dicts(copy.deepcopy(docs), collect_errors=True, resolve_references=resolve), coll_errors)
    # the same two loads of the SAME objects, as a caller does who keeps the parsed YAML: what the first load does to
    # its input is part of what the second one sees
    same = copy.deepcopy(docs)
    o["same_strict"] = _load(lambda: SigmaCollection.from_dicts(same, resolve_references=resolve), lambda x: [])
    o["same_collect"] = _load(lambda: SigmaCollection.from_dicts(same, collect_errors=True, resolve_references=resolve), coll_errors)
    # ... and through SigmaCollection.load_ruleset (one file holding the documents)
    import os, tempfile, yaml

    def ruleset(collect):
        # (the same path for both loads: error texts name the file)
        path = os.path.join(tempfile.gettempdir(), f"verif_c07_{os.getpid()}.yml")
        try:
            with open(path, "w") as f:
                yaml.safe_dump_all(docs, f)
            return SigmaCollection.load_ruleset([path], collect_errors=collect, resolve_references=resolve)
        finally:
            os.unlink(path)

    try:
        yaml.safe_dump_all(docs)
        dumpable = True
    except Exception:  # noqa: BLE001  (documents with values YAML cannot write are not files)
        dumpable = False
    if dumpable:
        o["file_strict"] = _load(lambda: ruleset(False), lambda x: [])
        o["file_collect"] = _load(lambda: ruleset(True), coll_errors)
    else:
        o["file_strict"], o["file_collect"] = o["coll_strict"], o["coll_collect"]
    # ... and merged from one collection per document, handed to merge() as a GENERATOR (any iterable is accepted)
    if "global" in case["kind"] or "repeat" in case["kind"]:  # (action documents act on the documents of THEIR collection)
        o["merge_strict"], o["merge_collect"] = o["coll_strict"], o["coll_collect"]
    else:
        def merged(collect):
            parts = (SigmaCollection.from_dicts([copy.deepcopy(d)], collect_errors=collect, resolve_references=False) for d in docs)
            return SigmaCollection.merge(parts, collect_errors=collect, resolve_references=resolve)

        o["merge_strict"] = _load(lambda: merged(False), lambda x: [])
        o["merge_collect"] = _load(lambda: merged(True), coll_errors)
    if case["kind"] in ("rule", "corr", "filter"):
        cls = {"rule": SigmaRule, "corr": SigmaCorrelationRule, "filter": SigmaFilter}[case["kind"]]
        o["direct_strict"] = _load(lambda: cls.from_dict(copy.deepcopy(doc)), lambda x: [])
        o["direct_collect"] = _load(lambda: cls.from_dict(copy.deepcopy(doc), collect_errors=True), lambda x: x.errors)
    else:
        o["direct_strict"], o["direct_collect"] = o["coll_strict"], o["coll_collect"]
    o["_doc"] = repr(doc)[:600]
    return o


def run(tier: str, seed: int) -> int:
    chk = Check("C07", tier, seed, "exploration")
    chk.model_check("MC_Loader")
    cases = chk.generate("Gen_C07", shards=[1, 2, 3, 4, 5, 6])
    obs = drive("harness.props.c07", "drive_case", cases)
    # plus every document the repository's own test suite hands to the loaders
    from ..harvest import harvest

    hv = harvest({"doc"})["doc"]
    hobs = [drive_case({"id": 8_000_000 + i, "kind": h["cls"], "mut": "harvested", "_pydoc": h["doc"]}) for i, h in enumerate(hv) if isinstance(h["doc"], dict)]
    chk.coverage["harvested_from_repository_tests"] = len(hobs)
    obs += hobs
    docs = {o["id"]: o.pop("_doc") for o in obs}
    verdicts = chk.judge("Judge_C07", obs)
    from .. import corrupt as _corrupt

    chk.binding_selftest("Judge_C07", obs, verdicts, _corrupt.c07)

    def pretty(o):
        def res(r):
            return "ok errors=" + str([[e[0], uncps(e[1])[:80]] for e in r["errors"]]) if r["ok"] else r["exc"] + ": " + uncps(r["err"][1])[:120]

        return {"kind": o["kind"], "mutation": o["mut"], "doc": docs[o["id"]], "strict": res(o["direct_strict"]), "collect": res(o["direct_collect"]),
                "collection_strict": res(o["coll_strict"]), "collection_collect": res(o["coll_collect"])}

    by_id = {o["id"]: pretty(o) for o in obs}
    chk.absorb(verdicts, by_id, {c["id"]: c for c in cases} | {o["id"]: {"id": o["id"], "harvested": docs.get(o["id"], "")} for o in hobs})
    invalid = sum(1 for o in obs if not o["direct_strict"]["ok"])
    samples = [by_id[o["id"]] for o in obs[:: max(1, len(obs) // 4)]][:4]
    return chk.finish(
        evaluations=len(obs),
        distinct_nontrivial=len({docs[o["id"]] for o in obs if o["mut"] != "none"}),
        rule="TLC (Gen_C07) mutates 4 base documents (rule with every metadata field and all detection shapes, correlation, "
        "extended correlation, filter) at EVERY path of their trees: value replaced by each of 23 replacements (scalars of "
        "every type, empty/non-empty list and map, out-of-range date / timespan / pattern texts, .inf / .nan, nested lists), entry deleted, key replaced "
        "(text, empty, integer, boolean, null, key with unknown modifier), whole document replaced; plus seeded random nested "
        "data; plus collection actions (the rule mutated under the keys a preceding global action document merges into, a mutated "
        "global / repeat action document around a valid rule); each document is loaded strictly and collecting, through its class and through SigmaCollection.from_dicts; "
        "distinct = distinct documents; non-trivial = mutated",
        samples=samples,
        traces=len(obs),
        exhaustive=True,
        extra={"documents_strict_loading_rejects": invalid},
    )


def replay(path: str) -> int:
    return _replay("C07", path, "harness.props.c07", "Judge_C07")
