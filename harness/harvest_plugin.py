"""pytest plugin: records what the repository's OWN test suite feeds into (and gets out of) the
public entry points the specifications talk about.  Nothing in /repo is changed: the plugin wraps
the entry points from outside, for the duration of the test run, and writes one JSON line per
distinct call to $VERIF_HARVEST_OUT.  Loaded with `-p harness.harvest_plugin` (PYTHONPATH=/verif).

Recorded (kind = first field):
  mapping    SigmaDetectionItem.from_mapping(key, value) and what it RETURNED (values, linking,
             negation) or raised - the observation format of Judge_C03, taken in the test process
  cidr       SigmaCIDRExpression(text).expand() and what it returned            (Judge_C18)
  string     every text a SigmaString was built from                             (corpus for C05)
  condition  condition text + detection names of every SigmaCondition parsed     (corpus for C02)
  doc        every document given to SigmaRule / SigmaCorrelationRule / SigmaFilter.from_dict
             (pickled; corpus for C07 and C06)
Calls made while another recorded call is running (nested) are recorded too; the wrappers never
change arguments, results or exceptions.
"""
from __future__ import annotations

import base64
import json
import os
import pickle

_OUT = None
_SEEN = set()
_MAX = {"mapping": 20000, "cidr": 5000, "string": 20000, "condition": 5000, "doc": 5000}
_COUNT = {}


def _emit(kind, key, rec):
    if _OUT is None:
        return
    k = (kind, key)
    if k in _SEEN or _COUNT.get(kind, 0) >= _MAX[kind]:
        return
    _SEEN.add(k)
    _COUNT[kind] = _COUNT.get(kind, 0) + 1
    rec["kind"] = kind
    _OUT.write(json.dumps(rec) + "\n")


def _plain_ok(v):
    return v is None or isinstance(v, (str, int, float, bool))


def _install():
    from sigma.rule.detection import SigmaDetectionItem
    from sigma.types import SigmaString, SigmaCIDRExpression
    from sigma.conditions import SigmaCondition
    from sigma.rule import SigmaRule
    from sigma.correlations import SigmaCorrelationRule
    from sigma.filters import SigmaFilter
    from .serial import outcome
    from .props.c04 import dump_item

    # ---- mapping -------------------------------------------------------------------------
    orig_fm = SigmaDetectionItem.from_mapping.__func__

    def from_mapping(cls, key, val, *a, **kw):
        res, exc = None, None
        try:
            res = orig_fm(cls, key, val, *a, **kw)
            return res
        except BaseException as e:  # noqa: BLE001
            exc = e
            raise
        finally:
            try:
                vals = val if isinstance(val, list) else [val]
                if (key is None or isinstance(key, str)) and all(_plain_ok(v) for v in vals):
                    if exc is None:
                        ret = outcome(lambda: dump_item(res))
                    else:
                        from sigma.exceptions import SigmaError

                        ret = {"ok": False, "out": None, "exc": type(exc).__name__, "sigma": isinstance(exc, SigmaError), "msg": []}
                    _emit("mapping", repr((key, val)), {"key": key, "val": val, "islist": isinstance(val, list), "ret": ret})
            except Exception:  # noqa: BLE001  recording must never disturb the test
                pass

    SigmaDetectionItem.from_mapping = classmethod(from_mapping)

    # ---- cidr ----------------------------------------------------------------------------
    orig_expand = SigmaCIDRExpression.expand

    def expand(self, *a, **kw):
        r = orig_expand(self, *a, **kw)
        try:
            if not a and not kw:
                _emit("cidr", self.cidr, {"text": self.cidr, "out": list(r)})
        except Exception:  # noqa: BLE001
            pass
        return r

    SigmaCIDRExpression.expand = expand

    # ---- string --------------------------------------------------------------------------
    orig_init = SigmaString.__init__

    def init(self, s=None, *a, **kw):
        orig_init(self, s, *a, **kw)
        try:
            if isinstance(s, str) and len(s) <= 40 and type(self) is SigmaString:
                _emit("string", s, {"text": s})
        except Exception:  # noqa: BLE001
            pass

    SigmaString.__init__ = init

    # ---- condition -----------------------------------------------------------------------
    orig_parse = SigmaCondition.parse

    def parse(self, *a, **kw):
        try:
            names = list(self.detections.detections.keys())
            if isinstance(self.condition, str) and all(isinstance(n, str) for n in names) and len(names) <= 8:
                _emit("condition", repr((self.condition, names)), {"text": self.condition, "names": names})
        except Exception:  # noqa: BLE001
            pass
        return orig_parse(self, *a, **kw)

    SigmaCondition.parse = parse

    # ---- documents -----------------------------------------------------------------------
    def wrap_from_dict(cls, tag):
        orig = cls.from_dict.__func__

        def from_dict(c, d, *a, **kw):
            try:
                blob = pickle.dumps(d)
                if len(blob) <= 20000:
                    _emit("doc", (tag, blob), {"cls": tag, "blob": base64.b64encode(blob).decode()})
            except Exception:  # noqa: BLE001
                pass
            return orig(c, d, *a, **kw)

        cls.from_dict = classmethod(from_dict)

    wrap_from_dict(SigmaRule, "rule")
    wrap_from_dict(SigmaCorrelationRule, "corr")
    wrap_from_dict(SigmaFilter, "filter")


def pytest_configure(config):
    global _OUT
    path = os.environ.get("VERIF_HARVEST_OUT")
    if not path:
        return
    _OUT = open(path, "a", buffering=1)
    _install()


def pytest_unconfigure(config):
    global _OUT
    if _OUT is not None:
        _OUT.close()
        _OUT = None
