#!/bin/sh
# Offline setup: nothing to build (specs are interpreted by TLC, drivers by /venv python).
# Sanity: tools present, every spec module parses (SANY), pySigma importable from /repo.
set -e
cd "$(dirname "$0")"
command -v java >/dev/null
test -f /opt/veriftools/tla/tla2tools.jar
/venv/bin/python -c "import sys; sys.path.insert(0,'/repo'); import sigma.rule, sigma.conversion.base, sigma.collection"
mkdir -p evidence replay
cd spec
ls *.tla | xargs -P 16 -I{} sh -c 'java -cp /opt/veriftools/tla/tla2tools.jar:/opt/veriftools/tla/CommunityModules-deps.jar tla2sany.SANY {} >/dev/null 2>&1 || { echo "SANY failed: {}"; exit 255; }'
echo "setup ok"
