----------------------------- MODULE QueryLang -----------------------------
(***************************************************************************)
(* The target query language of the /verif backend family (see             *)
(* harness/backend.py for the templates).  A query is read from its raw    *)
(* code points by a scannerless parser: atoms, then a Pratt (precedence    *)
(* climbing) evaluator whose binding powers come from the configured       *)
(* precedence order K.prec (tightest first), so that a query means what    *)
(* the TARGET language says it means, not what the converter intended.     *)
(*                                                                         *)
(* Result: a QExpr                                                         *)
(*   [k |-> "leaf", a |-> Atom] | [k |-> "not", a |-> QExpr]               *)
(*   [k |-> "and"/"or", args |-> Seq(QExpr)]                               *)
(* Atom == [f, k, p, x, raw]: field name (<<>> = keyword search), kind,    *)
(*   payload and extra (sequences of integers), raw = field was emitted    *)
(*   without quoting (recorded deviation for native CIDR).                 *)
(***************************************************************************)
EXTENDS SigmaStr

\* ---- atoms and expressions ----------------------------------------------
MkAtom(f, k, p, x) == [f |-> f, k |-> k, p |-> p, x |-> x, raw |-> FALSE]
QLeaf(a) == [k |-> "leaf", a |-> a]
QNot(e) == [k |-> "not", a |-> e]
QAnd(args) == [k |-> "and", args |-> args]
QOr(args) == [k |-> "or", args |-> args]
QTrue == QAnd(<<>>)

\* adjacent multi-character wildcards mean the same as one
RECURSIVE Collapse(_)
Collapse(p) ==
    IF Len(p) < 2 THEN p
    ELSE IF p[1] = STAR /\ p[2] = STAR THEN Collapse(Tail(p))
    ELSE <<p[1]>> \o Collapse(Tail(p))
StrAtom(f, cased, parts) == MkAtom(f, IF cased THEN "cased" ELSE "str", Collapse(parts), <<>>)

RECURSIVE Gcd(_, _)
Gcd(a, b) == IF b = 0 THEN a ELSE Gcd(b, a % b)
Abs(n) == IF n < 0 THEN 0 - n ELSE n
ReduceFrac(n, d) == LET g == Gcd(Abs(n), d) IN IF g = 0 THEN <<0, 1>> ELSE <<n \div g, d \div g>>

\* ---- literal syntax of the target ----------------------------------------
KQ == [esc |-> 92, wm |-> <<42>>, ws |-> <<63>>, add |-> {92}, filt |-> {}, quote |-> 34, cq |-> FALSE]
FAIL == [ok |-> FALSE, i |-> 0, e |-> QTrue]
Res(i, e) == [ok |-> TRUE, i |-> i, e |-> e]

RECURSIVE SkipSp(_, _)
SkipSp(t, i) == IF i <= Len(t) /\ t[i] = 32 THEN SkipSp(t, i + 1) ELSE i

\* position of the closing delimiter q of a body starting at i (backslash escapes the next char), 0 if none
RECURSIVE CloseAt(_, _, _)
CloseAt(t, i, q) ==
    IF i > Len(t) THEN 0
    ELSE IF t[i] = 92 THEN CloseAt(t, i + 2, q)
    ELSE IF t[i] = q THEN i
    ELSE CloseAt(t, i + 1, q)
RECURSIVE Unescape(_)
Unescape(s) ==
    IF s = <<>> THEN <<>>
    ELSE IF s[1] = 92 /\ Len(s) >= 2 THEN <<s[2]>> \o Unescape(SubSeq(s, 3, Len(s)))
    ELSE <<s[1]>> \o Unescape(Tail(s))

\* `name`  ->  [ok, i (after), v (name)]
LexField(t, i) ==
    IF i <= Len(t) /\ t[i] = 96 THEN
        LET c == CloseAt(t, i + 1, 96) IN
        IF c = 0 THEN [ok |-> FALSE, i |-> 0, v |-> <<>>]
        ELSE [ok |-> TRUE, i |-> c + 1, v |-> Unescape(Slice(t, i + 1, c - 1))]
    ELSE [ok |-> FALSE, i |-> 0, v |-> <<>>]
\* "body"  ->  parts
LexStr(t, i) ==
    IF i <= Len(t) /\ t[i] = 34 THEN
        LET c == CloseAt(t, i + 1, 34) IN
        IF c = 0 THEN [ok |-> FALSE, i |-> 0, v |-> <<>>]
        ELSE LET d == DecodeBody(KQ, Slice(t, i + 1, c - 1))
             IN  [ok |-> \A j \in 1..Len(d) : d[j] # BAD, i |-> c + 1, v |-> d]
    ELSE [ok |-> FALSE, i |-> 0, v |-> <<>>]
\* number: -?digits(.digits)?  ->  reduced fraction
RECURSIVE DigitsEnd(_, _)
DigitsEnd(t, i) == IF i <= Len(t) /\ IsDigit(t[i]) THEN DigitsEnd(t, i + 1) ELSE i
RECURSIVE DecOf(_)
DecOf(s) == IF s = <<>> THEN 0 ELSE DecOf(SubSeq(s, 1, Len(s) - 1)) * 10 + (s[Len(s)] - 48)
RECURSIVE Pow10(_)
Pow10(n) == IF n = 0 THEN 1 ELSE 10 * Pow10(n - 1)
LexNum(t, i) ==
    LET neg == i <= Len(t) /\ t[i] = 45
        s == IF neg THEN i + 1 ELSE i
        e1 == DigitsEnd(t, s)
        frac == e1 <= Len(t) /\ t[e1] = 46 /\ DigitsEnd(t, e1 + 1) > e1 + 1
        e2 == IF frac THEN DigitsEnd(t, e1 + 1) ELSE e1
        ip == DecOf(Slice(t, s, e1 - 1))
        fp == IF frac THEN Slice(t, e1 + 1, e2 - 1) ELSE <<>>
        n == ip * Pow10(Len(fp)) + DecOf(fp)
    IN  IF e1 = s \/ Len(Slice(t, s, e2 - 1)) > 8 THEN [ok |-> FALSE, i |-> 0, v |-> <<>>]
        ELSE [ok |-> TRUE, i |-> e2, v |-> ReduceFrac(IF neg THEN 0 - n ELSE n, Pow10(Len(fp)))]
\* /regex/flags
RECURSIVE FlagsEnd(_, _)
FlagsEnd(t, i) == IF i <= Len(t) /\ t[i] \in {105, 109, 115} THEN FlagsEnd(t, i + 1) ELSE i
\* ... and the literal of a target that takes regular expressions VERBATIM: delimited by broken bars (code point 166,
\* which no expression contains), nothing escaped, nothing to undo
RECURSIVE NextAt(_, _, _)
NextAt(t, i, q) == IF i > Len(t) THEN 0 ELSE IF t[i] = q THEN i ELSE NextAt(t, i + 1, q)
LexRegex(t, i) ==
    IF i <= Len(t) /\ t[i] = 166 THEN
        LET c == NextAt(t, i + 1, 166) IN
        IF c = 0 THEN [ok |-> FALSE, i |-> 0, v |-> <<>>, fl |-> <<>>]
        ELSE [ok |-> TRUE, i |-> FlagsEnd(t, c + 1), v |-> Slice(t, i + 1, c - 1), fl |-> Slice(t, c + 1, FlagsEnd(t, c + 1) - 1)]
    ELSE IF i <= Len(t) /\ t[i] = 47 THEN
        LET c == CloseAt(t, i + 1, 47) IN
        IF c = 0 THEN [ok |-> FALSE, i |-> 0, v |-> <<>>, fl |-> <<>>]
        ELSE [ok |-> TRUE, i |-> FlagsEnd(t, c + 1), v |-> Unescape(Slice(t, i + 1, c - 1)),
              fl |-> Slice(t, c + 1, FlagsEnd(t, c + 1) - 1)]
    ELSE [ok |-> FALSE, i |-> 0, v |-> <<>>, fl |-> <<>>]

\* :opname:
RECURSIVE AlphaEnd(_, _)
AlphaEnd(t, i) == IF i <= Len(t) /\ IsLower(t[i]) THEN AlphaEnd(t, i + 1) ELSE i
LexOp(t, i) ==
    IF i <= Len(t) /\ t[i] = 58 THEN
        LET e == AlphaEnd(t, i + 1) IN
        IF e > i + 1 /\ e <= Len(t) /\ t[e] = 58 THEN [ok |-> TRUE, i |-> e + 1, v |-> Slice(t, i + 1, e - 1)]
        ELSE [ok |-> FALSE, i |-> 0, v |-> <<>>]
    ELSE [ok |-> FALSE, i |-> 0, v |-> <<>>]

\* operator names (code points)
O_eq == <<101,113>>            O_neq == <<110,101,113>>
O_sw == <<115,119>>            O_nsw == <<110,115,119>>
O_ew == <<101,119>>            O_new == <<110,101,119>>
O_ct == <<99,116>>             O_nct == <<110,99,116>>
O_wm == <<119,109>>
O_ceq == <<99,101,113>>
O_csw == <<99,115,119>>        O_ncsw == <<110,99,115,119>>
O_cew == <<99,101,119>>        O_ncew == <<110,99,101,119>>
O_cct == <<99,99,116>>         O_ncct == <<110,99,99,116>>
O_re == <<114,101>>            O_nre == <<110,114,101>>
O_cidr == <<99,105,100,114>>   O_ncidr == <<110,99,105,100,114>>
O_null == <<110,117,108,108>>  O_exists == <<101,120,105,115,116,115>>  O_nexists == <<110,101,120,105,115,116,115>>
O_lt == <<108,116>> O_lte == <<108,116,101>> O_gt == <<103,116>> O_gte == <<103,116,101>>
O_fref == <<102,114,101,102>>  O_frefsw == <<102,114,101,102,115,119>>
O_frefew == <<102,114,101,102,101,119>>  O_frefct == <<102,114,101,102,99,116>>
O_lookup == <<108,111,111,107,117,112>>
O_in == <<105,110>>            O_allof == <<97,108,108,111,102>>
W_true == <<116,114,117,101>>  W_false == <<102,97,108,115,101>>
W_AND == <<65,78,68>> W_OR == <<79,82>> W_NOT == <<78,79,84>> W_KW == <<75,87>>

\* string-match operators: [neg, cased, shape]
StrOps == {O_eq, O_neq, O_sw, O_nsw, O_ew, O_new, O_ct, O_nct, O_wm, O_ceq, O_csw, O_ncsw, O_cew, O_ncew, O_cct, O_ncct}
OpNeg(o) == o \in {O_neq, O_nsw, O_new, O_nct, O_ncsw, O_ncew, O_ncct, O_nre, O_ncidr, O_nexists}
OpCased(o) == o \in {O_ceq, O_csw, O_ncsw, O_cew, O_ncew, O_cct, O_ncct}
OpShape(o, p) ==
    CASE o \in {O_sw, O_nsw, O_csw, O_ncsw} -> p \o <<STAR>>
      [] o \in {O_ew, O_new, O_cew, O_ncew} -> <<STAR>> \o p
      [] o \in {O_ct, O_nct, O_cct, O_ncct} -> <<STAR>> \o p \o <<STAR>>
      [] OTHER -> p
Neg(o, e) == IF OpNeg(o) THEN QNot(e) ELSE e

\* one list element: string or number
LexListItem(t, i, f) ==
    LET s == LexStr(t, i)
        n == LexNum(t, i)
    IN  IF s.ok THEN Res(s.i, QLeaf(StrAtom(f, FALSE, s.v)))
        ELSE IF n.ok THEN Res(n.i, QLeaf(MkAtom(f, "num", n.v, <<>>)))
        ELSE FAIL
RECURSIVE LexList(_, _, _)
LexList(t, i, f) ==     \* after '[' ; returns [ok, i, items]
    LET it == LexListItem(t, i, f) IN
    IF ~it.ok THEN [ok |-> FALSE, i |-> 0, items |-> <<>>]
    ELSE IF it.i <= Len(t) /\ t[it.i] = 93 THEN [ok |-> TRUE, i |-> it.i + 1, items |-> <<it.e>>]
    ELSE IF it.i + 1 <= Len(t) /\ t[it.i] = 44 /\ t[it.i + 1] = 32 THEN
        LET r == LexList(t, it.i + 2, f) IN
        IF r.ok THEN [ok |-> TRUE, i |-> r.i, items |-> <<it.e>> \o r.items] ELSE r
    ELSE [ok |-> FALSE, i |-> 0, items |-> <<>>]

\* value part of an atom, given field f, optional timestamp unit u and operator o
AtomTail(t, i, f, u, o, rawfield) ==
    LET mark(a) == [a EXCEPT !.raw = rawfield] IN
    IF o \in {O_null, O_exists, O_nexists} THEN
        Res(i, Neg(o, QLeaf(mark(MkAtom(f, IF o = O_null THEN "null" ELSE "exists", <<>>, <<>>)))))
    ELSE IF o \in {O_re, O_nre} THEN
        LET r == LexRegex(t, i) IN
        IF r.ok THEN Res(r.i, Neg(o, QLeaf(mark(MkAtom(f, "re", r.v, r.fl))))) ELSE FAIL
    ELSE IF o \in {O_cidr, O_ncidr} THEN
        LET s == LexStr(t, i) IN
        IF s.ok THEN Res(s.i, Neg(o, QLeaf(mark(MkAtom(f, "cidr", s.v, <<>>))))) ELSE FAIL
    ELSE IF o = O_lookup THEN          \* query expression inserted by a placeholder transformation
        LET s == LexStr(t, i) IN
        IF s.ok THEN Res(s.i, QLeaf(mark(MkAtom(f, "qx", s.v, <<>>)))) ELSE FAIL
    ELSE IF o \in {O_lt, O_lte, O_gt, O_gte} THEN
        LET n == LexNum(t, i) IN
        IF n.ok THEN Res(n.i, QLeaf(mark(MkAtom(f, "cmp", n.v, o \o <<47>> \o u)))) ELSE FAIL
    ELSE IF o \in {O_fref, O_frefsw, O_frefew, O_frefct} THEN
        LET g == LexField(t, i) IN
        IF g.ok THEN Res(g.i, QLeaf(mark(MkAtom(f, "fref", g.v,
                            CASE o = O_fref -> <<0, 0>> [] o = O_frefsw -> <<1, 0>>
                              [] o = O_frefew -> <<0, 1>> [] OTHER -> <<1, 1>>))))
        ELSE FAIL
    ELSE IF o \in {O_in, O_allof} THEN
        IF i <= Len(t) /\ t[i] = 91 THEN
            LET r == LexList(t, i + 1, f) IN
            IF r.ok THEN Res(r.i, IF o = O_in THEN QOr(r.items) ELSE QAnd(r.items)) ELSE FAIL
        ELSE FAIL
    ELSE IF o \in StrOps THEN
        LET s == LexStr(t, i)
            n == LexNum(t, i)
        IN  IF s.ok THEN Res(s.i, Neg(o, QLeaf(mark(StrAtom(f, OpCased(o), OpShape(o, s.v))))))
            ELSE IF o \notin {O_eq, O_neq} THEN FAIL
            ELSE IF n.ok THEN
                Res(n.i, Neg(o, QLeaf(mark(IF u = <<>> THEN MkAtom(f, "num", n.v, <<>>) ELSE MkAtom(f, "ts", n.v, u)))))
            ELSE IF StartsWithAt(t, i, W_true) THEN Res(i + 4, Neg(o, QLeaf(mark(MkAtom(f, "bool", <<1>>, <<>>)))))
            ELSE IF StartsWithAt(t, i, W_false) THEN Res(i + 5, Neg(o, QLeaf(mark(MkAtom(f, "bool", <<0>>, <<>>)))))
            ELSE FAIL
    ELSE FAIL

PosOf2(t, i, a, b) ==   \* least j >= i with t[j] = a /\ t[j+1] = b, or 0
    LET J == {j \in i..(Len(t) - 1) : t[j] = a /\ t[j + 1] = b}
    IN  IF J = {} THEN 0 ELSE CHOOSE j \in J : \A j2 \in J : j <= j2

ParseAtom(t, i) ==
    IF StartsWithAt(t, i, W_KW) THEN
        LET o == LexOp(t, i + 2) IN
        IF o.ok THEN AtomTail(t, o.i, <<>>, <<>>, o.v, FALSE) ELSE FAIL
    ELSE IF StartsWithAt(t, i, <<60, 60>>) THEN                 \* <<field>> : the native CIDR template
        LET c == PosOf2(t, i + 2, 62, 62) IN
        IF c = 0 THEN FAIL
        ELSE LET inner == Slice(t, i + 2, c - 1)
                 q == LexField(inner, 1)
                 quoted == q.ok /\ q.i = Len(inner) + 1
                 o == LexOp(t, c + 2)
             IN  IF o.ok THEN AtomTail(t, o.i, IF quoted THEN q.v ELSE inner, <<>>, o.v, ~quoted) ELSE FAIL
    ELSE
        LET f == LexField(t, i) IN
        IF ~f.ok THEN FAIL
        ELSE LET hasU == f.i <= Len(t) /\ t[f.i] = 46
                 ue == IF hasU THEN AlphaEnd(t, f.i + 1) ELSE f.i
                 u == IF hasU THEN Slice(t, f.i + 1, ue - 1) ELSE <<>>
                 o == LexOp(t, ue)
             IN  IF o.ok THEN AtomTail(t, o.i, f.v, u, o.v, FALSE) ELSE FAIL

\* ---- boolean layer: Pratt evaluator over the configured precedence -------
\* prec: sequence of "not"/"and"/"or", tightest first
Bp(prec, x) == 10 * (4 - (CHOOSE j \in 1..3 : prec[j] = x))
IsWordAt(t, i, w) == StartsWithAt(t, i, w) /\ (i + Len(w) > Len(t) \/ t[i + Len(w)] \in {32, 40})

RECURSIVE ParseExpr(_, _, _, _), BinLoop(_, _, _, _, _)
ParseExpr(t, i0, prec, minbp) ==
    LET i == SkipSp(t, i0) IN
    IF i > Len(t) THEN FAIL
    ELSE IF IsWordAt(t, i, W_NOT) THEN
        LET r == ParseExpr(t, i + 3, prec, Bp(prec, "not")) IN
        IF r.ok THEN BinLoop(t, r.i, prec, minbp, QNot(r.e)) ELSE FAIL
    ELSE IF t[i] = 40 THEN
        LET r == ParseExpr(t, i + 1, prec, 0)
            j == IF r.ok THEN SkipSp(t, r.i) ELSE 0
        IN  IF r.ok /\ j <= Len(t) /\ t[j] = 41 THEN BinLoop(t, j + 1, prec, minbp, r.e) ELSE FAIL
    ELSE LET a == ParseAtom(t, i) IN
         IF a.ok THEN BinLoop(t, a.i, prec, minbp, a.e) ELSE FAIL
BinLoop(t, i0, prec, minbp, lhs) ==
    LET i == SkipSp(t, i0)
        op == IF IsWordAt(t, i, W_AND) THEN "and" ELSE IF IsWordAt(t, i, W_OR) THEN "or" ELSE "none"
    IN  IF op = "none" \/ Bp(prec, op) < minbp THEN Res(i0, lhs)
        ELSE LET r == ParseExpr(t, i + (IF op = "and" THEN 3 ELSE 2), prec, Bp(prec, op) + 1) IN
             IF ~r.ok THEN FAIL
             ELSE BinLoop(t, r.i, prec, minbp, [k |-> op, args |-> <<lhs, r.e>>])

\* deferred parts: MAIN { " | " ["DNOT "] atom } - filters applied to what the main query returned, so all of them hold
W_DNOT == <<68,78,79,84>>
RECURSIVE ParseParts(_, _, _)
ParseParts(t, i0, acc) ==
    LET i == SkipSp(t, i0) IN
    IF i > Len(t) THEN [ok |-> TRUE, es |-> acc]
    ELSE IF t[i] # 124 THEN [ok |-> FALSE, es |-> <<>>]
    ELSE LET j == SkipSp(t, i + 1)
             neg == IsWordAt(t, j, W_DNOT)
             a == ParseAtom(t, IF neg THEN SkipSp(t, j + 4) ELSE j)
         IN  IF ~a.ok THEN [ok |-> FALSE, es |-> <<>>]
             ELSE ParseParts(t, a.i, Append(acc, IF neg THEN QNot(a.e) ELSE a.e))
\* whole query -> [ok, e]
ParseQuery(t, prec) ==
    LET i1 == SkipSp(t, 1)
        star == i1 <= Len(t) /\ t[i1] = 42 /\ (i1 = Len(t) \/ t[i1 + 1] = 32)      \* "*": nothing but deferred parts
        r == IF star THEN Res(i1 + 1, QTrue) ELSE ParseExpr(t, 1, prec, 0)
        ps == IF r.ok THEN ParseParts(t, r.i, <<>>) ELSE [ok |-> FALSE, es |-> <<>>]
    IN  IF r.ok /\ ps.ok THEN [ok |-> TRUE, e |-> IF ps.es = <<>> THEN r.e ELSE QAnd(<<r.e>> \o ps.es)]
        ELSE [ok |-> FALSE, e |-> QTrue]

\* ---- meaning: truth tables over the atoms of two expressions ------------
RECURSIVE QAtoms(_)
QAtoms(e) ==
    CASE e.k = "leaf" -> {e.a}
      [] e.k = "not" -> QAtoms(e.a)
      [] OTHER -> UNION {QAtoms(e.args[j]) : j \in 1..Len(e.args)}
RECURSIVE QEval(_, _)
QEval(e, T) ==        \* T = set of atoms that are true
    CASE e.k = "leaf" -> e.a \in T
      [] e.k = "not" -> ~QEval(e.a, T)
      [] e.k = "and" -> \A j \in 1..Len(e.args) : QEval(e.args[j], T)
      [] e.k = "or" -> \E j \in 1..Len(e.args) : QEval(e.args[j], T)
QEquiv(e1, e2) ==
    LET A == QAtoms(e1) \cup QAtoms(e2) IN \A T \in SUBSET A : QEval(e1, T) = QEval(e2, T)
\* forget the "raw field" mark (used when comparing modulo the recorded deviation)
RECURSIVE Unmark(_)
Unmark(e) ==
    CASE e.k = "leaf" -> QLeaf([e.a EXCEPT !.raw = FALSE])
      [] e.k = "not" -> QNot(Unmark(e.a))
      [] OTHER -> [k |-> e.k, args |-> [j \in 1..Len(e.args) |-> Unmark(e.args[j])]]
=============================================================================
