----------------------------- MODULE Gen_C15 -----------------------------
(* Mode B generator for C15: operation histories on shared objects, each followed by a probe
   conversion.  Operations (the alphabet of the Layer S history machine):
     <<"new", b, share>>    create backend b (A/B) of the one backend class, with the shared
                            user pipeline object (share = TRUE) or with its own fresh one
     <<"init", b>>          b.init_processing_pipeline()
     <<"rule", b, kind>>    load a rule of `kind` and convert it with b.convert_rule()
     <<"coll", b, kind>>    the same through b.convert(collection) (collecting errors)
     <<"opt", kind>>        ANOTHER backend object of the class, created with a backend option and without user
                            pipeline, converts a rule of `kind` (probe optph asks for the option's pipeline variable)
   A history is enabled iff backends are created before they are used.  All histories up to
   the bound are enumerated (recursive set Hist), longer ones sampled.                    *)
EXTENDS Integers, Sequences, FiniteSets, SequencesExt, Json, IOUtils, Randomization, TLC
VARIABLE x
Quick == IOEnv.VERIF_TIER = "quick"
Backends == {"A", "B"}
\* (okcont: a rule that uses the contains modifier; probe custmod: a rule that uses a modifier of the USER, derived from it)
Kinds == {"ok1", "okstate", "failP", "failPH", "failC", "neqok", "neqfail", "direct", "phfile", "okcont"}
\* (casedct: a case-sensitive contains value - one of the templates the not-equals context swaps on the class)
ProbeKinds == {"ok1", "okstate", "neqok", "ok2", "direct", "phfile", "optph", "custmod", "casedct"}
Ops(have) == {<<"new", b, s>> : b \in Backends \ have, s \in BOOLEAN}
             \cup {<<"init", b>> : b \in have}
             \cup {<<"rule", b, k>> : b \in have, k \in Kinds}
             \cup {<<"coll", b, k>> : b \in have, k \in {"okstate", "failPH", "neqfail"}}
             \cup {<<"opt", k>> : k \in {"ok1", "failPH"}}
Have(h) == {h[i][2] : i \in {j \in 1..Len(h) : h[j][1] = "new"}}
RECURSIVE Hist(_, _)
Hist(h, n) == IF n = 0 THEN {h}
              ELSE {h} \cup UNION {Hist(Append(h, op), n - 1) : op \in Ops(Have(h))}
Start == <<<<"new", "A", TRUE>>>>
Bound == IF Quick THEN 2 ELSE 3
Exhaustive == Hist(Start, Bound)
\* longer histories: random walks
RECURSIVE Walk(_, _)
Walk(h, n) == IF n = 0 THEN h ELSE Walk(Append(h, RandomElement(Ops(Have(h)))), n - 1)
Sampled == {Walk(Start, 3 + (j % 5)) : j \in 1..(IF Quick THEN 300 ELSE 6000)}
Cases == {[hist |-> h, probe |-> <<b, k>>] : h \in Exhaustive \cup Sampled, b \in Backends, k \in ProbeKinds}
\* the probe backend must exist
Valid == {c \in Cases : c.probe[1] \in Have(c.hist)}
\* what a PROCESS remembers (caches on classes and modules): one conversion, then the probe - each of these cases is
\* driven in an interpreter started for it alone (the others share long-lived worker processes, whose caches are warm)
ProcCases == {[hist |-> <<Start[1], <<"rule", "A", k>>>>, probe |-> <<"A", p>>, newproc |-> TRUE] : k \in Kinds, p \in ProbeKinds}
ASSUME LET S == SetToSeq(Valid)
           P == SetToSeq(ProcCases)
       IN  ndJsonSerialize(IOEnv.VERIF_OUT, [i \in 1..Len(S) |-> [id |-> i, newproc |-> FALSE] @@ S[i]]
                                            \o [i \in 1..Len(P) |-> [id |-> 9000000 + i] @@ P[i]])
Init == x = 0
Next == UNCHANGED x
=============================================================================
