INIT Init
NEXT Next
INVARIANT Agree
INVARIANT SplitOK
