SPECIFICATION Spec
CONSTANT MaxOps = 3
INVARIANT ConjunctiveMeansTree
INVARIANT AlwaysAQuery
