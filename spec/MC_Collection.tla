---------------------------- MODULE MC_Collection ----------------------------
(* Mode A for C09/C08: for every rule-set shape and EVERY permutation of its documents the
   system resolves references, orders the rules and converts them one by one (one TLC
   transition per converted rule).  Decided on the design:
     RefsFirst     a correlation rule is converted only after everything it refers to
                   (status never becomes "unavailable"), for the depth-first ordering;
     SameOutcome   the set of emitted documents does not depend on the permutation;
     Suppression   a document emits iff no non-generating correlation refers to it.
   With Sorter = "partial" (the ordering used before the repair: sorted() with a partial
   order) TLC must FIND a counterexample - the harness runs that configuration as a
   negative control.                                                                    *)
EXTENDS Collection, CollShapes, TLC
CONSTANT Sorter, MaxDocs
VARIABLES shape, perm, st
vars == <<shape, perm, st>>
Docs == Shapes[shape]
Perms(n) == {p \in [1..n -> 1..n] : \A i, j \in 1..n : i # j => p[i] # p[j]}
Ordered(order) == IF Sorter = "dfs" THEN DfsOrder(Docs, order) ELSE PartialOrderSort(Docs, order)
Init == /\ shape \in {s \in 1..Len(Shapes) : Len(Shapes[s]) <= MaxDocs /\ ~MissingRef(Shapes[s])}
        /\ perm \in Perms(Len(Shapes[shape]))
        /\ st = CInit(Ordered(perm))
Convert == /\ st.status = "run"
           /\ st' = CStep(Docs, st)
           /\ UNCHANGED <<shape, perm>>
Next == Convert
Spec == Init /\ [][Next]_vars

OrderIsPermutation == IsPermutationOf(st.order, Len(Docs))
RefsFirstInv == st.status # "unavailable"
OrderRefsFirst == RefsFirst(Docs, st.order)
SameOutcome == st.status = "done" =>
    {st.emitted[i] : i \in 1..Len(st.emitted)} = {d \in 1..Len(Docs) : OutputEnabled(Docs, d)}
EmittedOnce == \A i, j \in 1..Len(st.emitted) : i # j => st.emitted[i] # st.emitted[j]
\* the order is stable for unrelated plain rules
StableForPlainRules == Sorter = "dfs" =>
    \A a, b \in 1..Len(Docs) :
        (Docs[a].kind = "rule" /\ Docs[b].kind = "rule" /\ Referrers(Docs, a) = {} /\ Referrers(Docs, b) = {}
         /\ PosIn(perm, a) < PosIn(perm, b)) => PosIn(st.order, a) < PosIn(st.order, b)
=============================================================================
