------------------------------- MODULE Loader -------------------------------
(***************************************************************************)
(* Loading documents (C07, C06).                                           *)
(*                                                                         *)
(* Documents are trees                                                     *)
(*   node == [t |-> "map", kv |-> Seq(<<key, node>>)] | [t |-> "list", items] *)
(*         | [t |-> "str", s] | [t |-> "int", n] | [t |-> "float", n, d]   *)
(*         | [t |-> "bool", b] | [t |-> "null"]      (uniform record shape) *)
(* A path is a sequence of steps: <<"k", i>> = i-th entry of a map,        *)
(* <<"i", i>> = i-th item of a list.                                       *)
(*                                                                         *)
(* The loader is a state machine: every field validation is one step that  *)
(* may append an error; a strict loader raises at the first error, a       *)
(* collecting loader goes on and returns the object with its error list.   *)
(* Hence: collecting never raises, its error list is non-empty exactly     *)
(* when strict loading raises, and its first error is the one raised.      *)
(***************************************************************************)
EXTENDS Integers, Sequences, FiniteSets, SequencesExt

N(t) == [t |-> t, kv |-> <<>>, items |-> <<>>, s |-> <<>>, n |-> 0, d |-> 1, b |-> FALSE]
NStr(s) == [N("str") EXCEPT !.s = s]
NInt(n) == [N("int") EXCEPT !.n = n]
NFloat(n, d) == [N("float") EXCEPT !.n = n, !.d = d]
NBool(b) == [N("bool") EXCEPT !.b = b]
NNull == N("null")
NList(items) == [N("list") EXCEPT !.items = items]
NMap(kv) == [N("map") EXCEPT !.kv = kv]

\* all paths of a tree (including the root <<>>), depth-first
RECURSIVE Paths(_)
Paths(n) ==
    {<<>>} \cup
    (IF n.t = "map" THEN UNION {{<<(<<"k", i>>)>> \o p : p \in Paths(n.kv[i][2])} : i \in 1..Len(n.kv)}
     ELSE IF n.t = "list" THEN UNION {{<<(<<"i", i>>)>> \o p : p \in Paths(n.items[i])} : i \in 1..Len(n.items)}
     ELSE {})
RECURSIVE Get(_, _)
Get(n, p) == IF p = <<>> THEN n
             ELSE IF p[1][1] = "k" THEN Get(n.kv[p[1][2]][2], Tail(p)) ELSE Get(n.items[p[1][2]], Tail(p))
RECURSIVE Replace(_, _, _)
Replace(n, p, v) ==
    IF p = <<>> THEN v
    ELSE IF p[1][1] = "k" THEN [n EXCEPT !.kv[p[1][2]] = <<@[1], Replace(@[2], Tail(p), v)>>]
    ELSE [n EXCEPT !.items[p[1][2]] = Replace(@, Tail(p), v)]
DelAt(s, i) == SubSeq(s, 1, i - 1) \o SubSeq(s, i + 1, Len(s))
RECURSIVE Delete(_, _)
Delete(n, p) ==       \* p # <<>>
    IF Len(p) = 1 THEN (IF p[1][1] = "k" THEN [n EXCEPT !.kv = DelAt(@, p[1][2])] ELSE [n EXCEPT !.items = DelAt(@, p[1][2])])
    ELSE IF p[1][1] = "k" THEN [n EXCEPT !.kv[p[1][2]] = <<@[1], Delete(@[2], Tail(p))>>]
    ELSE [n EXCEPT !.items[p[1][2]] = Delete(@, Tail(p))]
\* replace the KEY of a map entry (keys of wrong types are given as nodes; the driver builds them)
RECURSIVE Rekey(_, _, _)
Rekey(n, p, k) ==
    IF Len(p) = 1 THEN [n EXCEPT !.kv[p[1][2]] = <<k, @[2]>>]
    ELSE IF p[1][1] = "k" THEN [n EXCEPT !.kv[p[1][2]] = <<@[1], Rekey(@[2], Tail(p), k)>>]
    ELSE [n EXCEPT !.items[p[1][2]] = Rekey(@, Tail(p), k)]

\* ---- the loader as a state machine -------------------------------------------------------
\* checks: sequence of booleans (TRUE = this validation step finds an error)
LInit == [step |-> 1, errors |-> <<>>, status |-> "run"]
LStep(checks, collect, st) ==
    IF st.step > Len(checks) THEN [st EXCEPT !.status = "returned"]
    ELSE IF checks[st.step] THEN
        (IF collect THEN [st EXCEPT !.errors = Append(@, st.step), !.step = @ + 1]
         ELSE [st EXCEPT !.errors = <<st.step>>, !.status = "raised"])
    ELSE [st EXCEPT !.step = @ + 1]
=============================================================================
