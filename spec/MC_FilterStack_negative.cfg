SPECIFICATION Spec
CONSTANT FreshDraw = FALSE
INVARIANT BothFiltersMean
CHECK_DEADLOCK FALSE
