---------------------------- MODULE MC_Transform ----------------------------
(* Mode A for C12: a detection item is pushed through a list of transformations one per
   transition (the Work fold of spec/Transform.tla).  Invariants: identity instances are
   fixpoints; a rename followed by a rename composes; one-to-many mapping multiplies the
   alternatives; dropping is final; value-level transformations never change field names. *)
EXTENDS Transform, ModSeeds, TLC
VARIABLES w, k, Ts
vars == <<w, k, Ts>>
All == [mode |-> "all", names |-> <<>>]
T(type, m, s1, s2, flag, scope) == [type |-> type, m |-> m, s1 |-> s1, s2 |-> s2, flag |-> flag, scope |-> scope, sub |-> <<>>]
fA == <<102,65>> fB == <<102,66>> fC == <<102,67>> no == <<110,111>>
PoolT == {T("fmap", <<(<<fA, <<fB>>>>)>>, <<>>, <<>>, FALSE, All), T("fmap", <<(<<fB, <<fC>>>>)>>, <<>>, <<>>, FALSE, All),
          T("fmap", <<(<<fA, <<fB, fC>>>>)>>, <<>>, <<>>, FALSE, All), T("fmap", <<(<<no, <<fB>>>>)>>, <<>>, <<>>, FALSE, All),
          T("fsuffix", <<>>, <<46,115>>, <<>>, FALSE, All), T("drop", <<>>, <<>>, <<>>, FALSE, [mode |-> "include", names |-> <<fB>>]),
          T("replace", <<>>, <<120>>, <<121>>, FALSE, All), T("case", <<>>, <<>>, <<>>, TRUE, [mode |-> "include", names |-> <<fC>>])}
W0 == [alts |-> <<[name |-> fA, vts |-> <<>>, wrap |-> FALSE]>>, dropped |-> FALSE]
Init == Ts \in [1..3 -> PoolT] /\ k = 0 /\ w = W0
Next == k < 3 /\ k' = k + 1 /\ w' = Work(w, <<Ts[k + 1]>>, 1) /\ UNCHANGED Ts
Spec == Init /\ [][Next]_vars
StepwiseIsFold == w = Work(W0, SubSeq(Ts, 1, k), 1)
DroppedIsFinal == [][w.dropped => w'.dropped /\ w'.alts = w.alts]_vars
ValueLevelKeepsNames == [][(k < 3 /\ IsValueLevel(Ts[k + 1])) => [j \in 1..Len(w'.alts) |-> w'.alts[j].name] = [j \in 1..Len(w.alts) |-> w.alts[j].name]]_vars
IdentityIsFixpoint == [][(k < 3 /\ Ts[k + 1] = T("fmap", <<(<<no, <<fB>>>>)>>, <<>>, <<>>, FALSE, All)) =>
                            [j \in 1..Len(w'.alts) |-> w'.alts[j].name] = [j \in 1..Len(w.alts) |-> w.alts[j].name]]_vars
RenameComposes == (k = 2 /\ Ts[1] = T("fmap", <<(<<fA, <<fB>>>>)>>, <<>>, <<>>, FALSE, All) /\ Ts[2] = T("fmap", <<(<<fB, <<fC>>>>)>>, <<>>, <<>>, FALSE, All))
                    => [j \in 1..Len(w.alts) |-> w.alts[j].name] = <<fC>>
OneToManyMultiplies == (k = 1 /\ Ts[1] = T("fmap", <<(<<fA, <<fB, fC>>>>)>>, <<>>, <<>>, FALSE, All)) => Len(w.alts) = 2
=============================================================================
