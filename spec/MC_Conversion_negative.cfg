SPECIFICATION Spec
CONSTANT Restore = FALSE
CONSTANT MaxRules = 3
INVARIANT NoLeak
INVARIANT Accounting
INVARIANT OutIsPrefix
INVARIANT StrictNeverPastFailure
INVARIANT EveryQueryFromOwnState
