---------------------------- MODULE Judge_C04 ----------------------------
(* Mode C judge for C04: the recorded values of `f|<chain>: payload` are checked against
   the byte-level contract of spec/Encoding.tla (exact Base64 / UTF-16 bytes; for
   base64offset: covering every alignment and implied by the payload alone).          *)
EXTENDS Encoding, SigmaStr, Json, IOUtils, TLC
VARIABLE x
Obs == ndJsonDeserialize(IOEnv.VERIF_OBS)

C(name) == [dev |-> FALSE, name |-> name]
D(name) == [dev |-> TRUE, name |-> name]

BOM_AS_UTF8 == <<239, 187, 191>>     \* U+FEFF written as a character and encoded as UTF-8
PreBytes(enc, p, bom) ==
    CASE enc = "none" -> Utf8Seq(p)
      [] enc = "wide" -> Utf16LESeq(p)
      [] enc = "utf16" -> bom \o Utf16LESeq(p)
      [] enc = "utf16be" -> Utf16BESeq(p)

IsPlainStr(v) == v.t = "str" /\ \A i \in 1..Len(v.parts) : v.parts[i] >= 0
StripStars(parts) ==
    IF parts = <<STAR>> THEN [ok |-> TRUE, s |-> <<>>]      \* contains of an empty value: one star
    ELSE IF Len(parts) >= 2 /\ parts[1] = STAR /\ parts[Len(parts)] = STAR
    THEN [ok |-> TRUE, s |-> Slice(parts, 2, Len(parts) - 1)] ELSE [ok |-> FALSE, s |-> parts]

\* "" if the recorded values satisfy the contract for byte string B, else the failing clause
Contract(o, enc, rest, B) ==
    LET vs == o.ret.out.value IN
    IF rest = <<>> THEN                                  \* only a re-encoding modifier
        IF Len(vs) # 1 \/ ~IsPlainStr(vs[1]) THEN "Utf16Exact:shape"
        ELSE IF Utf8Seq(vs[1].parts) # B THEN "Utf16Exact" ELSE ""
    ELSE IF rest[1] = "base64" THEN
        IF Len(vs) # 1 \/ ~IsPlainStr(vs[1]) THEN "B64Exact:shape"
        ELSE IF vs[1].parts # B64(B) THEN "B64Exact" ELSE ""
    ELSE \* base64offset (optionally followed by contains)
        IF Len(vs) # 1 \/ vs[1].t # "exp" \/ Len(vs[1].vals) = 0 THEN "Offset:shape"
        ELSE LET raw == [i \in 1..Len(vs[1].vals) |-> vs[1].vals[i].parts]
                 st == [i \in 1..Len(raw) |-> StripStars(raw[i])]
                 V == IF Len(rest) = 2 THEN [i \in 1..Len(raw) |-> st[i].s] ELSE raw
             IN  IF Len(rest) = 2 /\ \E i \in 1..Len(raw) : ~st[i].ok THEN "AddsWildcards"
                 ELSE IF \E i \in 1..Len(V) : \E j \in 1..Len(V[i]) : V[i][j] < 0 THEN "Offset:wildcard-in-value"
                 ELSE IF ~Covers(V, B) THEN "OffsetCovers"
                 ELSE IF \E i \in 1..Len(V) : ~Implied(V[i], B) THEN "OffsetImplied"
                 ELSE ""

Clauses(o) ==
    LET p == o.payload
        enc == IF o.chain[1] = "utf16le" THEN "wide" ELSE IF o.chain[1] \in {"wide", "utf16", "utf16be"} THEN o.chain[1] ELSE "none"
        rest == IF enc = "none" THEN o.chain ELSE Tail(o.chain)
    IN
    IF ~o.ret.ok /\ ~o.ret.sigma THEN <<C("NonSigmaException")>>
    \* an unescaped wildcard in the value: there is no byte string to encode
    ELSE IF o.wild # 0 THEN (IF o.ret.ok THEN <<C("WildcardNotEncoded")>> ELSE <<>>)
    ELSE IF ~o.ret.ok THEN
        \* rejecting is the only alternative outcome, and only a re-encoding may reject
        (IF enc = "none" THEN <<C("RejectOnlyAlternative")>> ELSE <<>>)
    ELSE IF o.ret.out.negated \/ o.ret.out.linking # "or" THEN <<C("LinkingUntouched")>>
    ELSE LET c == Contract(o, enc, rest, PreBytes(enc, p, BOM_LE)) IN
         IF c = "" THEN <<>>
         \* recorded deviation: the utf16 modifier prepends U+FEFF as a CHARACTER, whose bytes
         \* are EF BB BF rather than the UTF-16LE byte order mark FF FE
         ELSE IF enc = "utf16" /\ Contract(o, enc, rest, PreBytes(enc, p, BOM_AS_UTF8)) = ""
              THEN <<D("Dev_Utf16BomAsUtf8Character")>>
         ELSE <<C(c)>>

Verdict(o) ==
    LET cs == Clauses(o)
        viol == SelectSeq(cs, LAMBDA c : ~c.dev)
    IN  [id |-> o.id,
         v |-> IF viol # <<>> THEN "violation:" \o viol[1].name
               ELSE IF cs # <<>> THEN "dev:" \o cs[1].name ELSE "ok"]
ASSUME ndJsonSerialize(IOEnv.VERIF_OUT, [i \in 1..Len(Obs) |-> Verdict(Obs[i])])
Init == x = 0
Next == UNCHANGED x
=============================================================================
