----------------------------- MODULE RuleItems -----------------------------
(* Library of detection items for the rule generators (written by tools/gen_c01_items.py).
   Every value type, the modifier chains of interest and the traps named in the properties
   (cased / timestamp lists, expansion under all, quoting characters in values and fields). *)
EXTENDS ModSeeds
Items == <<
  \* 1: fA|: 'x'
  [field |-> <<102, 65>>, chain |-> <<>>, vals |-> <<SS(<<120>>)>>, single |-> TRUE],
  \* 2: fA|: 'x*'
  [field |-> <<102, 65>>, chain |-> <<>>, vals |-> <<SS(<<120, 42>>)>>, single |-> TRUE],
  \* 3: fB|contains: ['y', 'w']
  [field |-> <<102, 66>>, chain |-> <<<<99, 111, 110, 116, 97, 105, 110, 115>>>>, vals |-> <<SS(<<121>>), SS(<<119>>)>>, single |-> FALSE],
  \* 4: fC|cased|endswith: 'Abc'
  [field |-> <<102, 67>>, chain |-> <<<<99, 97, 115, 101, 100>>, <<101, 110, 100, 115, 119, 105, 116, 104>>>>, vals |-> <<SS(<<65, 98, 99>>)>>, single |-> TRUE],
  \* 5: fD|: [1, 2]
  [field |-> <<102, 68>>, chain |-> <<>>, vals |-> <<SN(1, 1), SN(2, 1)>>, single |-> FALSE],
  \* 6: fE|re|i: 'a/b'
  [field |-> <<102, 69>>, chain |-> <<<<114, 101>>, <<105>>>>, vals |-> <<SS(<<97, 47, 98>>)>>, single |-> TRUE],
  \* 7: fF|: None
  [field |-> <<102, 70>>, chain |-> <<>>, vals |-> <<NullV>>, single |-> TRUE],
  \* 8: fG|exists: False
  [field |-> <<102, 71>>, chain |-> <<<<101, 120, 105, 115, 116, 115>>>>, vals |-> <<SB(FALSE)>>, single |-> TRUE],
  \* 9: fH|cidr: '10.0.0.0/8'
  [field |-> <<102, 72>>, chain |-> <<<<99, 105, 100, 114>>>>, vals |-> <<SS(<<49, 48, 46, 48, 46, 48, 46, 48, 47, 56>>)>>, single |-> TRUE],
  \* 10: fI|lt: 5
  [field |-> <<102, 73>>, chain |-> <<<<108, 116>>>>, vals |-> <<SN(5, 1)>>, single |-> TRUE],
  \* 11: fJ|fieldref|startswith: 'g'
  [field |-> <<102, 74>>, chain |-> <<<<102, 105, 101, 108, 100, 114, 101, 102>>, <<115, 116, 97, 114, 116, 115, 119, 105, 116, 104>>>>, vals |-> <<SS(<<103>>)>>, single |-> TRUE],
  \* 12: fK|minute: 5
  [field |-> <<102, 75>>, chain |-> <<<<109, 105, 110, 117, 116, 101>>>>, vals |-> <<SN(5, 1)>>, single |-> TRUE],
  \* 13: fL|base64offset|contains: 'ab'
  [field |-> <<102, 76>>, chain |-> <<<<98, 97, 115, 101, 54, 52, 111, 102, 102, 115, 101, 116>>, <<99, 111, 110, 116, 97, 105, 110, 115>>>>, vals |-> <<SS(<<97, 98>>)>>, single |-> TRUE],
  \* 14: fM|: True
  [field |-> <<102, 77>>, chain |-> <<>>, vals |-> <<SB(TRUE)>>, single |-> TRUE],
  \* 15: fN|all: ['*a', 'b?c']
  [field |-> <<102, 78>>, chain |-> <<<<97, 108, 108>>>>, vals |-> <<SS(<<42, 97>>), SS(<<98, 63, 99>>)>>, single |-> FALSE],
  \* 16: fO|windash: '-x'
  [field |-> <<102, 79>>, chain |-> <<<<119, 105, 110, 100, 97, 115, 104>>>>, vals |-> <<SS(<<45, 120>>)>>, single |-> TRUE],
  \* 17: fP|cased: ['a', 'b']
  [field |-> <<102, 80>>, chain |-> <<<<99, 97, 115, 101, 100>>>>, vals |-> <<SS(<<97>>), SS(<<98>>)>>, single |-> FALSE],
  \* 18: fQ|minute: [1, 2]
  [field |-> <<102, 81>>, chain |-> <<<<109, 105, 110, 117, 116, 101>>>>, vals |-> <<SN(1, 1), SN(2, 1)>>, single |-> FALSE],
  \* 19: fR|neq: 'z'
  [field |-> <<102, 82>>, chain |-> <<<<110, 101, 113>>>>, vals |-> <<SS(<<122>>)>>, single |-> TRUE],
  \* 20: fS|contains|all: ['p', 'q']
  [field |-> <<102, 83>>, chain |-> <<<<99, 111, 110, 116, 97, 105, 110, 115>>, <<97, 108, 108>>>>, vals |-> <<SS(<<112>>), SS(<<113>>)>>, single |-> FALSE],
  \* 21: f T|: 'v'
  [field |-> <<102, 32, 84>>, chain |-> <<>>, vals |-> <<SS(<<118>>)>>, single |-> TRUE],
  \* 22: fU|: ['a', 'b*']
  [field |-> <<102, 85>>, chain |-> <<>>, vals |-> <<SS(<<97>>), SS(<<98, 42>>)>>, single |-> FALSE],
  \* 23: fV|: 'q"uo\\te'
  [field |-> <<102, 86>>, chain |-> <<>>, vals |-> <<SS(<<113, 34, 117, 111, 92, 116, 101>>)>>, single |-> TRUE],
  \* 24: fW|startswith: 'pre'
  [field |-> <<102, 87>>, chain |-> <<<<115, 116, 97, 114, 116, 115, 119, 105, 116, 104>>>>, vals |-> <<SS(<<112, 114, 101>>)>>, single |-> TRUE],
  \* 25: fX|endswith: 'suf'
  [field |-> <<102, 88>>, chain |-> <<<<101, 110, 100, 115, 119, 105, 116, 104>>>>, vals |-> <<SS(<<115, 117, 102>>)>>, single |-> TRUE],
  \* 26: fY|: ['a', 1]
  [field |-> <<102, 89>>, chain |-> <<>>, vals |-> <<SS(<<97>>), SN(1, 1)>>, single |-> FALSE],
  \* 27: fZ|neq: ['a', 'b']
  [field |-> <<102, 90>>, chain |-> <<<<110, 101, 113>>>>, vals |-> <<SS(<<97>>), SS(<<98>>)>>, single |-> FALSE],
  \* 28: f1|exists: True
  [field |-> <<102, 49>>, chain |-> <<<<101, 120, 105, 115, 116, 115>>>>, vals |-> <<SB(TRUE)>>, single |-> TRUE],
  \* 29: f2|cased|contains: 'Mi*d'
  [field |-> <<102, 50>>, chain |-> <<<<99, 97, 115, 101, 100>>, <<99, 111, 110, 116, 97, 105, 110, 115>>>>, vals |-> <<SS(<<77, 105, 42, 100>>)>>, single |-> TRUE],
  \* 30: f3|: '*'
  [field |-> <<102, 51>>, chain |-> <<>>, vals |-> <<SS(<<42>>)>>, single |-> TRUE],
  \* 31: f4|: ''
  [field |-> <<102, 52>>, chain |-> <<>>, vals |-> <<SS(<<>>)>>, single |-> TRUE],
  \* 32: f`5\|: 'v'
  [field |-> <<102, 96, 53, 92>>, chain |-> <<>>, vals |-> <<SS(<<118>>)>>, single |-> TRUE],
  \* 33: f6|gte: 1.5
  [field |-> <<102, 54>>, chain |-> <<<<103, 116, 101>>>>, vals |-> <<SN(3, 2)>>, single |-> TRUE],
  \* 34: f7|re: '^a.*b$'
  [field |-> <<102, 55>>, chain |-> <<<<114, 101>>>>, vals |-> <<SS(<<94, 97, 46, 42, 98, 36>>)>>, single |-> TRUE],
  \* 35: f8|cidr: '192.168.129.0/31'
  [field |-> <<102, 56>>, chain |-> <<<<99, 105, 100, 114>>>>, vals |-> <<SS(<<49, 57, 50, 46, 49, 54, 56, 46, 49, 50, 57, 46, 48, 47, 51, 49>>)>>, single |-> TRUE],
  \* 36: f9|all: ['a', 'b']
  [field |-> <<102, 57>>, chain |-> <<<<97, 108, 108>>>>, vals |-> <<SS(<<97>>), SS(<<98>>)>>, single |-> FALSE],
  \* 37: g1|contains: 'a*b'
  [field |-> <<103, 49>>, chain |-> <<<<99, 111, 110, 116, 97, 105, 110, 115>>>>, vals |-> <<SS(<<97, 42, 98>>)>>, single |-> TRUE],
  \* 38: g2|fieldref: 'other'
  [field |-> <<103, 50>>, chain |-> <<<<102, 105, 101, 108, 100, 114, 101, 102>>>>, vals |-> <<SS(<<111, 116, 104, 101, 114>>)>>, single |-> TRUE],
  \* 39: g3|re|m|s: 'x.y'
  [field |-> <<103, 51>>, chain |-> <<<<114, 101>>, <<109>>, <<115>>>>, vals |-> <<SS(<<120, 46, 121>>)>>, single |-> TRUE],
  \* 40: g4|cased|startswith: ['Aa', 'Bb']
  [field |-> <<103, 52>>, chain |-> <<<<99, 97, 115, 101, 100>>, <<115, 116, 97, 114, 116, 115, 119, 105, 116, 104>>>>, vals |-> <<SS(<<65, 97>>), SS(<<66, 98>>)>>, single |-> FALSE],
  \* 41: g5|: [1.5, 's']
  [field |-> <<103, 53>>, chain |-> <<>>, vals |-> <<SN(3, 2), SS(<<115>>)>>, single |-> FALSE],
  \* 42: g6|neq|contains: 'n'
  [field |-> <<103, 54>>, chain |-> <<<<110, 101, 113>>, <<99, 111, 110, 116, 97, 105, 110, 115>>>>, vals |-> <<SS(<<110>>)>>, single |-> TRUE],
  \* 43: g7|endswith|all: ['e1', 'e2']
  [field |-> <<103, 55>>, chain |-> <<<<101, 110, 100, 115, 119, 105, 116, 104>>, <<97, 108, 108>>>>, vals |-> <<SS(<<101, 49>>), SS(<<101, 50>>)>>, single |-> FALSE],
  \* 44: g8|wide|base64: 'A'
  [field |-> <<103, 56>>, chain |-> <<<<119, 105, 100, 101>>, <<98, 97, 115, 101, 54, 52>>>>, vals |-> <<SS(<<65>>)>>, single |-> TRUE],
  \* 45: g9|: 'a\\\\*b'
  [field |-> <<103, 57>>, chain |-> <<>>, vals |-> <<SS(<<97, 92, 92, 42, 98>>)>>, single |-> TRUE],
  \* 46: h1|contains: 'c:\\x'
  [field |-> <<104, 49>>, chain |-> <<<<99, 111, 110, 116, 97, 105, 110, 115>>>>, vals |-> <<SS(<<99, 58, 92, 120>>)>>, single |-> TRUE],
  \* 47: h2|cidr: '10.0.0.0/7'
  [field |-> <<104, 50>>, chain |-> <<<<99, 105, 100, 114>>>>, vals |-> <<SS(<<49, 48, 46, 48, 46, 48, 46, 48, 47, 55>>)>>, single |-> TRUE],
  \* 48: h3|re: ['a.*b', 'c?d']
  [field |-> <<104, 51>>, chain |-> <<<<114, 101>>>>, vals |-> <<SS(<<97, 46, 42, 98>>), SS(<<99, 63, 100>>)>>, single |-> FALSE],
  \* 49: h4|: []
  [field |-> <<104, 52>>, chain |-> <<>>, vals |-> <<>>, single |-> FALSE],
  \* 50: h5|expand: 'x\\%a\\%'
  [field |-> <<104, 53>>, chain |-> <<<<101, 120, 112, 97, 110, 100>>>>, vals |-> <<SS(<<120, 92, 37, 97, 92, 37>>)>>, single |-> TRUE],
  \* 51: Hashes|: 'MD5=aa11'
  [field |-> <<72, 97, 115, 104, 101, 115>>, chain |-> <<>>, vals |-> <<SS(<<77, 68, 53, 61, 97, 97, 49, 49>>)>>, single |-> TRUE],
  \* 52: Hashes|contains|all: ['MD5=aa11', 'sha1=bb22']
  [field |-> <<72, 97, 115, 104, 101, 115>>, chain |-> <<<<99, 111, 110, 116, 97, 105, 110, 115>>, <<97, 108, 108>>>>, vals |-> <<SS(<<77, 68, 53, 61, 97, 97, 49, 49>>), SS(<<115, 104, 97, 49, 61, 98, 98, 50, 50>>)>>, single |-> FALSE],
  \* 53: Hashes|neq: ['SHA1=cc33', 'MD5=dd44']
  [field |-> <<72, 97, 115, 104, 101, 115>>, chain |-> <<<<110, 101, 113>>>>, vals |-> <<SS(<<83, 72, 65, 49, 61, 99, 99, 51, 51>>), SS(<<77, 68, 53, 61, 100, 100, 52, 52>>)>>, single |-> FALSE],
  \* 54: Hash|contains: 'IMPHASH=ee55'
  [field |-> <<72, 97, 115, 104>>, chain |-> <<<<99, 111, 110, 116, 97, 105, 110, 115>>>>, vals |-> <<SS(<<73, 77, 80, 72, 65, 83, 72, 61, 101, 101, 53, 53>>)>>, single |-> TRUE],
  \* 55: |windash: '-kw'
  [field |-> <<>>, chain |-> <<<<119, 105, 110, 100, 97, 115, 104>>>>, vals |-> <<SS(<<45, 107, 119>>)>>, single |-> TRUE],
  \* 56: |cased: 'Kw'
  [field |-> <<>>, chain |-> <<<<99, 97, 115, 101, 100>>>>, vals |-> <<SS(<<75, 119>>)>>, single |-> TRUE],
  \* 57: h6|hour|gte: 22
  [field |-> <<104, 54>>, chain |-> <<<<104, 111, 117, 114>>, <<103, 116, 101>>>>, vals |-> <<SN(22, 1)>>, single |-> TRUE],
  \* 58: fP|: 'c'
  [field |-> <<102, 80>>, chain |-> <<>>, vals |-> <<SS(<<99>>)>>, single |-> TRUE],
  \* 59: fQ|: 7
  [field |-> <<102, 81>>, chain |-> <<>>, vals |-> <<SN(7, 1)>>, single |-> TRUE],
  \* 60: fP|cased: 'D'
  [field |-> <<102, 80>>, chain |-> <<<<99, 97, 115, 101, 100>>>>, vals |-> <<SS(<<68>>)>>, single |-> TRUE],
  \* 61: fxf|: 'v'
  [field |-> <<102, 120, 102>>, chain |-> <<>>, vals |-> <<SS(<<118>>)>>, single |-> TRUE],
  \* 62: n1|: '42'
  [field |-> <<110, 49>>, chain |-> <<>>, vals |-> <<SS(<<52, 50>>)>>, single |-> TRUE],
  \* 63: n2|: ['7', '-3', '08']
  [field |-> <<110, 50>>, chain |-> <<>>, vals |-> <<SS(<<55>>), SS(<<45, 51>>), SS(<<48, 56>>)>>, single |-> FALSE],
  \* 64: n3|: ['5', 'x*']
  [field |-> <<110, 51>>, chain |-> <<>>, vals |-> <<SS(<<53>>), SS(<<120, 42>>)>>, single |-> FALSE],
  \* 65: n4|contains: '12'
  [field |-> <<110, 52>>, chain |-> <<<<99, 111, 110, 116, 97, 105, 110, 115>>>>, vals |-> <<SS(<<49, 50>>)>>, single |-> TRUE],
  \* 66: |neq: 'nkw'
  [field |-> <<>>, chain |-> <<<<110, 101, 113>>>>, vals |-> <<SS(<<110, 107, 119>>)>>, single |-> TRUE],
  \* 67: |neq: ['nk1', 'nk2']
  [field |-> <<>>, chain |-> <<<<110, 101, 113>>>>, vals |-> <<SS(<<110, 107, 49>>), SS(<<110, 107, 50>>)>>, single |-> FALSE],
  \* 68: |contains|neq: 'nkc'
  [field |-> <<>>, chain |-> <<<<99, 111, 110, 116, 97, 105, 110, 115>>, <<110, 101, 113>>>>, vals |-> <<SS(<<110, 107, 99>>)>>, single |-> TRUE]
>>
KwLists == <<
  <<SS(<<102, 111, 111>>), SS(<<98, 97, 42, 114>>)>>,
  <<SN(1, 1)>>,
  <<SS(<<115, 105, 110, 103, 108, 101>>)>>,
  <<SS(<<107, 49>>), SN(2, 1)>>
>>
=============================================================================
