----------------------------- MODULE Conversion -----------------------------
(***************************************************************************)
(* Layer S, part 2: converting a collection rule by rule.                  *)
(*                                                                         *)
(* A rule is abstracted to its KIND:                                       *)
(*   "ok1" "ok2"   one / two conditions, converts                          *)
(*   "okstate"     converts; the pipeline sets per-rule state for it       *)
(*   "failP"       the pipeline raises on it (failure transformation)      *)
(*   "failPH"      unresolved placeholder (raises while converting)        *)
(*   "failT"       value the backend cannot express (raises while converting) *)
(*   "failC"       condition names a missing detection (raises while parsing) *)
(*   "failU"       needs a feature the backend does not have (raises while   *)
(*                 converting; a strict backend raises NotImplementedError,  *)
(*                 a collecting one records the rule like any other failure) *)
(*   "okneg"       converts; a value below a NOT is rendered inside the    *)
(*                 backend's not-equals context (class templates swapped)  *)
(*   "failNPH"     unresolved placeholder BELOW a NOT: raises inside that  *)
(*                 context                                                 *)
(* The conversion of one rule is several steps, as in Backend.convert_rule: *)
(*   Apply pipeline (resets per-rule pipeline state first) ;               *)
(*   Convert conditions (may swap class templates, restores them) ;        *)
(*   Finalize ; Store result ; then either Emit, Collect error or Raise.   *)
(***************************************************************************)
EXTENDS Integers, Sequences, FiniteSets, SequencesExt

Concat(ss) == FoldLeft(LAMBDA acc, s : acc \o s, <<>>, ss)
Kinds == {"ok1", "ok2", "okstate", "oknest", "okneg", "failP", "failPH", "failT", "failC", "failNPH", "failU"}     \* oknest: state set by an item inside a nested pipeline
\* (failM: the rule names a field by the TARGET name of the pipeline's mapping - not a mapped field of this rule, the
\*  strict mapping check of the pipeline fails it; okdrop see Gen_C08)
Fails(k) == k \in {"failP", "failPH", "failT", "failC", "failNPH", "failU", "failM"}
FailStage(k) == CASE k \in {"failP", "failM"} -> "apply" [] k \in {"failPH", "failT", "failC", "failU"} -> "convert" [] k = "failNPH" -> "negated" [] OTHER -> "none"
Negates(k) == k \in {"okneg", "failNPH"}
NQueries(k) == IF k = "ok2" THEN 2 ELSE IF Fails(k) THEN 0 ELSE 1
StateOf(k) == IF k = "okstate" THEN "win" ELSE IF k = "oknest" THEN "nestwin" ELSE "default"

\* st == [pos, stage, out (Seq of <<rule, cond, state, templates the plain values were rendered with>>), errors (Seq of rule),
\*        pstate, templates, status]
\* restore: does leaving the not-equals context put the templates back when the conversion raised inside it (try/finally)?
VInit == [pos |-> 1, stage |-> "apply", out |-> <<>>, errors |-> <<>>, pstate |-> "default",
          templates |-> "normal", status |-> "run", pending |-> <<>>]

VStepR(kinds, collect, st, restore) ==
    IF st.pos > Len(kinds) THEN [st EXCEPT !.status = "done"]
    ELSE LET k == kinds[st.pos]
             left == IF restore THEN "normal" ELSE st.templates       \* the templates a failure leaves behind
             fail == IF collect
                     THEN [st EXCEPT !.errors = Append(@, st.pos), !.pos = @ + 1, !.stage = "apply",
                                     !.templates = left, !.pending = <<>>]
                     ELSE [st EXCEPT !.status = "raised", !.errors = <<st.pos>>, !.templates = left]
         IN
         CASE st.stage = "apply" ->
                (IF FailStage(k) = "apply" THEN fail
                 ELSE [st EXCEPT !.stage = "convert", !.pstate = StateOf(k)])     \* state is reset, then set
           [] st.stage = "convert" ->
                (IF FailStage(k) = "convert" THEN fail
                 \* the plain values are rendered with the templates in force; then the context of a NOT is entered
                 ELSE [st EXCEPT !.stage = IF Negates(k) THEN "negated" ELSE "emit",
                                 !.templates = IF Negates(k) THEN "negated" ELSE @,
                                 !.pending = [c \in 1..NQueries(k) |-> <<st.pos, c, st.pstate, st.templates>>]])
           [] st.stage = "negated" ->
                (IF FailStage(k) = "negated" THEN fail                             \* raised inside the context
                 ELSE [st EXCEPT !.stage = "emit", !.templates = "normal"])         \* context left in the regular way
           [] OTHER ->
                [st EXCEPT !.out = @ \o st.pending, !.pending = <<>>, !.pos = @ + 1, !.stage = "apply"]
VStep(kinds, collect, st) == VStepR(kinds, collect, st, TRUE)
RECURSIVE VRun(_, _, _)
VRun(kinds, collect, st) == IF st.status = "run" THEN VRun(kinds, collect, VStep(kinds, collect, st)) ELSE st

\* what every rule yields when it is converted alone, by a fresh backend and pipeline
Alone(k, i) == [c \in 1..NQueries(k) |-> <<i, c, StateOf(k), "normal">>]
\* the accounting the property demands
ExpectedOut(kinds) == Concat([i \in 1..Len(kinds) |-> Alone(kinds[i], i)])
ExpectedErrors(kinds) == SelectSeq([i \in 1..Len(kinds) |-> i], LAMBDA i : Fails(kinds[i]))
FirstFailing(kinds) == LET F == {i \in 1..Len(kinds) : Fails(kinds[i])} IN
                       IF F = {} THEN 0 ELSE CHOOSE i \in F : \A j \in F : i <= j
=============================================================================
