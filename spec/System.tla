------------------------------- MODULE System -------------------------------
(***************************************************************************)
(* Layer S, integrated: ONE state for the objects a user of the library     *)
(* holds - rule collections, a backend - and one action per public call.    *)
(* The per-concern modules (Collection, Conversion, Filter, Validation)     *)
(* each fix everything but their own concern; here loading order, filters,  *)
(* reference resolution, merging, error collection and repeated use of the  *)
(* same backend and collection objects meet.                                *)
(*                                                                         *)
(* Documents (a fixed pool; the driver has the same six):                   *)
(*   1  rule r1, product windows, one condition                             *)
(*   2  rule r2, product linux, two conditions                              *)
(*   3  rule r3, raises while converting (unresolved placeholder)           *)
(*   4  correlation rule over r1 and r2, no generation                      *)
(*   5  filter for the log source product windows, rules: any               *)
(*   6  correlation rule over r3, generation asked for                      *)
(*   7  correlation rule over correlation rule 4, no generation             *)
(*   8  correlation rule over r2 alone, generation asked for                *)
(*                                                                         *)
(* Mechanism (what the objects do, call by call):                           *)
(*   Load(ds)        from_dicts: rules in document order; the filters of    *)
(*                   the document list are applied to the rules they target *)
(*                   (each application is counted); references resolved -   *)
(*                   a missing one fails the load; rules sorted references  *)
(*                   first, otherwise in the given order                    *)
(*   LoadU(ds)       the same with resolve_references=False and             *)
(*                   collect_filters=True (the form load_ruleset uses per   *)
(*                   file): nothing applied, nothing resolved               *)
(*   Merge           SigmaCollection.merge of both collections (which are   *)
(*                   given up): rules and filters concatenated, ALL filters *)
(*                   applied, references resolved, sorted                   *)
(*   NewBackend(c)   a backend object, collecting errors or not             *)
(*   Convert(k)      Backend.convert: resolves and sorts again, converts    *)
(*                   rule by rule; a failing rule is recorded (collecting)  *)
(*                   or raised; a correlation rule whose referenced rule    *)
(*                   has no result fails likewise                           *)
(*   Validate(k)     all validators over the collection                     *)
(* Ideal: what Convert returns is a function of the SET of documents the    *)
(* collection was made of (IdealQueries / IdealErrors) - not of the order   *)
(* they came in, of how the collection was put together, of what the        *)
(* backend converted before, nor of validation.                             *)
(***************************************************************************)
EXTENDS Integers, Sequences, FiniteSets, SequencesExt, TLC

DocIds == 1..8
IsFilter(d) == d = 5
IsCorr(d) == d \in {4, 6, 7, 8}
RefSeq(d) == CASE d = 4 -> <<1, 2>> [] d = 6 -> <<3>> [] d = 7 -> <<4>> [] d = 8 -> <<2>> [] OTHER -> <<>>
RefSet(d) == {RefSeq(d)[i] : i \in 1..Len(RefSeq(d))}
Generates(d) == d \in {6, 8}
FailsAlone(d) == d = 3
NConds(d) == IF d = 2 THEN 2 ELSE 1
Targeted(d) == d = 1                      \* the rules filter 5 applies to

\* ---- collection objects ------------------------------------------------------------------
\* [st |-> "none" | "ok" | "failed", rules |-> Seq([d, f]), filters |-> Seq(Doc), pending |-> BOOLEAN, resolved |-> BOOLEAN]
\*   f = how often a filter was applied to the rule object ; pending = filters collected but not applied
NoColl == [st |-> "none", rules |-> <<>>, filters |-> <<>>, pending |-> FALSE, resolved |-> FALSE]
Failed == [st |-> "failed", rules |-> <<>>, filters |-> <<>>, pending |-> FALSE, resolved |-> FALSE]
DocsOf(c) == {c.rules[i].d : i \in 1..Len(c.rules)} \cup {c.filters[i] : i \in 1..Len(c.filters)}

ApplyFilters(rules, n) == [i \in 1..Len(rules) |-> IF Targeted(rules[i].d) THEN [rules[i] EXCEPT !.f = @ + n] ELSE rules[i]]
Missing(rules) == \E i \in 1..Len(rules) : \E r \in RefSet(rules[i].d) : ~\E j \in 1..Len(rules) : rules[j].d = r
\* references first, otherwise the given order (depth-first from every rule in turn)
RECURSIVE Visit(_, _, _)
Visit(rules, d, acc) ==       \* acc: sequence of document ids already placed
    IF (\E k \in 1..Len(acc) : acc[k] = d) \/ ~(\E j \in 1..Len(rules) : rules[j].d = d) THEN acc
    ELSE LET RECURSIVE Refs(_, _)
             Refs(k, a) == IF k > Len(RefSeq(d)) THEN a ELSE Refs(k + 1, Visit(rules, RefSeq(d)[k], a))
         IN  Append(Refs(1, acc), d)
SortRefsFirst(rules) ==
    LET RECURSIVE Go(_, _)
        Go(k, acc) == IF k > Len(rules) THEN acc ELSE Go(k + 1, Visit(rules, rules[k].d, acc))
        order == Go(1, <<>>)
    IN  [k \in 1..Len(order) |-> rules[CHOOSE j \in 1..Len(rules) : rules[j].d = order[k]]]

Entries(ds) == LET rs == SelectSeq(ds, LAMBDA d : ~IsFilter(d)) IN [i \in 1..Len(rs) |-> [d |-> rs[i], f |-> 0]]
FiltersIn(ds) == SelectSeq(ds, IsFilter)
Load(ds) ==
    LET rules == ApplyFilters(Entries(ds), Len(FiltersIn(ds))) IN
    IF Missing(rules) THEN Failed
    ELSE [st |-> "ok", rules |-> SortRefsFirst(rules), filters |-> FiltersIn(ds), pending |-> FALSE, resolved |-> TRUE]
LoadU(ds) == [st |-> "ok", rules |-> Entries(ds), filters |-> FiltersIn(ds), pending |-> FiltersIn(ds) # <<>>, resolved |-> FALSE]
\* (allfilters = FALSE: the negative control of MC_System - only the filters of the first collection are applied)
MergeM(a, b, allfilters) ==
    LET filters == a.filters \o b.filters
        rules == ApplyFilters(a.rules \o b.rules, IF allfilters THEN Len(filters) ELSE Len(a.filters))
    IN  IF Missing(rules) THEN Failed
        ELSE [st |-> "ok", rules |-> SortRefsFirst(rules), filters |-> filters, pending |-> FALSE, resolved |-> TRUE]
Merge(a, b) == MergeM(a, b, TRUE)

\* ---- conversion --------------------------------------------------------------------------
\* a rule emits its queries unless it is referred to and every referring correlation rule does without generation
Output(d, docs) == LET R == {e \in docs : IsCorr(e) /\ d \in RefSet(e)} IN R = {} \/ \E e \in R : Generates(e)
RECURSIVE NoResult(_, _)
NoResult(d, docs) == FailsAlone(d) \/ (IsCorr(d) /\ \E r \in RefSet(d) : NoResult(r, docs))
\* the rules a correlation rule embeds, directly or through other correlation rules
RECURSIVE Leaves(_)
Leaves(d) == IF IsCorr(d) THEN UNION {Leaves(r) : r \in RefSet(d)} ELSE {d}
RECURSIVE NSub(_)
NSub(d) == IF IsCorr(d) THEN LET rs == RefSeq(d) RECURSIVE Sum(_)
                                 Sum(k) == IF k > Len(rs) THEN 0 ELSE NSub(rs[k]) + Sum(k + 1) IN Sum(1)
           ELSE NConds(d)
\* a query is <<doc, condition number, filtered>> for a rule and <<doc, number of embedded sub-queries, some embedded rule filtered>> for a correlation rule
\* res == [queries |-> Seq(query), errors |-> Seq(doc), raised |-> BOOLEAN, collect |-> the backend's mode]
RECURSIVE ConvertFrom(_, _, _, _, _)
ConvertFrom(rules, docs, collect, k, res) ==
    IF k > Len(rules) \/ res.raised THEN res
    ELSE LET e == rules[k] IN
         IF NoResult(e.d, docs) THEN
             (IF collect THEN ConvertFrom(rules, docs, collect, k + 1, [res EXCEPT !.errors = Append(@, e.d)])
              ELSE [queries |-> <<>>, errors |-> <<>>, raised |-> TRUE, collect |-> FALSE])
         ELSE ConvertFrom(rules, docs, collect, k + 1,
                          IF ~Output(e.d, docs) THEN res
                          ELSE IF IsCorr(e.d) THEN
                              [res EXCEPT !.queries = Append(@, <<e.d, NSub(e.d), \E j \in 1..Len(rules) : rules[j].d \in Leaves(e.d) /\ rules[j].f >= 1>>)]
                          ELSE [res EXCEPT !.queries = @ \o [c \in 1..NConds(e.d) |-> <<e.d, c, e.f >= 1>>]])
ConvertColl(c, collect) ==
    LET rules == SortRefsFirst(c.rules)       \* convert() resolves and sorts once more
    IN  ConvertFrom(rules, {rules[i].d : i \in 1..Len(rules)}, collect, 1, [queries |-> <<>>, errors |-> <<>>, raised |-> FALSE, collect |-> collect])

\* ---- Ideal ---------------------------------------------------------------------------------
Emitting(S) == {x \in S : ~IsFilter(x) /\ ~NoResult(x, S) /\ Output(x, S)}
IdealQueries(S) ==
    UNION {{<<d, c, Targeted(d) /\ 5 \in S>> : c \in 1..NConds(d)} : d \in {x \in Emitting(S) : ~IsCorr(x)}}
    \cup {<<d, NSub(d), 5 \in S /\ \E r \in Leaves(d) : Targeted(r)>> : d \in {x \in Emitting(S) : IsCorr(x)}}
IdealErrors(S) == {d \in S : ~IsFilter(d) /\ NoResult(d, S)}

\* ---- the state and its steps -----------------------------------------------------------------
\* st == [colls |-> [1..2 -> collection], bk |-> [st, collect, log], last |-> result of the last Convert or NoRes,
\*        lastk / lastS |-> the slot and the document set it was computed for]
NoRes == [queries |-> <<>>, errors |-> <<>>, raised |-> FALSE, collect |-> FALSE]
SysInit == [colls |-> [k \in 1..2 |-> NoColl], bk |-> [st |-> "none", collect |-> FALSE, log |-> 0], last |-> NoRes, lastk |-> 0, lastS |-> {}]
\* op == [op, k (collection slot), ds (documents), collect]
Enabled(st, o) ==
    CASE o.op \in {"load", "loadu"} -> o.ds # <<>>
      [] o.op = "merge" -> /\ st.colls[1].st = "ok" /\ st.colls[2].st = "ok"
                           /\ DocsOf(st.colls[1]) \cap DocsOf(st.colls[2]) = {}
      [] o.op = "backend" -> TRUE
      [] o.op = "convert" -> /\ st.bk.st = "ready" /\ st.colls[o.k].st = "ok" /\ ~st.colls[o.k].pending
                             /\ ~Missing(st.colls[o.k].rules)      \* (an unresolved collection with a missing rule: not a call the property speaks of)
      [] o.op = "validate" -> st.colls[o.k].st = "ok"
      [] OTHER -> FALSE
SysStepM(st, o, allfilters) ==
    CASE o.op = "load" -> [st EXCEPT !.colls[o.k] = Load(o.ds)]
      [] o.op = "loadu" -> [st EXCEPT !.colls[o.k] = LoadU(o.ds)]
      [] o.op = "merge" -> [st EXCEPT !.colls[1] = MergeM(st.colls[1], st.colls[2], allfilters), !.colls[2] = NoColl]
      [] o.op = "backend" -> [st EXCEPT !.bk = [st |-> "ready", collect |-> o.collect, log |-> 0]]
      [] o.op = "convert" ->
           (LET r == ConvertColl(st.colls[o.k], st.bk.collect)
            IN  [st EXCEPT !.last = r, !.lastk = o.k, !.lastS = DocsOf(st.colls[o.k]), !.bk.log = @ + Len(r.errors),
                           !.colls[o.k].rules = SortRefsFirst(st.colls[o.k].rules), !.colls[o.k].resolved = TRUE])
      [] OTHER -> st          \* validate: observes only
SysStep(st, o) == SysStepM(st, o, TRUE)

\* ---- what must hold (checked by TLC in MC_System, and of every observed step by Judge_System) ------
QuerySet(r) == {r.queries[i] : i \in 1..Len(r.queries)}
ConvertIsIdeal(st) ==
    st.lastk # 0 =>
        LET S == st.lastS IN
        IF st.last.raised THEN ~st.last.collect /\ IdealErrors(S) # {}
        ELSE /\ QuerySet(st.last) = IdealQueries(S)
             /\ Len(st.last.queries) = Cardinality(IdealQueries(S))             \* every query once
             /\ {st.last.errors[i] : i \in 1..Len(st.last.errors)} = IdealErrors(S)
             /\ Len(st.last.errors) = Cardinality(IdealErrors(S))
             /\ (~st.last.collect => IdealErrors(S) = {})
\* in every loaded (resolved) collection the referenced rules come first
RefsFirst(c) == \A i \in 1..Len(c.rules) : \A r \in RefSet(c.rules[i].d) : \E j \in 1..(i - 1) : c.rules[j].d = r
Sorted(st) == \A k \in 1..2 : (st.colls[k].st = "ok" /\ st.colls[k].resolved) => RefsFirst(st.colls[k])
=============================================================================
