SPECIFICATION Spec
CONSTANT ReownAtApply = TRUE
CONSTANT MaxOps = 5
INVARIANT OwnedByApplied
PROPERTY HistoryFree
VIEW View
