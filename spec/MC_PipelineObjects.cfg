SPECIFICATION Spec
CONSTANT ReownAtApply = TRUE
CONSTANT ResetTracking = TRUE
CONSTANT ItemWritesBack = FALSE
CONSTANT MaxOps = 5
INVARIANT OwnedByApplied
PROPERTY HistoryFree
VIEW View
