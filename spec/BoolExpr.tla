----------------------------- MODULE BoolExpr -----------------------------
(***************************************************************************)
(* Boolean expressions over numbered atoms 1..n and their truth tables.    *)
(* An expression is a record                                               *)
(*   [k |-> "atom", i |-> Nat] | [k |-> "const", b |-> BOOLEAN]            *)
(*   [k |-> "not", a |-> e]    | [k |-> "and"/"or", args |-> Seq(e)]       *)
(* n-ary and/or with the usual conventions AND<<>> = TRUE, OR<<>> = FALSE. *)
(* An assignment is a number m in 0..2^n-1; atom i is true iff bit i-1 set.*)
(***************************************************************************)
EXTENDS Integers, Sequences, FiniteSets

Atom(i) == [k |-> "atom", i |-> i]
Const(b) == [k |-> "const", b |-> b]
Not(a) == [k |-> "not", a |-> a]
And(args) == [k |-> "and", args |-> args]
Or(args) == [k |-> "or", args |-> args]

RECURSIVE Pow2(_)
Pow2(n) == IF n = 0 THEN 1 ELSE 2 * Pow2(n - 1)
Bit(m, i) == (m \div Pow2(i - 1)) % 2 = 1

RECURSIVE Eval(_, _)
Eval(e, m) ==
    CASE e.k = "atom" -> Bit(m, e.i)
      [] e.k = "const" -> e.b
      [] e.k = "not" -> ~Eval(e.a, m)
      [] e.k = "and" -> \A j \in 1..Len(e.args) : Eval(e.args[j], m)
      [] e.k = "or" -> \E j \in 1..Len(e.args) : Eval(e.args[j], m)

\* truth table over n atoms: sequence of 2^n booleans (assignment m at position m+1)
TT(e, n) == [m1 \in 1..Pow2(n) |-> Eval(e, m1 - 1)]

RECURSIVE AtomsOf(_)
AtomsOf(e) ==
    CASE e.k = "atom" -> {e.i}
      [] e.k = "const" -> {}
      [] e.k = "not" -> AtomsOf(e.a)
      [] OTHER -> UNION {AtomsOf(e.args[j]) : j \in 1..Len(e.args)}

\* renumber atoms through a function/sequence f
RECURSIVE MapAtoms(_, _)
MapAtoms(e, f) ==
    CASE e.k = "atom" -> Atom(f[e.i])
      [] e.k = "const" -> e
      [] e.k = "not" -> Not(MapAtoms(e.a, f))
      [] OTHER -> [k |-> e.k, args |-> [j \in 1..Len(e.args) |-> MapAtoms(e.args[j], f)]]

\* first assignment (as number) on which two expressions differ, or -1
FirstDiff(e1, e2, n) ==
    LET D == {m \in 0..(Pow2(n) - 1) : Eval(e1, m) # Eval(e2, m)}
    IN  IF D = {} THEN 0 - 1 ELSE CHOOSE m \in D : \A m2 \in D : m <= m2
=============================================================================
