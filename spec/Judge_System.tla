---------------------------- MODULE Judge_System ----------------------------
(* Mode C judge for the integrated layer: trace validation with fully logged state.  An observation is a behaviour of
   the real objects: for every call the projection of the objects afterwards.  It is replayed through SysStep of
   spec/System.tla; every step must be enabled and must lead to a state with the same projection.               *)
EXTENDS System, Json, IOUtils
VARIABLE x
Obs == ndJsonDeserialize(IOEnv.VERIF_OBS)
\* projection of a specification state, in the shape the driver records
RuleProj(c) == [i \in 1..Len(c.rules) |-> <<c.rules[i].d, c.rules[i].f>>]
Mismatch(st, o, ob) ==      \* "" or the name of the first field that differs after call o
    IF ob.crash # "" THEN "NonSigmaException"
    ELSE IF \E k \in 1..2 : st.colls[k].st # ob.colls[k].st THEN "collection-state"
    ELSE IF \E k \in 1..2 : st.colls[k].st = "ok" /\ RuleProj(st.colls[k]) # ob.colls[k].rules THEN "rules-order-or-filter-count"
    ELSE IF \E k \in 1..2 : st.colls[k].st = "ok" /\ st.colls[k].filters # ob.colls[k].filters THEN "filters"
    ELSE IF o.op = "convert" /\ st.last.raised # ob.last.raised THEN "raised"
    ELSE IF o.op = "convert" /\ st.last.queries # ob.last.queries THEN "queries"
    ELSE IF o.op = "convert" /\ st.last.errors # ob.last.errors THEN "errors"
    ELSE IF st.bk.st = "ready" /\ st.bk.log # ob.log THEN "backend-error-log"
    ELSE ""
RECURSIVE Replay(_, _, _)
Replay(o, st, k) ==
    IF k > Len(o.ops) THEN ""
    ELSE IF ~Enabled(st, o.ops[k]) THEN "NotEnabled:" \o o.ops[k].op
    ELSE LET nx == SysStep(st, o.ops[k])
             m == Mismatch(nx, o.ops[k], o.steps[k])
         IN  IF m # "" THEN "Step:" \o o.ops[k].op \o ":" \o m
             \* (the Ideal, evaluated on what was observed: every conversion is the function of the document set)
             ELSE IF ~ConvertIsIdeal(nx) THEN "ConvertIsIdeal"
             ELSE Replay(o, nx, k + 1)
Verdict(o) == LET c == Replay(o, SysInit, 1) IN [id |-> o.id, v |-> IF c = "" THEN "ok" ELSE "violation:" \o c]
ASSUME ndJsonSerialize(IOEnv.VERIF_OUT, [i \in 1..Len(Obs) |-> Verdict(Obs[i])])
Init == x = 0
Next == UNCHANGED x
=============================================================================
