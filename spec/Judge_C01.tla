---------------------------- MODULE Judge_C01 ----------------------------
(* Mode C judge for C01: every recorded query is parsed with the TARGET language's own
   grammar and precedence (QueryLang, K.prec) and compared, over all truth assignments of
   the atoms, with the meaning of the rule computed from its source form (Detection).  *)
EXTENDS Detection, Json, IOUtils, TLC
VARIABLE x
Obs == ndJsonDeserialize(IOEnv.VERIF_OBS)
C(name) == [dev |-> FALSE, name |-> name]
D(name) == [dev |-> TRUE, name |-> name]

RECURSIVE HasKind(_, _)
HasKind(e, kinds) == \E a \in QAtoms(e) : a.k \in kinds
RECURSIVE AnyRaw(_)
AnyRaw(e) == \E a \in QAtoms(e) : a.raw

\* ---- recorded deviation: not-equals mode --------------------------------------------
\* With convert_not_as_not_eq the NOT token is never written: every string / regex / CIDR
\* predicate below a NOT is rendered with its negated template (if the configuration has
\* one) and the AND/OR structure is left as it is - De Morgan is not applied, a second NOT
\* does not cancel the first, other predicate kinds stay un-negated.  The deviation is
\* identified by its input class (NotEqTrap: a NOT over anything but a single predicate
\* with a negated template); such a query must still consist of exactly the rule's
\* predicates.  NOT over one negatable predicate, and every rule without NOT, is judged
\* exactly also in not-equals mode.
Negatable(K, a) ==
    /\ a.f # <<>>                      \* keyword (unbound) values have no negated template
    /\ \/ a.k = "re" \/ (a.k = "cidr" /\ K.cidr)
       \/ (a.k \in {"str", "cased"} /\
          LET p == a.p
              n == Len(p)
              inner(s) == \E j \in 1..Len(s) : IsWild(s[j])
              sw == n >= 1 /\ p[n] = STAR /\ (K.allowspecial \/ ~inner(SubSeq(p, 1, n - 1)))
              ew == n >= 1 /\ p[1] = STAR /\ (K.allowspecial \/ ~inner(SubSeq(p, 2, n)))
              ct == n >= 1 /\ p[1] = STAR /\ p[n] = STAR /\ (K.allowspecial \/ (n >= 2 /\ ~inner(SubSeq(p, 2, n - 1))) \/ n = 1)
              full == a.k = "cased" /\ K.cs = "full"
          IN  IF a.k = "cased" THEN
                   (full /\ ((sw) \/ (ew) \/ (ct)))
              ELSE IF K.sw /\ sw THEN TRUE
              ELSE IF K.ew /\ ew THEN TRUE
              ELSE IF K.ct /\ ct THEN TRUE
              ELSE IF K.wm /\ inner(p) THEN FALSE
              ELSE TRUE)
\* operands of the NOT nodes of an expression
RECURSIVE NotOperands(_)
NotOperands(e) ==
    CASE e.k = "leaf" -> {}
      [] e.k = "not" -> {e.a} \cup NotOperands(e.a)
      [] OTHER -> UNION {NotOperands(e.args[j]) : j \in 1..Len(e.args)}
\* the input class of the deviation: some NOT is applied to something else than one predicate
\* that has a negated template in K
NotEqTrap(K, e) == K.noteq /\ \E a \in NotOperands(e) : ~(a.k = "leaf" /\ Negatable(K, a.a))
Plain(a) == [a EXCEPT !.raw = FALSE]

\* ---- recorded deviation: a detection referenced twice in not-equals mode ----------------
\* Negated templates are chosen by walking the parent links of the condition tree; a detection
\* that the condition references more than once is ONE shared object whose parent link points
\* to the last reference only, so the other references are rendered with that one's polarity.
RECURSIVE RefSeq(_, _)
RefSeq(a, names) ==
    CASE a.k = "id" -> <<IndexOf(a.n, names)>>
      [] a.k = "sel" -> SetToSortedSeq(SelMatches(a.p, names))
      [] a.k = "cnot" -> RefSeq(a.a, names)
      [] OTHER -> RefSeq(a.l, names) \o RefSeq(a.r, names)
SharedDetection(doc, c) ==
    LET p == Parse(doc.conds[c])
        rs == IF p.ok THEN RefSeq(p.ast, [k \in 1..Len(doc.dets) |-> doc.dets[k].name]) ELSE <<>>
    IN  \E i, j \in 1..Len(rs) : i # j /\ rs[i] = rs[j]

\* no backend of the family can say this: a case-sensitive value without case-sensitive templates, or
\* without a field (there is no template for case-sensitive keywords at all)
Unsupported(K, e) == \E a \in QAtoms(e) :
    \/ (a.k = "cased" /\ (K.cs = "none" \/ a.f = <<>>))
    \* parts of a timestamp, in a target language that has no way to address them
    \/ (~K.ts /\ (a.k = "ts" \/ (a.k = "cmp" /\ a.x[Len(a.x)] # 47)))

\* ---- recorded deviation: deferred query parts outside a conjunction ----------------------
\* A backend that defers a predicate (K.defer: regular expressions on fields) gets it out of the place where it stands
\* and appends it as a filter on the result: right for a predicate all of whose ancestors are ANDs (a NOT directly above
\* it is carried along), wrong below an OR or below a negated group - the OR loses an alternative and the filter
\* applies to everything (tests/test_conversion_deferred.py::test_deferred_conversion_or pins that).  Input class:
\* some deferred predicate of the rule is not in such a conjunctive position.
Deferred(K, a) == K.defer /\ a.k = "re" /\ a.f # <<>>
RECURSIVE OutsideConjunction(_, _, _)
OutsideConjunction(K, e, conj) ==
    CASE e.k = "leaf" -> Deferred(K, e.a) /\ ~conj
      [] e.k = "not" -> OutsideConjunction(K, e.a, conj /\ e.a.k = "leaf")
      [] e.k = "and" -> \E j \in 1..Len(e.args) : OutsideConjunction(K, e.args[j], conj)
      [] OTHER -> \E j \in 1..Len(e.args) : OutsideConjunction(K, e.args[j], conj /\ Len(e.args) = 1)

QueryClause(K, want, text, shared) ==
    LET got == ParseQuery(text, K.prec) IN
    IF ~got.ok THEN C("QueryUnreadable")
    ELSE LET g == got.e IN
    IF ~AnyRaw(g) /\ QEquiv(want, g) THEN C("")
    ELSE IF AnyRaw(g) /\ QEquiv(want, Unmark(g)) THEN D("Dev_NativeCidrRawField")
    ELSE IF OutsideConjunction(K, want, TRUE) /\ QAtoms(want) = {Plain(a) : a \in QAtoms(g)} THEN D("Dev_DeferredOutsideConjunction")
    \* in not-equals mode a NOT directly over a deferred predicate negates it twice: once through the negated template the
    \* value is rendered with, once more through the negation flag of the deferred part
    ELSE IF K.noteq /\ (\E a \in NotOperands(want) : a.k = "leaf" /\ Deferred(K, a.a)) /\ QAtoms(want) = {Plain(a) : a \in QAtoms(g)}
         THEN D("Dev_NotEqDeferredNegatedTwice")
    ELSE IF NotEqTrap(K, want) /\ QAtoms(want) = {Plain(a) : a \in QAtoms(g)} THEN D("Dev_NotEqDropsNegation")
    ELSE IF K.noteq /\ shared /\ QAtoms(want) = {Plain(a) : a \in QAtoms(g)} THEN D("Dev_NotEqSharedDetectionParent")
    ELSE C("Equiv")

Clauses(o) ==
    LET K == o.K
        n == Len(o.doc.conds)
        wants == [c \in 1..n |-> RuleDen(o.doc, c, K.cidr)]
        st == Worst([c \in 1..n |-> wants[c].st])
    IN
    IF st = "unspec" THEN <<D("__unspec")>>     \* the documents do not define the rule's meaning: nothing is asserted
    ELSE IF ~o.ret.ok THEN
        (IF o.ret.sigma THEN (IF st = "fail" THEN <<>> ELSE <<C("ValidRuleRejected")>>)
         ELSE IF o.ret.exc = "NotImplementedError" /\ \E c \in 1..n : Unsupported(K, wants[c].e) THEN <<>>
         ELSE <<C("NonSigmaException")>>)
    ELSE IF st = "fail" THEN <<C("InvalidRuleConverted")>>
    ELSE IF Len(o.ret.out) # n THEN <<C("OneQueryPerCondition")>>
    ELSE SelectSeq([c \in 1..n |-> QueryClause(K, wants[c].e, o.ret.out[c], SharedDetection(o.doc, c))], LAMBDA cl : cl.name # "")

Verdict(o) ==
    LET cs == Clauses(o)
        viol == SelectSeq(cs, LAMBDA c : ~c.dev)
    IN  [id |-> o.id,
         v |-> IF viol # <<>> THEN "violation:" \o viol[1].name
               ELSE IF cs # <<>> THEN (IF cs[1].name = "__unspec" THEN "unspec" ELSE "dev:" \o cs[1].name) ELSE "ok"]
ASSUME ndJsonSerialize(IOEnv.VERIF_OUT, [i \in 1..Len(Obs) |-> Verdict(Obs[i])])
Init == x = 0
Next == UNCHANGED x
=============================================================================
