SPECIFICATION Spec
CONSTANT MaxChain = 3
INVARIANT Total
INVARIANT WildIdempotent
INVARIANT WildOnlyEnds
INVARIANT CasedKeepsContent
INVARIANT WindashExact
INVARIANT ExpandConserves
PROPERTY Monotone
PROPERTY Separation
