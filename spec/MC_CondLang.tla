--------------------------- MODULE MC_CondLang ---------------------------
(* Mode A for the condition language: the reference parser is run as a real
   state machine (one TLC transition per shift/reduce step) on the printed
   form of every AST up to MaxOps operators in every print style.  Decided on
   the design: the parser never errs on printed text, always terminates in
   status "ok", and the parsed tree has the truth table of the printed tree
   (precedence, associativity, parentheses, whole-word lexing, selectors). *)
EXTENDS CondLang
CONSTANT MaxOps
VARIABLES c, ast, style

\* detection names: sel_a, sel_b, notepad, _inj
N_sel_a == <<115, 101, 108, 95, 97>>
N_sel_b == <<115, 101, 108, 95, 98>>
N_notepad == <<110, 111, 116, 101, 112, 97, 100>>
N_inj == <<95, 105, 110, 106>>
Names == <<N_sel_a, N_sel_b, N_notepad, N_inj>>
P_sel == <<115, 101, 108, 95, 42>>        \* sel_*
P_us == <<95, 42>>                        \* _*
Leaves == {CId(Names[i]) : i \in 1..4} \cup
          {CSel("any", P_sel), CSel("all", S_them), CSel("1", P_us)}

Init == /\ ast \in TreesUpTo(MaxOps, Leaves)
        /\ style \in Styles
        /\ c = PInit(Lex(CPrint(ast, style)))
Next == /\ c.status = "run"
        /\ c' = PStep(c)
        /\ UNCHANGED <<ast, style>>

NeverErr == c.status # "err"
Progress == c.pos <= Len(c.toks) + 1
SameMeaning ==
    c.status = "ok" =>
        LET got == Resolve(c.out[1], Names)
            want == Resolve(ast, Names)
        IN  got.st = "ok" /\ want.st = "ok" /\ TT(got.e, 4) = TT(want.e, 4)
\* printing with minimal parentheses and parsing gives back the very same tree
SameTree == (c.status = "ok" /\ style \in {"min", "full", "tight"}) => c.out[1] = ast
\* selector semantics (non-vacuity + underscore rule)
SelectorFacts ==
    /\ SelMatches(P_sel, Names) = {1, 2}
    /\ SelMatches(S_them, Names) = {1, 2, 3}
    /\ SelMatches(P_us, Names) = {4}
    /\ SelMatches(<<42>>, Names) = {1, 2, 3}
Terminates == <>(c.status = "ok")
Spec == Init /\ [][Next]_<<c, ast, style>> /\ WF_<<c, ast, style>>(Next)
=============================================================================
