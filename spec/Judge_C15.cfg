INIT Init
NEXT Next
CONSTANT ReownAtApply = TRUE
CONSTANT ResetTracking = TRUE
CONSTANT ItemWritesBack = FALSE
