INIT Init
NEXT Next
CONSTANT ReownAtApply = TRUE
