---------------------------- MODULE StrConfigs ----------------------------
(* The family of target-literal configurations used by C05 (and by the /verif backend
   family).  Groups share a source alphabet that contains every character with a
   meaning in the group's configurations.                                          *)
EXTENDS SigmaStr

MkK(esc, wm, ws, add, filt, quote) == [esc |-> esc, wm |-> wm, ws |-> ws, add |-> add, filt |-> filt, quote |-> quote, cq |-> FALSE]
Configs == <<
  MkK(92, <<42>>, <<63>>, {92}, {}, 34),              \* 1  backslash, * ?, always quoted with "
  MkK(92, <<42>>, <<63>>, {92, 58}, {38}, 34),        \* 2  extra escaped ':' and filtered '&'
  MkK(94, <<46, 42>>, <<46>>, {94}, {}, 34),          \* 3  escape '^', multi-char wildcards .* and .
  MkK(92, <<37>>, <<95>>, {92}, {}, 39),              \* 4  SQL-like: % _ and single quotes
  MkK(92, <<42>>, <<>>, {92}, {}, 34),                \* 5  no single-character wildcard in the target
  MkK(92, <<42>>, <<63>>, {92}, {38, 58}, 34),        \* 6  filter only
  MkK(92, <<42>>, <<63>>, {92, 32}, {}, NONE),        \* 7  unquoted literals, space escaped
  MkK(92, <<42>>, <<63>>, {58}, {}, 34),              \* 8  NOT well-formed: the escape character itself is not among the
                                                      \*    additionally escaped characters (as in the bundled test backend)
  [MkK(92, <<42>>, <<63>>, {92}, {}, 34) EXCEPT !.cq = TRUE]   \* 9  conditional quoting: only values with a blank are quoted
>>
Groups == <<
  [ks |-> <<1, 2, 5, 6, 7, 8, 9>>, alpha |-> {92, 42, 63, 34, 58, 38, 97, 32}],
  [ks |-> <<3>>,             alpha |-> {94, 46, 42, 63, 34, 97, 92}],
  [ks |-> <<4>>,             alpha |-> {92, 37, 95, 39, 42, 63, 97}]
>>
\* field-name configurations: quote, escape, set of characters the configuration escapes,
\* quote only names that are not plain words?
MkFK(quote, esc, escset, always) == [quote |-> quote, esc |-> esc, escset |-> escset, always |-> always]
FieldConfigs == <<
  MkFK(96, 92, {92, 32}, TRUE),       \* `name` always quoted; backslash and space escaped
  MkFK(96, 92, {92, 32}, FALSE),      \* quoted unless ^\w+$
  MkFK(NONE, 92, {92, 32, 46}, FALSE), \* never quoted; backslash, space and dot escaped
  MkFK(96, 92, {92, 96, 46}, TRUE)     \* the escape pattern ALSO matches the quote character (escaped once, not twice)
>>
FieldAlpha == {97, 32, 96, 92, 46, 95}
=============================================================================
