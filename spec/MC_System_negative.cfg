SPECIFICATION Spec
CONSTANT MaxSteps = 5
CONSTANT MergeAllFilters = FALSE
INVARIANT ConvertIdeal
INVARIANT SortedInv
CHECK_DEADLOCK FALSE
