INIT Init
NEXT Next
CONSTANT MaxLen = 4
INVARIANT B64RoundTrip
INVARIANT AlignmentTheorem
INVARIANT NoPadding
INVARIANT Maximal
INVARIANT Locality
INVARIANT Utf16Facts
