----------------------------- MODULE Gen_C03 -----------------------------
(* Mode B generator for C03: seed values x modifier chains (admissible or not).
   Shard k = chains whose first modifier is the k-th of the table (so 33 TLC processes
   share the work); shard 0 = chains of length 0 and 1.                             *)
EXTENDS Modifiers, ModSeeds, Json, IOUtils, Randomization, TLC
VARIABLE x
Tier == IOEnv.VERIF_TIER
Shard == atoi(IOEnv.VERIF_SHARD)
Quick == Tier = "quick"
Mods == SetToSeq(AllModifiers)
ShortNames == AllModifiers \ {N_ignorecase, N_multiline, N_dotall}

Scalars == {<<StrSeeds[i]>> : i \in 1..Len(StrSeeds)} \cup {<<OtherSeeds[i]>> : i \in 1..Len(OtherSeeds)}
Lists == {<<StrSeeds[2], StrSeeds[3]>>, <<OtherSeeds[1], OtherSeeds[2]>>, <<StrSeeds[10], OtherSeeds[1]>>,
          <<StrSeeds[17], StrSeeds[4]>>, <<StrSeeds[2], NullV>>}
Values == Scalars \cup Lists
\* a smaller value set for chains of length 3 and 4
CoreValues == {<<StrSeeds[i]>> : i \in {2, 5, 7, 12, 19, 24, 27}} \cup {<<OtherSeeds[1]>>, <<OtherSeeds[5]>>}
              \cup {<<StrSeeds[10], OtherSeeds[1]>>}

Chains ==
    IF Shard = 0 THEN {<<>>} \cup {<<m>> : m \in AllModifiers}
    ELSE LET m1 == Mods[Shard] IN
         {<<m1, m2>> : m2 \in AllModifiers}
ChainsLong ==
    IF Shard = 0 THEN {}
    ELSE LET m1 == Mods[Shard] IN
         IF Quick THEN RandomSubset(40, {<<m1, m2, m3>> : m2, m3 \in ShortNames})
         ELSE {<<m1, m2, m3>> : m2, m3 \in ShortNames}
              \cup RandomSubset(400, {<<m1, m2, m3, m4>> : m2, m3, m4 \in ShortNames})

\* regular expressions that carry flags when a wildcard modifier extends them (and flags added afterwards): always generated
ReChains == IF Shard # 0 THEN {} ELSE
            {<<N_re, f, w>> : f \in {N_i, N_m, N_s}, w \in {N_contains, N_startswith, N_endswith}}
            \cup {<<N_re, N_i, N_m, N_contains>>, <<N_re, N_i, N_contains, N_m>>, <<N_re, N_contains, N_i>>, <<N_re, N_s, N_endswith, N_i>>}
Cases == {[vals |-> v, chain |-> c, field |-> TRUE] : v \in CoreValues, c \in ReChains} \cup
         {[vals |-> v, chain |-> c, field |-> f] : v \in Values, c \in Chains, f \in {TRUE}}
         \cup {[vals |-> v, chain |-> c, field |-> FALSE] : v \in {<<StrSeeds[2]>>, <<OtherSeeds[5]>>}, c \in Chains}
         \cup {[vals |-> v, chain |-> c, field |-> TRUE] : v \in CoreValues, c \in ChainsLong}
ASSUME LET S == SetToSeq(Cases)
       IN  ndJsonSerialize(IOEnv.VERIF_OUT, [i \in 1..Len(S) |-> [id |-> Shard * 1000000 + i] @@ S[i]])
Init == x = 0
Next == UNCHANGED x
=============================================================================
