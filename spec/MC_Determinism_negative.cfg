SPECIFICATION Spec
CONSTANT Sorted = FALSE
INVARIANT Deterministic
