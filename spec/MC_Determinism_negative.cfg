SPECIFICATION Spec
CONSTANT Sorted = FALSE
CONSTANT NamesAsWritten = TRUE
INVARIANT Deterministic
INVARIANT NoInternalName
