----------------------------- MODULE Detection -----------------------------
(***************************************************************************)
(* Meaning of a Sigma rule document (source form) as a QExpr over          *)
(* canonical atoms - the reference the converted queries are compared to.  *)
(*                                                                         *)
(* doc  == [dets |-> Seq([name, body]), conds |-> Seq(condition text)]     *)
(* body == [kind |-> "map",  items |-> Seq(item), maps |-> <<>>, vals |-> <<>>]   AND of items *)
(*       | [kind |-> "maps", maps |-> Seq(Seq(item)), ...]                 OR of maps          *)
(*       | [kind |-> "kw",   vals |-> Seq(source value), ...]              OR of keywords      *)
(* item == [field |-> name (<<>> = keyword item), chain |-> Seq(modifier), *)
(*          vals |-> Seq(source value)]                                    *)
(* Values of one item are OR-linked (AND with `all`), `neq` negates the    *)
(* item, an expansion is an OR group, null / exists / cidr / ... are atoms *)
(* of their own kind.                                                      *)
(***************************************************************************)
EXTENDS QueryLang, Modifiers, CondLang

\* ---- values to atoms ------------------------------------------------------
\* K only matters for CIDR: natively one atom, otherwise the OR of wildcard patterns
OpCode(m) == m      \* comparison operators are identified by their modifier name

V4OfText(t) ==      \* "a.b.c.d/p" of the seed family -> [net, p]
    LET sl == SplitAt(t, 47)
        oc == SplitAt(sl[1], 46)
    IN  [net |-> [i \in 1..4 |-> DecVal(oc[i])], p |-> DecVal(sl[2])]
BlockText(b) ==
    IF Len(b) = 4 THEN V4Text(b)
    ELSE IF Len(b) = 0 THEN <<STAR>>
    ELSE Join([i \in 1..Len(b) |-> NatText(b[i])], <<46>>) \o <<46, STAR>>
SetToSeqD(S) ==     \* deterministic order is irrelevant (OR), any enumeration will do
    LET RECURSIVE B(_)
        B(T) == IF T = {} THEN <<>> ELSE LET x == CHOOSE y \in T : TRUE IN <<x>> \o B(T \ {x})
    IN  B(S)

RECURSIVE ValQE(_, _, _)
ValQE(f, v, nativeCidr) ==     \* [st |-> "ok"|"fail"|"unspec", e |-> QExpr]
    LET ok(e) == [st |-> "ok", e |-> e] IN
    CASE v.t \in {"str", "cased"} ->
           (IF HasPH(v) THEN [st |-> "fail", e |-> QTrue]
            ELSE ok(QLeaf(StrAtom(f, v.t = "cased", v.parts))))
      [] v.t = "num" -> ok(QLeaf(MkAtom(f, "num", ReduceFrac(v.num[1], v.num[2]), <<>>)))
      [] v.t = "bool" -> (IF f = <<>> THEN [st |-> "fail", e |-> QTrue]
                          ELSE ok(QLeaf(MkAtom(f, "bool", <<IF v.b THEN 1 ELSE 0>>, <<>>))))
      [] v.t = "null" -> ok(QLeaf(MkAtom(f, "null", <<>>, <<>>)))
      [] v.t = "exists" -> ok(IF v.b THEN QLeaf(MkAtom(f, "exists", <<>>, <<>>))
                              ELSE QNot(QLeaf(MkAtom(f, "exists", <<>>, <<>>))))
      [] v.t = "re" -> (IF v.phs # <<>> THEN [st |-> "unspec", e |-> QTrue]
                        ELSE ok(QLeaf(MkAtom(f, "re", v.s, v.flags))))
      [] v.t = "cidr" ->
           (IF f = <<>> THEN [st |-> "fail", e |-> QTrue]
            ELSE IF nativeCidr THEN ok(QLeaf(MkAtom(f, "cidr", v.s, <<>>)))
            ELSE IF \E k \in 1..Len(v.s) : v.s[k] = 58 THEN [st |-> "unspec", e |-> QTrue]   \* IPv6: see C18
            ELSE LET n == V4OfText(v.s)
                     bs == SetToSeqD(RefV4Blocks(n.net, n.p))
                 IN  ok(QOr([k \in 1..Len(bs) |-> QLeaf(StrAtom(f, FALSE, BlockText(bs[k])))])))
      [] v.t = "cmp" -> (IF v.parts # <<>> THEN [st |-> "unspec", e |-> QTrue]        \* numbers beyond TLC's integers: C03
                         ELSE ok(QLeaf(MkAtom(f, "cmp", ReduceFrac(v.num[1], v.num[2]), v.s \o <<47>> \o v.flags))))
      [] v.t = "tspart" -> ok(QLeaf(MkAtom(f, "ts", ReduceFrac(v.num[1], v.num[2]), v.s)))
      [] v.t = "fieldref" -> ok(QLeaf(MkAtom(f, "fref", v.s, v.flags)))
      [] v.t = "qexpr" -> (IF f = <<>> THEN [st |-> "unspec", e |-> QTrue] ELSE ok(QLeaf(MkAtom(f, "qx", v.s, <<>>))))
      [] v.t = "exp" ->
           (LET rs == [k \in 1..Len(v.vals) |-> ValQE(f, v.vals[k], nativeCidr)] IN
            IF \E k \in 1..Len(rs) : rs[k].st = "fail" THEN [st |-> "fail", e |-> QTrue]
            ELSE IF \E k \in 1..Len(rs) : rs[k].st = "unspec" THEN [st |-> "unspec", e |-> QTrue]
            ELSE ok(QOr([k \in 1..Len(rs) |-> rs[k].e])))
      [] OTHER -> [st |-> "unspec", e |-> QTrue]

Worst(sts) == IF \E k \in 1..Len(sts) : sts[k] = "fail" THEN "fail"
              ELSE IF \E k \in 1..Len(sts) : sts[k] = "unspec" THEN "unspec" ELSE "ok"

\* Rw(field, value) is a hook through which a processing pipeline rewrites every value after the
\* modifiers were applied: it returns [st |-> "ok"|"fail"|"unspec", vals |-> Seq(value)] (one value may
\* become several, which are OR-linked among themselves).
IdRw(f, v) == [st |-> "ok", vals |-> <<v>>]

ItemQEx(item, nativeCidr, Rw(_, _)) ==
    LET r == Apply(item.vals, item.chain, item.field # <<>>) IN
    IF r.status = "reject" THEN [st |-> "fail", e |-> QTrue]
    ELSE IF r.status = "unspec" \/ r.vals = <<>> THEN [st |-> "unspec", e |-> QTrue]
    ELSE LET rw == [k \in 1..Len(r.vals) |-> Rw(item.field, r.vals[k])]
             one(k) ==      \* the k-th original value after rewriting: an OR group if it fanned out
                 LET vs == rw[k].vals
                     es == [j \in 1..Len(vs) |-> ValQE(item.field, vs[j], nativeCidr)]
                 IN  [st |-> Worst(<<rw[k].st>> \o [j \in 1..Len(es) |-> es[j].st]),
                      e |-> IF Len(es) = 1 THEN es[1].e ELSE QOr([j \in 1..Len(es) |-> es[j].e])]
             rs == [k \in 1..Len(r.vals) |-> one(k)]
             args == [k \in 1..Len(rs) |-> rs[k].e]
             linked == IF Len(args) = 1 THEN args[1] ELSE IF r.linking = "and" THEN QAnd(args) ELSE QOr(args)
         IN  [st |-> Worst([k \in 1..Len(rs) |-> rs[k].st]), e |-> IF r.negated THEN QNot(linked) ELSE linked]
ItemQE(item, nativeCidr) == ItemQEx(item, nativeCidr, IdRw)

MapQEx(items, nativeCidr, Rw(_, _)) ==
    LET rs == [k \in 1..Len(items) |-> ItemQEx(items[k], nativeCidr, Rw)] IN
    [st |-> Worst([k \in 1..Len(rs) |-> rs[k].st]),
     e |-> IF Len(rs) = 1 THEN rs[1].e ELSE QAnd([k \in 1..Len(rs) |-> rs[k].e])]

BodyQEx(body, nativeCidr, Rw(_, _)) ==
    CASE body.kind = "map" -> MapQEx(body.items, nativeCidr, Rw)
      [] body.kind = "maps" ->
           (LET rs == [k \in 1..Len(body.maps) |-> MapQEx(body.maps[k], nativeCidr, Rw)] IN
            [st |-> Worst([k \in 1..Len(rs) |-> rs[k].st]),
             e |-> IF Len(rs) = 1 THEN rs[1].e ELSE QOr([k \in 1..Len(rs) |-> rs[k].e])])
      [] OTHER ->   \* keyword list
           ItemQEx([field |-> <<>>, chain |-> <<>>, vals |-> body.vals], nativeCidr, Rw)
BodyQE(body, nativeCidr) == BodyQEx(body, nativeCidr, IdRw)

\* substitute detections into the denotation of a condition
RECURSIVE Subst(_, _)
Subst(b, des) ==
    CASE b.k = "atom" -> des[b.i]
      [] b.k = "const" -> (IF b.b THEN QAnd(<<>>) ELSE QOr(<<>>))
      [] b.k = "not" -> QNot(Subst(b.a, des))
      [] OTHER -> [k |-> b.k, args |-> [j \in 1..Len(b.args) |-> Subst(b.args[j], des)]]

\* meaning of condition number c of the document
RuleDenX(doc, c, nativeCidr, Rw(_, _)) ==
    LET names == [k \in 1..Len(doc.dets) |-> doc.dets[k].name]
        d == Den(doc.conds[c], names)
        used == IF d.st = "ok" THEN AtomsOf(d.e) ELSE {}
        bs == [k \in 1..Len(doc.dets) |-> IF k \in used THEN BodyQEx(doc.dets[k].body, nativeCidr, Rw) ELSE [st |-> "ok", e |-> QTrue]]
        \* a detection that cannot be loaded makes the whole rule fail, referenced or not
        all == [k \in 1..Len(doc.dets) |-> BodyQEx(doc.dets[k].body, nativeCidr, Rw).st]
    IN  IF d.st # "ok" THEN [st |-> IF d.st = "unspec" THEN "unspec" ELSE "fail", e |-> QTrue]
        ELSE [st |-> Worst(all), e |-> Subst(d.e, [k \in 1..Len(bs) |-> bs[k].e])]
RuleDen(doc, c, nativeCidr) == RuleDenX(doc, c, nativeCidr, IdRw)
=============================================================================
