---------------------------- MODULE Judge_C18 ----------------------------
(* Mode C judge for C18: the recorded pattern lists are decided by octet arithmetic
   (IPv4: exact, disjoint cover) and by matching corner addresses in canonical text
   (IPv6); native CIDR conversion must carry network, address, prefix length, netmask. *)
EXTENDS Cidr, Json, IOUtils, TLC
VARIABLE x
Obs == ndJsonDeserialize(IOEnv.VERIF_OBS)
C(name) == [dev |-> FALSE, name |-> name]
D(name) == [dev |-> TRUE, name |-> name]
BAR == <<124>>

NativeWant(o) ==
    LET v4 == o.kind = "v4"
        addr == IF v4 THEN V4Text(o.net) ELSE Canonical(o.net)
        mask == IF v4 THEN V4Text(V4MaskOctets(o.p)) ELSE Canonical(MaskV6([i \in 1..8 |-> 65535], o.p))
    IN  <<102>> \o BAR \o addr \o <<47>> \o NatText(o.p) \o BAR \o addr \o BAR \o NatText(o.p) \o BAR \o mask

Clauses(o) ==
    IF o.kind = "bad" THEN
        (IF o.expand.ok \/ o.native.ok \/ o.item.ok THEN <<C("InvalidRejected")>>
         ELSE IF ~o.expand.sigma \/ ~o.native.sigma \/ ~o.item.sigma THEN <<C("InvalidRejected:NonSigmaException")>>
         ELSE <<>>)
    ELSE IF ~o.expand.ok \/ ~o.native.ok THEN <<C("ValidNetworkRejected")>>
    ELSE
    LET pats == o.expand.out
        nat == IF o.native.out # <<NativeWant(o)>> THEN <<C("NativeFieldsUnchanged")>> ELSE <<>>
    IN
    IF o.kind = "v4" THEN
        LET parsed == [i \in 1..Len(pats) |-> ParseV4Pattern(pats[i])]
            blocks == [i \in 1..Len(pats) |-> parsed[i].q]
        IN  (IF \E i \in 1..Len(pats) : ~parsed[i].ok THEN <<C("V4PatternShape")>>
             ELSE IF Overlapping(blocks) THEN <<C("V4NoRedundantPattern")>>
             ELSE IF ~ExactCover({blocks[i] : i \in 1..Len(blocks)}, o.net, o.p) THEN <<C("V4Exact")>>
             ELSE <<>>) \o nat
    ELSE
        (IF \A a \in Corners(o.net, o.p) : V6Covered(pats, a) THEN <<>>
         \* recorded deviation: patterns are the common text prefix of first and last address
         ELSE IF pats = TextPrefixPatterns(o.net, o.p) THEN <<D("Dev_V6TextPrefixMissesCompressedForms")>>
         ELSE <<C("V6Covered")>>) \o nat

Verdict(o) ==
    LET cs == Clauses(o)
        viol == SelectSeq(cs, LAMBDA c : ~c.dev)
    IN  [id |-> o.id,
         v |-> IF viol # <<>> THEN "violation:" \o viol[1].name
               ELSE IF cs # <<>> THEN "dev:" \o cs[1].name ELSE "ok"]
ASSUME ndJsonSerialize(IOEnv.VERIF_OUT, [i \in 1..Len(Obs) |-> Verdict(Obs[i])])
Init == x = 0
Next == UNCHANGED x
=============================================================================
