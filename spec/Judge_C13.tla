---------------------------- MODULE Judge_C13 ----------------------------
(* Mode C judge for C13: the marker transformation must have acted on exactly the detection
   items, field-list entries and rule for which the gate of spec/Gating.tla holds.          *)
EXTENDS Gating, ModSeeds, Json, IOUtils, TLC
VARIABLE x
Obs == ndJsonDeserialize(IOEnv.VERIF_OBS)
fB == <<102,105,101,108,100,66>> fC == <<102,105,101,108,100,67>> fD == <<102,105,101,108,100,68>> fE == <<102,105,101,108,100,69>>
t_ren == <<114,101,110>> t_st == <<115,116>>
\* the probe rule AFTER the two preceding items (set_state k=v, id st ; fieldA -> fieldB, id ren)
Rule == [ls |-> [cat |-> <<99>>, prod |-> <<119,105,110,100,111,119,115>>, svc |-> <<>>],
         tags |-> <<(<<97,116,116,97,99,107,46,116,49,48,48,48>>)>>, corr |-> FALSE,
         items |-> <<[field |-> fB, vals |-> <<VStr("str", <<102,111,111,STAR>>, <<>>), VStr("str", <<98,97,114>>, <<>>)>>, applied |-> <<t_ren>>],
                     [field |-> fC, vals |-> <<VNull>>, applied |-> <<>>],
                     [field |-> fD, vals |-> <<VNum(<<5, 1>>)>>, applied |-> <<>>]>>,
         fields |-> <<[name |-> fB, applied |-> <<t_ren>>], [name |-> fE, applied |-> <<>>]>>,
         applied |-> <<t_st, t_ren>>, state |-> <<(<<(<<107>>), (<<118>>)>>)>>]
\* ---- recorded deviation ------------------------------------------------------------------------
\* Field-name-level "processing_item_applied" on a DETECTION ITEM's field: field mapping
\* transformations check the field conditions twice - first against the items applied to the
\* detection item (as specified), then against the pipeline's per-field-name tracking table, which
\* is only fed by the rule's field LIST (and emptied for a name once the same transformation has
\* renamed that entry).  The second check therefore sees: nothing, or - if the field list has an
\* entry of the same name that this transformation did not act on - that entry's tracking.
HasApplied(g) == \E i \in 1..Len(g.conds) : g.conds[i].t = "applied"
TrackedAfterFieldList(G, name) ==
    LET J == {j \in 1..Len(Rule.fields) : Rule.fields[j].name = name} IN
    IF J = {} THEN <<>>
    ELSE LET j == CHOOSE jj \in J : TRUE IN IF ActsOnFieldEntry(G, j, Rule) THEN <<>> ELSE Rule.fields[j].applied
MechActsOnItem(G, j) ==
    /\ ActsOnItem(G, j, Rule)
    /\ FieldGateName(G, [name |-> Rule.items[j].field, applied |-> TrackedAfterFieldList(G, Rule.items[j].field)], Rule)

Clause(o) ==
    IF ~o.ret.ok THEN (IF o.ret.sigma THEN "GateConfigurationRejected" ELSE "NonSigmaException")
    ELSE IF \E j \in 1..3 : o.ret.out.items[j] # ActsOnItem(o.G, j, Rule) THEN
        (IF HasApplied(o.G.field) /\ \A j \in 1..3 : o.ret.out.items[j] = MechActsOnItem(o.G, j)
         THEN "dev:Dev_FieldAppliedConditionSecondCheck" ELSE "GateIff:detection-item")
    ELSE IF \E j \in 1..2 : o.ret.out.fields[j] # ActsOnFieldEntry(o.G, j, Rule) THEN "GateIff:field-list"
    ELSE IF o.ret.out.rule # ActsOnRule(o.G, Rule) THEN "GateIff:rule"
    ELSE ""
IsDev(c) == c = "dev:Dev_FieldAppliedConditionSecondCheck"
Verdict(o) == LET c == Clause(o) IN [id |-> o.id, v |-> IF c = "" THEN "ok" ELSE IF IsDev(c) THEN c ELSE "violation:" \o c]
ASSUME ndJsonSerialize(IOEnv.VERIF_OUT, [i \in 1..Len(Obs) |-> Verdict(Obs[i])])
Init == x = 0
Next == UNCHANGED x
=============================================================================
