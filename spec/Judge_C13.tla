---------------------------- MODULE Judge_C13 ----------------------------
(* Mode C judge for C13: the marker transformation must have acted on exactly the detection
   items, field-list entries and rule for which the gate of spec/Gating.tla holds.          *)
EXTENDS Gating, ModSeeds, Json, IOUtils, TLC
VARIABLE x
Obs == ndJsonDeserialize(IOEnv.VERIF_OBS)
fG == <<102,105,101,108,100,71>> fH == <<102,105,101,108,100,72>>
fB == <<102,105,101,108,100,66>> fC == <<102,105,101,108,100,67>> fD == <<102,105,101,108,100,68>> fE == <<102,105,101,108,100,69>>
t_ren == <<114,101,110>> t_st == <<115,116>> t_pre == <<112,114,101>> t_only1 == <<111,110,108,121,49>> t_st0 == <<115,116,48>> t_hpre == <<104,112,114,101>> t_hsplit == <<104,115,112,108,105,116>>
\* the probe rule AFTER the two preceding items (set_state k=v, id st ; replace_string on fieldK, id pre ; fieldA -> fieldB and fieldK -> fieldK1, fieldK2, id ren ; replace_string on fieldK1 only, id only1)
Rule == [ls |-> [cat |-> <<99>>, prod |-> <<119,105,110,100,111,119,115>>, svc |-> <<>>],
         tags |-> <<(<<97,116,116,97,99,107,46,116,49,48,48,48>>)>>, corr |-> FALSE,
         items |-> <<[field |-> fB, vals |-> <<VStr("str", <<102,111,111,STAR>>, <<>>), VStr("str", <<98,97,114>>, <<>>)>>, applied |-> <<t_ren>>],
                     [field |-> fC, vals |-> <<VNull>>, applied |-> <<>>],
                     [field |-> fD, vals |-> <<VNum(<<5, 1>>)>>, applied |-> <<>>],
                     [field |-> fG, vals |-> <<VFieldRef(fH, 0, 0)>>, applied |-> <<>>],
                     \* fieldK: kv, renamed by `ren` to fieldK1 and fieldK2 (two items, both processed by ren)
                     [field |-> <<102,105,101,108,100,75,49>>, vals |-> <<VStr("str", <<107,120>>, <<>>)>>, applied |-> <<t_pre, t_ren, t_only1>>],      \* fieldK1: also processed by only1
                     [field |-> <<102,105,101,108,100,75,50>>, vals |-> <<VStr("str", <<107,119>>, <<>>)>>, applied |-> <<t_pre, t_ren>>],
                     \* Hashes: MD5=aa11, processed by hpre, then replaced by FileMD5: aa11 (the replacement stands for the item, its history included)
                     [field |-> <<70,105,108,101,77,68,53>>, vals |-> <<VStr("str", <<97,97,49,49>>, <<>>)>>, applied |-> <<t_hpre, t_hsplit>>],
                     \* fieldS|cased: Adm - a case-sensitive string value (a value like any other for the conditions on values)
                     [field |-> <<102,105,101,108,100,83>>, vals |-> <<VStr("cased", <<65,100,109>>, <<>>)>>, applied |-> <<>>]>>,
         fields |-> <<[name |-> fB, applied |-> <<t_ren>>], [name |-> fE, applied |-> <<>>]>>,
         applied |-> <<t_st, t_pre, t_ren, t_only1, t_hpre, t_hsplit, t_st0, <<115,116,110>>>>,
         state |-> <<(<<(<<107>>), SVal(<<118>>)>>), (<<(<<122>>), SVal(<<>>)>>), (<<(<<110>>), NVal(5)>>)>>,      \* k = "v", z = "", n = 5
         attrs |-> <<[name |-> <<115,101,118,101,114,105,116,121,95,115,99,111,114,101>>, kind |-> "int", n |-> 5, s |-> <<>>],
                     [name |-> <<108,101,118,101,108>>, kind |-> "level", n |-> 4, s |-> <<>>],
                     [name |-> <<97,117,116,104,111,114>>, kind |-> "str", n |-> 0, s |-> <<109,101>>]>>]
\* the rule processed by the same pipeline object AFTERWARDS: one detection item the preceding items do not touch, and a
\* field list whose only entry is - as written by the author - the name the first rule's fieldA was renamed to
Rule2 == [Rule EXCEPT !.items = <<[field |-> <<102,105,101,108,100,81>>, vals |-> <<VNum(<<1, 1>>)>>, applied |-> <<>>]>>,
                      !.fields = <<[name |-> fB, applied |-> <<>>]>>]
\* ---- recorded deviation ------------------------------------------------------------------------
\* Field-name-level "processing_item_applied" on a DETECTION ITEM's field: field mapping
\* transformations check the field conditions twice - first against the items applied to the
\* detection item (as specified), then against the pipeline's per-field-name tracking table, which
\* is only fed by the rule's field LIST (and emptied for a name once the same transformation has
\* renamed that entry).  The second check therefore sees: nothing, or - if the field list has an
\* entry of the same name that this transformation did not act on - that entry's tracking.
HasApplied(g) == \E i \in 1..Len(g.conds) : g.conds[i].t = "applied"
TrackedAfterFieldList(G, name) ==
    LET J == {j \in 1..Len(Rule.fields) : Rule.fields[j].name = name} IN
    IF J = {} THEN <<>>
    ELSE LET j == CHOOSE jj \in J : TRUE IN IF ActsOnFieldEntry(G, j, Rule) THEN <<>> ELSE Rule.fields[j].applied
\* ---- recorded deviation ------------------------------------------------------------------------
\* Detection items that carry field references are pre-filtered as a whole: every single field
\* condition is asked "do you hold for the item's field OR for any referenced field" and only then
\* are linking / negation / the expression applied.  Under a negation (flag or `not`) this differs
\* from evaluating the group on the one target name: a reference whose name makes a negated
\* condition false shields the item's own field as well (and vice versa).
RefNames(it) == {it.vals[k].s : k \in {kk \in 1..Len(it.vals) : it.vals[kk].t = "fieldref"}}
PrefilterCond(c, it, rule) ==
    IF c.t = "applied" THEN InSeq(c.s, it.applied)
    ELSE FieldCond(c, it.field, it.applied, rule) \/ \E n \in RefNames(it) : FieldCond(c, n, <<>>, rule)
Prefilter(G, it, rule) == GroupHolds(G.field, [i \in 1..Len(G.field.conds) |-> PrefilterCond(G.field.conds[i], it, rule)])
SecondCheck(G, name) == FieldGateName(G, [name |-> name, applied |-> TrackedAfterFieldList(G, name)], Rule)
\* mechanism with the ideal per-target first check (only the second check deviates) ...
MechActsOnItem(G, j) == ActsOnItem(G, j, Rule) /\ SecondCheck(G, Rule.items[j].field)
MechActsOnRef(G, j, n) == ActsOnFieldRef(G, j, n, Rule) /\ SecondCheck(G, n)
\* ... and with the whole-item pre-filter as well
PreGate(G, j) == RuleGate(G, Rule) /\ ItemGate(G, Rule.items[j], Rule) /\ Prefilter(G, Rule.items[j], Rule)
MechPActsOnItem(G, j) == PreGate(G, j) /\ SecondCheck(G, Rule.items[j].field)
MechPActsOnRef(G, j, n) == PreGate(G, j) /\ SecondCheck(G, n)

\* the rule as a post-processing item sees it: everything applied to it so far, incl. the first
\* post-processing item (absent for pp = "none")
RulePP(pp) == [Rule EXCEPT !.applied = IF pp = "none" THEN @ ELSE Append(@, <<102,105,114,115,116>>)]
\* a membership operator on an attribute that is no list: a configuration error WHEN the condition is evaluated (linking
\* may make that unnecessary) - what is demanded is that nothing but a Sigma error comes of it
BadAttrOp(G) == \E i \in 1..Len(G.rule.conds) : G.rule.conds[i].t = "attr" /\ G.rule.conds[i].s \in {"in", "not_in"}
Clause(o) ==
    IF BadAttrOp(o.G) THEN (IF ~o.ret.ok /\ ~o.ret.sigma THEN "NonSigmaException" ELSE "unspec")
    ELSE IF ~ValidGate(o.G) THEN (IF o.ret.ok THEN "UnknownLinkingWordAccepted" ELSE IF o.ret.sigma THEN "" ELSE "NonSigmaException")
    ELSE IF o.pp # "-" THEN
        (IF ~o.ret.ok THEN (IF o.ret.sigma THEN "GateConfigurationRejected" ELSE "NonSigmaException")
         ELSE IF o.ret.out.rule # ActsOnRule(o.G, RulePP(o.pp)) THEN "GateIff:post-processing" ELSE "")
    ELSE IF ~o.ret.ok THEN (IF o.ret.sigma THEN "GateConfigurationRejected" ELSE "NonSigmaException")
    ELSE IF (\E j \in 1..8 : o.ret.out.items[j] # ActsOnItem(o.G, j, Rule)) \/ o.ret.out.refs # <<ActsOnFieldRef(o.G, 4, fH, Rule)>> THEN
        (IF HasApplied(o.G.field) /\ (\A j \in 1..8 : o.ret.out.items[j] = MechActsOnItem(o.G, j))
                                 /\ o.ret.out.refs = <<MechActsOnRef(o.G, 4, fH)>>
         THEN "dev:Dev_FieldAppliedConditionSecondCheck"
         ELSE IF (\A j \in 1..8 : o.ret.out.items[j] = MechPActsOnItem(o.G, j)) /\ o.ret.out.refs = <<MechPActsOnRef(o.G, 4, fH)>>
         THEN "dev:Dev_FieldGroupPrefilterOverReferences"
         ELSE IF \E j \in 1..8 : o.ret.out.items[j] # ActsOnItem(o.G, j, Rule) THEN "GateIff:detection-item"
         ELSE "GateIff:field-reference")
    ELSE IF \E j \in 1..2 : o.ret.out.fields[j] # ActsOnFieldEntry(o.G, j, Rule) THEN "GateIff:field-list"
    ELSE IF o.ret.out.rule # ActsOnRule(o.G, Rule) THEN "GateIff:rule"
    \* the second rule: judged like the first, from ITS state (nothing of the first rule's processing is part of it)
    ELSE IF o.ret.out.second.rule # ActsOnRule(o.G, Rule2) THEN "GateIff:second-rule:rule"
    ELSE IF o.ret.out.second.items # <<ActsOnItem(o.G, 1, Rule2)>> THEN "GateIff:second-rule:detection-item"
    ELSE IF o.ret.out.second.fields # <<ActsOnFieldEntry(o.G, 1, Rule2)>> THEN "GateIff:second-rule:field-list"
    ELSE ""
IsDev(c) == c \in {"dev:Dev_FieldAppliedConditionSecondCheck", "dev:Dev_FieldGroupPrefilterOverReferences"}
Verdict(o) == LET c == Clause(o) IN [id |-> o.id, v |-> IF c = "" THEN "ok" ELSE IF c = "unspec" THEN "unspec" ELSE IF IsDev(c) THEN c ELSE "violation:" \o c]
ASSUME ndJsonSerialize(IOEnv.VERIF_OUT, [i \in 1..Len(Obs) |-> Verdict(Obs[i])])
Init == x = 0
Next == UNCHANGED x
=============================================================================
