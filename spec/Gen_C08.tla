----------------------------- MODULE Gen_C08 -----------------------------
(* Mode B generator for C08: every sequence of rule kinds up to the bound x collect on/off x distinct / identical documents per kind
   x (no correlation rule | a non-generating | a generating correlation rule over rule 1 at the end).   *)
EXTENDS Conversion, Json, IOUtils, TLC
VARIABLE x
Quick == IOEnv.VERIF_TIER = "quick"
MaxRules == IF Quick THEN 3 ELSE 4
\* dup: rules of the same kind are the SAME document (equal titles, names, detections) - distinct
\* rule objects that compare equal and fail with equal errors must still be accounted one by one
Repeats(k) == \E i, j \in DOMAIN k : i < j /\ k[i] = k[j]
\* noteq: the backend renders negation with not-equals expressions of its own (the class templates are swapped inside a NOT)
NeqKinds == {"ok1", "ok2", "okneg", "failNPH", "failPH", "failU"}
NeqCases == {[kinds |-> k, collect |-> c, corr |-> "none", dup |-> FALSE, noteq |-> TRUE] :
               k \in UNION {[1..n -> NeqKinds] : n \in 1..3}, c \in BOOLEAN}
Cases == {[kinds |-> k, collect |-> c, corr |-> co, dup |-> FALSE] :
            k \in UNION {[1..n -> Kinds] : n \in 1..MaxRules}, c \in BOOLEAN, co \in {"none", "nogen", "gen"}}
         \cup {[kinds |-> k, collect |-> c, corr |-> "none", dup |-> TRUE] :
            k \in {kk \in UNION {[1..n -> Kinds] : n \in 2..MaxRules} : Repeats(kk)}, c \in BOOLEAN}
\* okdrop: a rule all of whose detection items the pipeline drops - it is still a rule of the collection: a query per
\* condition, or an error record
DropCases == {[kinds |-> k, collect |-> c, corr |-> "none", dup |-> FALSE] :
               k \in UNION {[1..n -> {"ok1", "okdrop", "failP"}] : n \in 1..3}, c \in BOOLEAN}
\* failM after rules whose field WAS mapped: what the mapping of one rule leaves in the pipeline's tracking is not the next rule's
StrictCases == {[kinds |-> k, collect |-> c, corr |-> "none", dup |-> FALSE] :
                 k \in UNION {[1..n -> {"ok1", "failM", "okstate"}] : n \in 1..3}, c \in BOOLEAN}
ASSUME LET S == SetToSeq({c @@ [noteq |-> FALSE] : c \in Cases \cup DropCases \cup StrictCases} \cup NeqCases) IN ndJsonSerialize(IOEnv.VERIF_OUT, [i \in 1..Len(S) |-> [id |-> i] @@ S[i]])
Init == x = 0
Next == UNCHANGED x
=============================================================================
