----------------------------- MODULE Gen_C08 -----------------------------
(* Mode B generator for C08: every sequence of rule kinds up to the bound x collect on/off
   x (no correlation rule | a non-generating | a generating correlation rule over rule 1 at the end).   *)
EXTENDS Conversion, Json, IOUtils, TLC
VARIABLE x
Quick == IOEnv.VERIF_TIER = "quick"
MaxRules == IF Quick THEN 3 ELSE 4
Cases == {[kinds |-> k, collect |-> c, corr |-> co] :
            k \in UNION {[1..n -> Kinds] : n \in 1..MaxRules}, c \in BOOLEAN, co \in {"none", "nogen", "gen"}}
ASSUME LET S == SetToSeq(Cases) IN ndJsonSerialize(IOEnv.VERIF_OUT, [i \in 1..Len(S) |-> [id |-> i] @@ S[i]])
Init == x = 0
Next == UNCHANGED x
=============================================================================
