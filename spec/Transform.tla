------------------------------ MODULE Transform ------------------------------
(***************************************************************************)
(* Built-in pipeline transformations as SOURCE-LEVEL REWRITES (C12).       *)
(*                                                                         *)
(* A transformation is a record                                            *)
(*   [type, m, s1, s2, flag, scope |-> [mode, names], sub]                      *)
(* (uniform shape; which fields matter depends on the type):               *)
(*  "fmap"      m = Seq(<<from, Seq(to)>>)   field renaming: one target =  *)
(*              rename, several = OR over the targets; from = <<>> maps    *)
(*              keywords to fields with substring ("contains") semantics;  *)
(*              field references in values are renamed alike               *)
(*  "fprefix" / "fsuffix"   s1 = text put before / after every field name   *)
(*  "fprefixmap" m = Seq(<<prefix, Seq(new prefix)>>)                      *)
(*  "drop"      the detection items in scope are removed                   *)
(*  "addcond"   s1 = field, s2 = value text, flag = negated: every condition *)
(*              becomes [NOT] (s1 = s2) AND (condition)                      *)
(*  "replace"   s1 = literal to find, s2 = literal to put (string values)    *)
(*  "mapstr"    m = Seq(<<from text, Seq(to text)>>) exact value mapping,  *)
(*              several targets are alternatives (OR)                      *)
(*  "case"      flag = TRUE upper / FALSE lower                            *)
(*  "setvalue"  s2 = new string value for every value in scope             *)
(*  "convtype"  flag = TRUE: strings become numbers (a string that is no    *)
(*              numeral: the conversion fails), FALSE: numbers become the   *)
(*              strings of their decimal numerals; other values stay        *)
(*  "hashes"    hash-field splitting: m = Seq(<<algorithm name, <<>>>>) of   *)
(*              the valid algorithms, s1 = field prefix, flag = leave the   *)
(*              algorithm name out of the field name; an item on the field  *)
(*              Hashes / Hash whose values read ALGO=value becomes one      *)
(*              predicate <prefix><ALGO> = value per value, linked and      *)
(*              negated like the values of the item were                    *)
(*  "nest"      sub = the transformations of a nested pipeline             *)
(* scope: "all" | "include" names | "exclude" names  (field name conditions)*)
(*                                                                         *)
(* The rewrite is computed per detection item on a working record          *)
(*   [alts |-> Seq([name, vts])] : the field alternatives the item has     *)
(*   become, each with the value-level transformations that apply to it    *)
(* and ends in a QExpr: OR over the alternatives of the item's meaning     *)
(* with that field and those value rewrites.                               *)
(***************************************************************************)
EXTENDS Detection

InScope(sc, name) ==
    CASE sc.mode = "include" -> \E j \in 1..Len(sc.names) : sc.names[j] = name
      [] sc.mode = "exclude" -> ~\E j \in 1..Len(sc.names) : sc.names[j] = name
      [] OTHER -> TRUE
MapLookup(m, key) == LET J == {j \in 1..Len(m) : m[j][1] = key} IN
                     IF J = {} THEN [found |-> FALSE, to |-> <<>>] ELSE [found |-> TRUE, to |-> m[CHOOSE j \in J : TRUE][2]]
\* longest-prefix mapping is not specified; the generator uses non-overlapping prefixes
PrefixLookup(m, name) == LET J == {j \in 1..Len(m) : HasPrefix(name, m[j][1])} IN
                         IF J = {} THEN [found |-> FALSE, pre |-> <<>>, to |-> <<>>]
                         ELSE LET j == CHOOSE jj \in J : TRUE IN [found |-> TRUE, pre |-> m[j][1], to |-> m[j][2]]

\* new names of a field under a field-level transformation (<<name>> if untouched)
FieldTargets(T, name) ==
    IF ~InScope(T.scope, name) THEN <<name>>
    ELSE CASE T.type = "fmap" -> (LET l == MapLookup(T.m, name) IN IF l.found THEN l.to ELSE <<name>>)
           [] T.type = "fprefix" -> (IF name = <<>> THEN <<name>> ELSE <<T.s1 \o name>>)
           [] T.type = "fsuffix" -> (IF name = <<>> THEN <<name>> ELSE <<name \o T.s1>>)
           [] T.type = "fprefixmap" ->
                (LET l == PrefixLookup(T.m, name) IN
                 IF l.found THEN [k \in 1..Len(l.to) |-> l.to[k] \o Drop(name, Len(l.pre))] ELSE <<name>>)
           [] OTHER -> <<name>>
IsFieldLevel(T) == T.type \in {"fmap", "fprefix", "fsuffix", "fprefixmap"}
IsValueLevel(T) == T.type \in {"replace", "mapstr", "case", "setvalue", "convtype"}

\* ---- value-level rewrites -------------------------------------------------------------
\* replace every occurrence of the literal run `from` by `to` inside the literal runs of parts
RECURSIVE ReplaceIn(_, _, _)
ReplaceIn(p, from, to) ==
    IF p = <<>> \/ from = <<>> THEN p
    ELSE IF HasPrefix(p, from) THEN to \o ReplaceIn(Drop(p, Len(from)), from, to)
    ELSE <<p[1]>> \o ReplaceIn(Tail(p), from, to)
UpperC(c) == IF IsLower(c) THEN c - 32 ELSE c
\* decimal numerals
RECURSIVE DecDigits(_)
DecDigits(n) == IF n < 10 THEN <<48 + n>> ELSE DecDigits(n \div 10) \o <<48 + (n % 10)>>
IntText(n) == IF n < 0 THEN <<45>> \o DecDigits(0 - n) ELSE DecDigits(n)
RECURSIVE DecValue(_, _)
DecValue(t, acc) == IF t = <<>> THEN acc ELSE DecValue(Tail(t), acc * 10 + (t[1] - 48))
IsNumeral(t) == LET d == IF t # <<>> /\ t[1] = 45 THEN Tail(t) ELSE t IN
                d # <<>> /\ Len(d) <= 9 /\ \A i \in 1..Len(d) : d[i] >= 48 /\ d[i] <= 57
NumeralValue(t) == IF t[1] = 45 THEN 0 - DecValue(Tail(t), 0) ELSE DecValue(t, 0)
\* texts Python's int()/float() may or may not read as a number (signs, fractions, exponents, blanks, underscores,
\* "inf"/"nan" spellings): what the conversion makes of them is not documented
LooseNumberChars == {43, 45, 46, 95, 32, 9} \cup (48..57) \cup {101, 69, 105, 110, 102, 116, 121, 97, 73, 78, 70, 84, 89, 65}
ValueRw(T, v) ==      \* [st, vals]
    LET ok(vs) == [st |-> "ok", vals |-> vs] IN
    CASE T.type = "replace" ->
           (IF v.t \in {"str", "cased"} THEN ok(<<[v EXCEPT !.parts = ReplaceIn(@, T.s1, T.s2)]>>)
            ELSE IF v.t = "num" THEN [st |-> "unspec", vals |-> <<>>]      \* documented for strings
            ELSE ok(<<v>>))
      [] T.type = "mapstr" ->
           (IF v.t \in {"str", "cased"} /\ ~HasPH(v) THEN
                LET l == MapLookup(T.m, RefPlain(v.parts)) IN
                IF l.found THEN ok([k \in 1..Len(l.to) |-> VStr("str", ParseStr(l.to[k]), <<>>)]) ELSE ok(<<v>>)
            ELSE ok(<<v>>))
      [] T.type = "case" ->
           (IF v.t \in {"str", "cased"}
            THEN ok(<<[v EXCEPT !.parts = [k \in 1..Len(@) |-> IF @[k] < 0 THEN @[k] ELSE IF T.flag THEN UpperC(@[k]) ELSE Lower(@[k])]]>>)
            ELSE ok(<<v>>))
      [] T.type = "convtype" ->
           (IF T.flag THEN      \* to number
                (IF v.t \notin {"str", "cased"} THEN ok(<<v>>)
                 ELSE IF HasPH(v) THEN [st |-> "unspec", vals |-> <<>>]
                 ELSE IF HasWild(v) THEN [st |-> "fail", vals |-> <<>>]
                 ELSE IF IsNumeral(v.parts) THEN ok(<<VNum(<<NumeralValue(v.parts), 1>>)>>)
                 ELSE IF \A i \in 1..Len(v.parts) : v.parts[i] \in LooseNumberChars THEN [st |-> "unspec", vals |-> <<>>]
                 ELSE [st |-> "fail", vals |-> <<>>])
            ELSE                \* to string
                (IF v.t # "num" THEN ok(<<v>>)
                 ELSE IF v.num[2] # 1 THEN [st |-> "unspec", vals |-> <<>>]      \* how a fraction is written is not documented
                 ELSE ok(<<VStr("str", IntText(v.num[1]), <<>>)>>)))
      [] T.type = "setvalue" -> (IF v.t = "exp" THEN [st |-> "unspec", vals |-> <<>>] ELSE ok(<<VStr("str", ParseStr(T.s2), <<>>)>>))
      [] OTHER -> ok(<<v>>)
\* field references are renamed like fields
FieldRefRw(T, v) ==
    IF v.t = "fieldref" /\ IsFieldLevel(T)
    THEN LET ts == FieldTargets(T, v.s) IN [st |-> "ok", vals |-> [k \in 1..Len(ts) |-> [v EXCEPT !.s = ts[k]]]]
    ELSE [st |-> "ok", vals |-> <<v>>]

RECURSIVE ApplyVts(_, _, _)
ApplyVts(vts, vs, k) ==       \* apply the value-level transformations vts[k..] to the values vs
    IF k > Len(vts) THEN [st |-> "ok", vals |-> vs]
    ELSE LET rs == [j \in 1..Len(vs) |->
                      \* the alternatives a modifier made of one value (windash, base64offset) are values like any other:
                      \* a value-level transformation rewrites each of them (several results of one alternative are alternatives)
                      IF vs[j].t = "exp" /\ IsValueLevel(vts[k]) /\ vts[k].type # "setvalue" THEN
                          (LET ms == [m \in 1..Len(vs[j].vals) |-> ValueRw(vts[k], vs[j].vals[m])]
                               mst == Worst([m \in 1..Len(ms) |-> ms[m].st])
                           IN  IF mst # "ok" THEN [st |-> mst, vals |-> <<>>]
                               ELSE [st |-> "ok", vals |-> <<[vs[j] EXCEPT !.vals = Concat([m \in 1..Len(ms) |-> ms[m].vals])]>>])
                      ELSE IF vs[j].t = "exp" /\ vts[k].type # "setvalue" THEN [st |-> "ok", vals |-> <<vs[j]>>]     \* (no field references inside)
                      ELSE IF IsFieldLevel(vts[k]) THEN FieldRefRw(vts[k], vs[j]) ELSE ValueRw(vts[k], vs[j])]
             st == Worst([j \in 1..Len(rs) |-> rs[j].st])
         IN  IF st # "ok" THEN [st |-> st, vals |-> <<>>]
             ELSE ApplyVts(vts, Concat([j \in 1..Len(rs) |-> rs[j].vals]), k + 1)

\* ---- one detection item through a sequence of transformations ------------------------------
\* flatten nested pipelines
RECURSIVE Flatten(_)
Flatten(Ts) == Concat([k \in 1..Len(Ts) |-> IF Ts[k].type = "nest" THEN Flatten(Ts[k].sub) ELSE <<Ts[k]>>])

RECURSIVE Work(_, _, _)
Work(w, Ts, k) ==     \* w == [alts |-> Seq([name, vts, wrap]), dropped]
    IF k > Len(Ts) \/ w.dropped THEN w
    ELSE LET T == Ts[k] IN
         IF T.type = "drop" THEN
             Work([w EXCEPT !.dropped = \E j \in 1..Len(w.alts) : InScope(T.scope, w.alts[j].name)], Ts, k + 1)
         ELSE IF IsFieldLevel(T) THEN
             Work([w EXCEPT !.alts = Concat([j \in 1..Len(w.alts) |->
                        LET ts == FieldTargets(T, w.alts[j].name) IN
                        [m \in 1..Len(ts) |-> [name |-> ts[m],
                                               \* the transformation also renames field references in the values
                                               vts |-> Append(w.alts[j].vts, T),
                                               wrap |-> w.alts[j].wrap \/ (w.alts[j].name = <<>> /\ ts[m] # <<>>)]]])],
                  Ts, k + 1)
         ELSE IF IsValueLevel(T) THEN
             Work([w EXCEPT !.alts = [j \in 1..Len(w.alts) |->
                        IF InScope(T.scope, w.alts[j].name) THEN [w.alts[j] EXCEPT !.vts = Append(@, T)] ELSE w.alts[j]]],
                  Ts, k + 1)
         ELSE Work(w, Ts, k + 1)

\* keyword mapped to a field keeps its "somewhere in the event" meaning: substring match
\* (every alternative of an expansion value alike; what "somewhere in the event" means for a number is not said)
RECURSIVE WrapKw(_)
WrapKw(v) == IF v.t \in {"str", "cased"} THEN [v EXCEPT !.parts = AddEnd(AddStart(@))]
             ELSE IF v.t = "exp" THEN [v EXCEPT !.vals = [k \in 1..Len(@) |-> WrapKw(@[k])]] ELSE v

\* ---- hash-field splitting ----------------------------------------------------------------
F_Hashes == <<72,97,115,104,101,115>>  F_Hash == <<72,97,115,104>>
UpperT(t) == [k \in 1..Len(t) |-> UpperC(t[k])]
\* a value "ALGO=hash" (a leading / trailing wildcard of contains etc. is not part of either):
\* [ok, algo (upper case), hash] ; anything else is not covered by the documentation
HashParse(v) ==
    LET p0 == IF v.parts # <<>> /\ v.parts[1] = STAR THEN Tail(v.parts) ELSE v.parts
        p == IF p0 # <<>> /\ p0[Len(p0)] = STAR THEN SubSeq(p0, 1, Len(p0) - 1) ELSE p0
        E == {i \in 1..Len(p) : p[i] = 61}
    IN  IF v.t # "str" \/ v.phs # <<>> \/ Cardinality(E) # 1 \/ (\E i \in 1..Len(p) : p[i] < 0 \/ p[i] \in {CH_BSL, 124, CH_STAR, CH_QM})
        THEN [ok |-> FALSE, algo |-> <<>>, hash |-> <<>>]
        ELSE LET e == CHOOSE i \in E : TRUE IN
             [ok |-> e > 1 /\ e < Len(p), algo |-> UpperT(SubSeq(p, 1, e - 1)), hash |-> SubSeq(p, e + 1, Len(p))]
RECURSIVE XItemQE(_, _, _)
HashRewrite(item, T, rest, nativeCidr) ==
    LET r == Apply(item.vals, item.chain, TRUE)
        hs == [k \in 1..Len(r.vals) |-> HashParse(r.vals[k])]
        valid(h) == h.ok /\ \E j \in 1..Len(T.m) : T.m[j][1] = h.algo
        sub(h) == XItemQE([field |-> T.s1 \o (IF T.flag THEN <<>> ELSE h.algo), chain |-> <<>>,
                           vals |-> <<[t |-> "s", s |-> h.hash, num |-> <<0, 1>>, b |-> FALSE]>>, single |-> TRUE], rest, nativeCidr)
    IN  IF r.status = "reject" THEN [st |-> "fail", e |-> QTrue]
        ELSE IF r.status # "ok" \/ r.vals = <<>> \/ (\E k \in 1..Len(hs) : ~valid(hs[k])) THEN [st |-> "unspec", e |-> QTrue]
        ELSE LET rs == [k \in 1..Len(hs) |-> sub(hs[k])]
                 args == [k \in 1..Len(rs) |-> rs[k].e]
                 linked == IF Len(args) = 1 THEN args[1] ELSE IF r.linking = "and" THEN QAnd(args) ELSE QOr(args)
             IN  [st |-> Worst([k \in 1..Len(rs) |-> IF rs[k].st = "dropped" THEN "unspec" ELSE rs[k].st]),
                  e |-> IF r.negated THEN QNot(linked) ELSE linked]

XItemQE(item, Ts, nativeCidr) ==      \* [st |-> ok|fail|unspec|dropped, e]
    LET F == Flatten(Ts)
        hashAt == {k \in 1..Len(F) : F[k].type = "hashes"}
    IN
    IF hashAt # {} /\ item.field \in {F_Hashes, F_Hash} THEN
        \* specified for the splitting as FIRST step (what follows acts on the new items)
        (IF 1 \in hashAt /\ InScope(F[1].scope, item.field) THEN HashRewrite(item, F[1], Tail(F), nativeCidr)
         ELSE [st |-> "unspec", e |-> QTrue])
    ELSE
    LET w == Work([alts |-> <<[name |-> item.field, vts |-> <<>>, wrap |-> FALSE]>>, dropped |-> FALSE], F, 1)
    IN  IF w.dropped THEN [st |-> "dropped", e |-> QTrue]
        ELSE LET rs == [j \in 1..Len(w.alts) |->
                          ItemQEx([item EXCEPT !.field = w.alts[j].name], nativeCidr,
                                  LAMBDA f, v : ApplyVts(w.alts[j].vts, <<IF w.alts[j].wrap THEN WrapKw(v) ELSE v>>, 1))]
                 \* one field mapped onto several: "the field, under whichever of these names" - the item written for the field
                 \* holds if it holds under one of the names; a NEGATED item (neq) says that it holds under none of them
                 negated == LET r == Apply(item.vals, item.chain, TRUE) IN r.status = "ok" /\ r.negated
             IN  [st |-> Worst([j \in 1..Len(rs) |-> rs[j].st]),
                  e |-> IF Len(rs) = 1 THEN rs[1].e
                        ELSE IF negated THEN QAnd([j \in 1..Len(rs) |-> rs[j].e]) ELSE QOr([j \in 1..Len(rs) |-> rs[j].e])]

XMapQE(items, Ts, nativeCidr) ==
    LET rs == [k \in 1..Len(items) |-> XItemQE(items[k], Ts, nativeCidr)]
        kept == SelectSeq(rs, LAMBDA r : r.st # "dropped")
    IN  IF kept = <<>> THEN [st |-> "unspec", e |-> QTrue]         \* a detection that lost all its items
        ELSE [st |-> Worst([k \in 1..Len(kept) |-> kept[k].st]),
              e |-> IF Len(kept) = 1 THEN kept[1].e ELSE QAnd([k \in 1..Len(kept) |-> kept[k].e])]
XBodyQE(body, Ts, nativeCidr) ==
    CASE body.kind = "map" -> XMapQE(body.items, Ts, nativeCidr)
      [] body.kind = "maps" ->
           (LET rs == [k \in 1..Len(body.maps) |-> XMapQE(body.maps[k], Ts, nativeCidr)] IN
            [st |-> Worst([k \in 1..Len(rs) |-> rs[k].st]),
             e |-> IF Len(rs) = 1 THEN rs[1].e ELSE QOr([k \in 1..Len(rs) |-> rs[k].e])])
      [] OTHER -> XItemQE([field |-> <<>>, chain |-> <<>>, vals |-> body.vals, single |-> FALSE], Ts, nativeCidr)

\* added conditions, innermost first
AddConds(Ts) == SelectSeq(Flatten(Ts), LAMBDA T : T.type = "addcond")
XRuleDen(doc, c, Ts, nativeCidr) ==
    LET names == [k \in 1..Len(doc.dets) |-> doc.dets[k].name]
        d == Den(doc.conds[c], names)
        bs == [k \in 1..Len(doc.dets) |-> XBodyQE(doc.dets[k].body, Ts, nativeCidr)]
        used == IF d.st = "ok" THEN AtomsOf(d.e) ELSE {}
        base == Subst(d.e, [k \in 1..Len(bs) |-> bs[k].e])
        acs == AddConds(Ts)
        \* the transformations that follow an added condition act on it as on any other item
        ac(k) == LET pos == CHOOSE p \in 1..Len(Flatten(Ts)) : Flatten(Ts)[p] = acs[k] /\
                                 Cardinality({q \in 1..p : Flatten(Ts)[q].type = "addcond"}) = k
                     it == [field |-> acs[k].s1, chain |-> <<>>, vals |-> <<[t |-> "s", s |-> acs[k].s2, num |-> <<0, 1>>, b |-> FALSE]>>, single |-> TRUE]
                     r == XItemQE(it, SubSeq(Flatten(Ts), pos + 1, Len(Flatten(Ts))), nativeCidr)
                 IN  [st |-> r.st, e |-> IF acs[k].flag THEN QNot(r.e) ELSE r.e]
        RECURSIVE Wrap(_, _)
        Wrap(e, k) == IF k > Len(acs) THEN e ELSE Wrap(QAnd(<<ac(k).e, e>>), k + 1)
    IN  IF d.st # "ok" THEN [st |-> IF d.st = "unspec" THEN "unspec" ELSE "fail", e |-> QTrue]
        ELSE [st |-> Worst([k \in 1..Len(bs) |-> IF k \in used THEN bs[k].st ELSE IF bs[k].st = "fail" THEN "fail" ELSE "ok"]
                           \o [k \in 1..Len(acs) |-> ac(k).st]),
              e |-> Wrap(base, 1)]
=============================================================================
