----------------------------- MODULE SigmaStr -----------------------------
(***************************************************************************)
(* Sigma string values.                                                    *)
(*                                                                         *)
(* A value in rule source is text in which `*` and `?` are wildcards and   *)
(* backslash escapes exactly `*`, `?` and backslash; before any other      *)
(* character (and at the end) a backslash is an ordinary character.        *)
(* The abstract value is a sequence of PARTS: code point (literal char),   *)
(* STAR or QM (module Text).                                               *)
(*                                                                         *)
(* Contents: the source parser as a fold of a per-character state machine, *)
(* the required plain form, target-language literal configurations K with  *)
(* the target's own DECODER, the required renderer, slicing.               *)
(***************************************************************************)
EXTENDS Text

BAD == 0 - 9          \* decoder output for a stray metacharacter

\* ---- source parser (state machine over characters) ----------------------
PInitS == [acc |-> <<>>, esc |-> FALSE]
PStepS(st, c) ==
    IF st.esc THEN
        IF c \in {CH_STAR, CH_QM, CH_BSL}
        THEN [acc |-> Append(st.acc, c), esc |-> FALSE]
        ELSE [acc |-> st.acc \o <<CH_BSL, c>>, esc |-> FALSE]
    ELSE IF c = CH_BSL THEN [st EXCEPT !.esc = TRUE]
    ELSE IF c = CH_STAR THEN [st EXCEPT !.acc = Append(@, STAR)]
    ELSE IF c = CH_QM THEN [st EXCEPT !.acc = Append(@, QM)]
    ELSE [st EXCEPT !.acc = Append(@, c)]
PFinS(st) == IF st.esc THEN Append(st.acc, CH_BSL) ELSE st.acc

ParseStr(s) == PFinS(FoldLeft(PStepS, PInitS, s))

\* ---- required plain (source) form ---------------------------------------
\* Any text that parses back to the same parts is acceptable; this is one such text,
\* used to show (MC_SigmaStr) that a faithful plain form exists for every value.
NeedsGuard(x) == x \in {STAR, QM, CH_BSL, CH_STAR, CH_QM}
RefPlain(p) ==
    Concat([i \in 1..Len(p) |->
        CASE p[i] = STAR -> <<CH_STAR>>
          [] p[i] = QM -> <<CH_QM>>
          [] p[i] = CH_STAR -> <<CH_BSL, CH_STAR>>
          [] p[i] = CH_QM -> <<CH_BSL, CH_QM>>
          [] p[i] = CH_BSL -> (IF i < Len(p) /\ NeedsGuard(p[i + 1]) THEN <<CH_BSL, CH_BSL>> ELSE <<CH_BSL>>)
          [] OTHER -> <<p[i]>>])

\* ---- target literal configurations --------------------------------------
\* K == [esc: code point or -1, wm: token (<<>> = unsupported), ws: token, add: set of extra
\*       escaped chars, filt: set of removed chars, quote: code point or -1, cq: quote only values with a blank]
NONE == 0 - 1
TokChars(K) == {K.wm[i] : i \in 1..Len(K.wm)} \cup {K.ws[i] : i \in 1..Len(K.ws)}
Meta(K) == TokChars(K) \cup K.add \cup (IF K.quote = NONE THEN {} ELSE {K.quote})

\* the target language's own reading of a literal body
RECURSIVE DecodeFrom(_, _, _)
DecodeFrom(K, t, i) ==
    IF i > Len(t) THEN <<>>
    ELSE IF K.esc # NONE /\ t[i] = K.esc THEN
        (IF i = Len(t) THEN <<BAD>> ELSE <<t[i + 1]>> \o DecodeFrom(K, t, i + 2))
    ELSE IF K.wm # <<>> /\ StartsWithAt(t, i, K.wm) THEN <<STAR>> \o DecodeFrom(K, t, i + Len(K.wm))
    ELSE IF K.ws # <<>> /\ StartsWithAt(t, i, K.ws) THEN <<QM>> \o DecodeFrom(K, t, i + Len(K.ws))
    ELSE IF t[i] \in Meta(K) THEN <<BAD>> \o DecodeFrom(K, t, i + 1)
    ELSE <<t[i]>> \o DecodeFrom(K, t, i + 1)
DecodeBody(K, t) == DecodeFrom(K, t, 1)

\* a complete literal: quoted (quote body quote) or bare.  Under conditional quoting (K.cq: only values with a blank
\* are quoted) a bare word ends at a blank, so a blank inside a bare literal is not part of it.
\* white space (what the configuration's pattern \s stands for)
IsBlankChar(c) == c \in {9, 10, 11, 12, 13, 28, 29, 30, 31, 32, 133, 160, 5760, 8232, 8233, 8239, 8287, 12288} \/ (c >= 8192 /\ c <= 8202)
QuotedForm(K, t) == K.quote # NONE /\ Len(t) >= 2 /\ t[1] = K.quote /\ t[Len(t)] = K.quote
DecodeLiteral(K, t) ==
    IF QuotedForm(K, t) THEN DecodeBody(K, Slice(t, 2, Len(t) - 1))
    ELSE IF K.cq /\ (\E i \in 1..Len(t) : IsBlankChar(t[i])) THEN <<BAD>>
    ELSE DecodeBody(K, t)
HasBlank(p) == \E i \in 1..Len(p) : IsBlankChar(p[i])
\* is the literal of value p to be quoted under K?
MustQuote(K, p) == K.quote # NONE /\ (~K.cq \/ HasBlank(p))

FilterParts(K, p) == SelectSeq(p, LAMBDA x : x \notin K.filt)
Supported(K, p) == /\ (K.wm = <<>> => \A i \in 1..Len(p) : p[i] # STAR)
                   /\ (K.ws = <<>> => \A i \in 1..Len(p) : p[i] # QM)

\* the required renderer (one witness that K is decodable; MC_SigmaStr)
RefRender(K, p) ==
    Concat([i \in 1..Len(p) |->
        CASE p[i] = STAR -> K.wm
          [] p[i] = QM -> K.ws
          [] p[i] \in K.filt -> <<>>
          [] p[i] \in Meta(K) \/ p[i] = K.esc -> <<K.esc, p[i]>>
          [] OTHER -> <<p[i]>>])

\* K is well-formed iff everything that has a meaning in the target can be escaped
WellFormed(K) == K.esc # NONE /\ K.esc \in K.add

\* ---- slicing (units: one per literal char or wildcard) ------------------
SliceParts(p, a, b) == Slice(p, a, b)

\* ---- field names --------------------------------------------------------
\* FK == [quote: cp or -1, esc: cp or -1, escset: chars the configuration escapes, safe(_)]
RECURSIVE UnescFrom(_, _, _)
UnescFrom(FK, t, i) ==
    IF i > Len(t) THEN <<>>
    ELSE IF FK.esc # NONE /\ t[i] = FK.esc THEN
        (IF i = Len(t) THEN <<BAD>> ELSE <<t[i + 1]>> \o UnescFrom(FK, t, i + 2))
    ELSE IF FK.quote # NONE /\ t[i] = FK.quote THEN <<BAD>> \o UnescFrom(FK, t, i + 1)
    ELSE <<t[i]>> \o UnescFrom(FK, t, i + 1)
DecodeField(FK, t) ==
    IF FK.quote # NONE /\ Len(t) >= 2 /\ t[1] = FK.quote /\ t[Len(t)] = FK.quote
    THEN [quoted |-> TRUE, name |-> UnescFrom(FK, Slice(t, 2, Len(t) - 1), 1)]
    ELSE [quoted |-> FALSE, name |-> UnescFrom(FK, t, 1)]
=============================================================================
