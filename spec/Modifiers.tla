----------------------------- MODULE Modifiers -----------------------------
(***************************************************************************)
(* Sigma value modifiers as a CHAIN MACHINE.                               *)
(*                                                                         *)
(* State of a detection item while its modifier chain is applied:          *)
(*   vals     sequence of values (records, see V below)                    *)
(*   linking  "or" | "and"          negated  BOOLEAN                       *)
(*   applied  modifiers applied so far                                     *)
(*   status   "ok" | "reject" (a Sigma error is required)                  *)
(*            | "unspec" (the specification leaves the outcome open)       *)
(* One action per modifier: MStep(st, m).  Value modifiers act on every    *)
(* value (inside expansions on every member), list modifiers on the item.  *)
(***************************************************************************)
EXTENDS SigmaStr, Encoding, Cidr

\* ---- values (same record shape as harness/serial.py) --------------------
V(t) == [t |-> t, parts |-> <<>>, num |-> <<0, 1>>, b |-> FALSE, s |-> <<>>, vals |-> <<>>, flags |-> <<>>, phs |-> <<>>]
VStr(t, parts, phs) == [V(t) EXCEPT !.parts = parts, !.phs = phs]        \* t \in {"str","cased"}
VNum(n) == [V("num") EXCEPT !.num = n]
VBigNum(digits) == [V("bignum") EXCEPT !.s = digits]
VCmpBig(op, digits) == [V("cmp") EXCEPT !.s = op, !.parts = digits]
VBool(b) == [V("bool") EXCEPT !.b = b]
VNull == V("null")
VRe(text, flags, phs) == [V("re") EXCEPT !.s = text, !.flags = flags, !.phs = phs]
VCidr(text) == [V("cidr") EXCEPT !.s = text]
VCmp(op, n) == [V("cmp") EXCEPT !.s = op, !.num = n]
VCmpTs(op, unit, n) == [V("cmp") EXCEPT !.s = op, !.num = n, !.flags = unit]      \* a part of a timestamp compared with a number
VTs(unit, n) == [V("tspart") EXCEPT !.s = unit, !.num = n]
VFieldRef(f, sw, ew) == [V("fieldref") EXCEPT !.s = f, !.flags = <<sw, ew>>]
VExists(b) == [V("exists") EXCEPT !.b = b]
VExp(vals) == [V("exp") EXCEPT !.vals = vals]
PH == 0 - 3           \* a placeholder inside parts; its name is the next entry of phs

IsStrLike(v) == v.t \in {"str", "cased"}
HasWild(v) == \E i \in 1..Len(v.parts) : IsWild(v.parts[i])
HasPH(v) == \E i \in 1..Len(v.parts) : v.parts[i] = PH

\* ---- modifier names (code points, as they appear after '|') --------------
N_all == <<97,108,108>>                 N_neq == <<110,101,113>>
N_base64 == <<98,97,115,101,54,52>>     N_base64offset == <<98,97,115,101,54,52,111,102,102,115,101,116>>
N_cased == <<99,97,115,101,100>>        N_cidr == <<99,105,100,114>>
N_contains == <<99,111,110,116,97,105,110,115>>
N_startswith == <<115,116,97,114,116,115,119,105,116,104>>
N_endswith == <<101,110,100,115,119,105,116,104>>
N_exists == <<101,120,105,115,116,115>> N_expand == <<101,120,112,97,110,100>>
N_fieldref == <<102,105,101,108,100,114,101,102>>
N_gt == <<103,116>> N_gte == <<103,116,101>> N_lt == <<108,116>> N_lte == <<108,116,101>>
N_i == <<105>> N_ignorecase == <<105,103,110,111,114,101,99,97,115,101>>
N_m == <<109>> N_multiline == <<109,117,108,116,105,108,105,110,101>>
N_s == <<115>> N_dotall == <<100,111,116,97,108,108>>
N_re == <<114,101>>
N_utf16 == <<117,116,102,49,54>> N_utf16be == <<117,116,102,49,54,98,101>> N_wide == <<119,105,100,101>>
N_windash == <<119,105,110,100,97,115,104>>
N_minute == <<109,105,110,117,116,101>> N_hour == <<104,111,117,114>> N_day == <<100,97,121>>
N_week == <<119,101,101,107>> N_month == <<109,111,110,116,104>> N_year == <<121,101,97,114>>
TsUnits == {N_minute, N_hour, N_day, N_week, N_month, N_year}
CmpOps == {N_lt, N_lte, N_gt, N_gte}
ReFlags == {N_i, N_ignorecase, N_m, N_multiline, N_s, N_dotall}
ListModifiers == {N_all, N_neq}
AllModifiers == {N_all, N_neq, N_base64, N_base64offset, N_cased, N_cidr, N_contains, N_startswith,
                 N_endswith, N_exists, N_expand, N_fieldref, N_re, N_utf16, N_utf16be, N_wide, N_windash}
                \cup TsUnits \cup CmpOps \cup ReFlags
FlagLetter(m) == IF m \in {N_i, N_ignorecase} THEN 105 ELSE IF m \in {N_m, N_multiline} THEN 109 ELSE 115

\* ---- single-value semantics --------------------------------------------
\* result of a value modifier on ONE non-expansion value:
\*   [st |-> "ok", out |-> Seq(value)] | [st |-> "reject"] | [st |-> "unspec"]
OK(vs) == [st |-> "ok", out |-> vs]
REJECT == [st |-> "reject", out |-> <<>>]
UNSPEC == [st |-> "unspec", out |-> <<>>]

\* wildcards are added only where missing
AddStart(p) == IF p # <<>> /\ p[1] = STAR THEN p ELSE <<STAR>> \o p
AddEnd(p) == IF p # <<>> /\ p[Len(p)] = STAR THEN p ELSE p \o <<STAR>>
DOTSTAR == <<46, 42>>
ReAddStart(r) == IF HasPrefix(r, DOTSTAR) \/ (r # <<>> /\ r[1] = 94) THEN r ELSE DOTSTAR \o r
ReAddEnd(r) == IF HasSuffix(r, DOTSTAR) \/ (r # <<>> /\ r[Len(r)] = 36) THEN r ELSE r \o DOTSTAR
\* a regular expression whose end is an ESCAPED ".*" / "$" (or that is empty): the documentation
\* does not say whether it counts as "already open"
ReEdgeUnclear(r) == r = <<>> \/ (Len(r) >= 3 /\ r[Len(r) - 2] = CH_BSL) \/ (Len(r) >= 2 /\ r[Len(r) - 1] = CH_BSL)

WildMod(m, v) ==
    IF IsStrLike(v) THEN
        OK(<<[v EXCEPT !.parts = CASE m = N_contains -> AddEnd(AddStart(@))
                                   [] m = N_startswith -> AddEnd(@)
                                   [] m = N_endswith -> AddStart(@)]>>)
    ELSE IF v.t = "re" THEN
        (IF HasPH(v) \/ v.phs # <<>> \/ ReEdgeUnclear(v.s) THEN UNSPEC
         ELSE OK(<<[v EXCEPT !.s = CASE m = N_contains -> ReAddEnd(ReAddStart(@))
                                      [] m = N_startswith -> ReAddEnd(@)
                                      [] m = N_endswith -> ReAddStart(@)]>>))
    ELSE IF v.t = "fieldref" THEN
        OK(<<[v EXCEPT !.flags = CASE m = N_contains -> <<1, 1>>
                                   [] m = N_startswith -> <<1, @[2]>>
                                   [] m = N_endswith -> <<@[1], 1>>]>>)
    ELSE REJECT

\* windash: a '-' or '/' in parameter position = not preceded by a word character and
\* followed by one (word characters: [A-Za-z0-9_] and letters such as e-acute)
IsWordU(c) == c >= 0 /\ (IsWordChar(c) \/ c = 233 \/ c = 256)
DashPos(p) == {i \in 1..Len(p) :
    /\ p[i] \in {CH_DASH, CH_SLASH}
    /\ (i = 1 \/ ~IsWordU(p[i - 1]))
    /\ i < Len(p) /\ IsWordU(p[i + 1])}
DashVariants == <<45, 47, 8211, 8212, 8213>>
RECURSIVE DashExpand(_, _)
DashExpand(p, pos) ==      \* all variants, first dash outermost (order is not part of the contract)
    IF pos = {} THEN <<p>>
    ELSE LET i == CHOOSE j \in pos : \A k \in pos : j <= k
             rest == DashExpand(p, pos \ {i})
         IN  Concat([d \in 1..5 |-> [r \in 1..Len(rest) |-> [rest[r] EXCEPT ![i] = DashVariants[d]]]])

\* expand: per run of literal characters (wildcards end a run), leftmost unescaped %name%
NextPct(p, i) ==    \* least j > i in the same literal run with p[j] = '%', or 0
    LET J == {j \in (i + 1)..Len(p) : p[j] = CH_PCT /\ \A k \in (i + 1)..j : p[k] >= 0}
    IN  IF J = {} THEN 0 ELSE CHOOSE j \in J : \A j2 \in J : j <= j2
RECURSIVE BslRun(_, _)
BslRun(t, i) == IF i <= Len(t) /\ t[i] = CH_BSL THEN 1 + BslRun(t, i + 1) ELSE 0      \* length of the run of backslashes from i on
RECURSIVE BslBefore(_, _)
BslBefore(t, i) == IF i > 1 /\ t[i - 1] = CH_BSL THEN 1 + BslBefore(t, i - 1) ELSE 0  \* ... of the run that ends before i
\* (verb: the text is verbatim - a regular expression -, so that a backslash which is itself escaped escapes nothing:
\*  a percent sign is escaped iff an ODD number of backslashes stands before it.  In a parsed string the pairs are gone.)
RECURSIVE ExpandFromV(_, _, _)
ExpandFrom(p, i) == ExpandFromV(p, i, FALSE)
ExpandFromV(p, i, verb) ==        \* [parts, phs]
    IF i > Len(p) THEN [parts |-> <<>>, phs |-> <<>>]
    ELSE IF verb /\ p[i] = CH_BSL /\ i < Len(p) /\ p[i + 1] = CH_BSL
         THEN LET r == ExpandFromV(p, i + 2, verb) IN [parts |-> <<CH_BSL, CH_BSL>> \o r.parts, phs |-> r.phs]   \* an escaped backslash
    ELSE IF /\ p[i] = CH_PCT /\ (i = 1 \/ p[i - 1] # CH_BSL \/ (verb /\ BslBefore(p, i) % 2 = 0))
            /\ NextPct(p, i) >= i + 2
         THEN LET j == NextPct(p, i)
                  r == ExpandFromV(p, j + 1, verb)
              IN  [parts |-> <<PH>> \o r.parts, phs |-> <<Slice(p, i + 1, j - 1)>> \o r.phs]
    ELSE IF p[i] = CH_BSL /\ i < Len(p) /\ p[i + 1] = CH_PCT
         THEN LET r == ExpandFromV(p, i + 2, verb) IN [parts |-> <<CH_PCT>> \o r.parts, phs |-> r.phs]   \* \% -> %
    ELSE LET r == ExpandFromV(p, i + 1, verb) IN [parts |-> <<p[i]>> \o r.parts, phs |-> r.phs]
\* text of a regular expression as parts (its '*' and '?' end literal runs, as in the object model)
ReParts(t) == [i \in 1..Len(t) |-> IF t[i] = CH_STAR THEN STAR ELSE IF t[i] = CH_QM THEN QM ELSE t[i]]
ReText(p, phs) ==
    LET RECURSIVE Go(_, _)
        Go(i, k) == IF i > Len(p) THEN <<>>
                    ELSE IF p[i] = PH THEN <<CH_PCT>> \o phs[k] \o <<CH_PCT>> \o Go(i + 1, k + 1)
                    ELSE IF p[i] = STAR THEN <<CH_STAR>> \o Go(i + 1, k)
                    ELSE IF p[i] = QM THEN <<CH_QM>> \o Go(i + 1, k)
                    ELSE <<p[i]>> \o Go(i + 1, k)
    IN  Go(1, 1)

SetToSortedSeqM(S) ==
    LET RECURSIVE Build(_)
        Build(T) == IF T = {} THEN <<>>
                    ELSE LET x == CHOOSE y \in T : \A z \in T : y <= z IN <<x>> \o Build(T \ {x})
    IN  Build(S)

\* a sub-language of regular expressions that is certainly valid: no groups/classes/braces, every
\* quantifier follows an ordinary character or '.', a backslash is followed by a character
SafeRegex(t) ==
    /\ \A i \in 1..Len(t) : t[i] \notin {40, 41, 91, 93, 123, 125}
    /\ \A i \in 1..Len(t) : t[i] \in {CH_STAR, CH_QM, 43} =>
            i > 1 /\ t[i - 1] \notin {CH_STAR, CH_QM, 43, 124, 94, 36, CH_BSL}
    \* (backslashes only as escaped backslash or escaped percent sign: every maximal run of backslashes is even, or odd
    \*  and followed by a percent sign)
    /\ \A i \in 1..Len(t) : (t[i] = CH_BSL /\ (i = 1 \/ t[i - 1] # CH_BSL)) =>
            LET n == BslRun(t, i) IN n % 2 = 0 \/ (i + n <= Len(t) /\ t[i + n] = CH_PCT)
Literal(v) == v.parts           \* only used when ~HasWild(v) /\ ~HasPH(v)
IsIntNum(n) == n[2] = 1

\* Is the text a valid network?  Decided for the seed family only: dotted quad / prefix with
\* zero host bits, or the IPv6 seeds; everything else the generator marks itself.
\* a canonical IPv4 network "a.b.c.d/p": four decimal octets without leading zeros, a prefix
\* length 0..32 without leading zeros, no host bits set (other spellings - netmasks, a missing
\* prefix length, IPv6 beyond the seed - are left to C18)
CanonNat(t, max) == /\ Len(t) \in 1..3 /\ \A i \in 1..Len(t) : IsDigit(t[i])
                    /\ (Len(t) > 1 => t[1] # 48) /\ DecVal(t) <= max
CanonV4Cidr(raw) ==
    LET sl == SplitAt(raw, 47) IN
    /\ Len(sl) = 2 /\ CanonNat(sl[2], 32)
    /\ LET oc == SplitAt(sl[1], 46) IN
       /\ Len(oc) = 4 /\ \A i \in 1..4 : CanonNat(oc[i], 255)
       /\ LET a == [i \in 1..4 |-> DecVal(oc[i])] IN MaskV4(a, DecVal(sl[2])) = a
ValidCidrSeeds == {<<58,58,49,47,49,50,56>>}                   \* ::1/128
IsValidCidr(raw) == raw \in ValidCidrSeeds \/ CanonV4Cidr(raw)

ValueMod(m, v, applied, hasField, raw) ==
    CASE m \in {N_contains, N_startswith, N_endswith} -> WildMod(m, v)
      [] m \in {N_base64, N_base64offset} ->
           (IF v.t = "cased" THEN UNSPEC
            ELSE IF v.t # "str" THEN REJECT
            ELSE IF HasWild(v) THEN REJECT
            \* a placeholder stands for text that is not known yet: there is nothing to encode (encoding the NAME of the
            \* placeholder would bury it in the query for good)
            ELSE IF HasPH(v) THEN REJECT
            ELSE IF m = N_base64 THEN OK(<<VStr("str", B64(Utf8Seq(v.parts)), <<>>)>>)
            ELSE LET r == RefOffset3(Utf8Seq(v.parts))
                 IN  OK(<<VExp([k \in 1..3 |-> VStr("str", r[k], <<>>)])>>))
      [] m \in {N_wide, N_utf16, N_utf16be} ->
           (IF ~IsStrLike(v) THEN REJECT
            ELSE IF HasPH(v) THEN REJECT                       \* what the placeholder will be replaced by would not be re-encoded
            ELSE UNSPEC)                                       \* byte-exactness is C04's business
      [] m = N_windash ->
           (IF ~IsStrLike(v) THEN REJECT
            ELSE IF HasPH(v) THEN UNSPEC
            ELSE LET vs == DashExpand(v.parts, DashPos(v.parts))
                 IN  OK(<<VExp([k \in 1..Len(vs) |-> [v EXCEPT !.parts = vs[k]]])>>))
      [] m = N_re ->
           (IF ~IsStrLike(v) THEN REJECT
            ELSE IF applied # <<>> THEN REJECT
            ELSE IF ~SafeRegex(raw) THEN UNSPEC        \* may be an invalid expression: value or Sigma error
            ELSE OK(<<VRe(raw, <<>>, <<>>)>>))
      [] m \in ReFlags ->
           (IF v.t # "re" THEN REJECT
            ELSE OK(<<[v EXCEPT !.flags = SetToSortedSeqM({@[k] : k \in 1..Len(@)} \cup {FlagLetter(m)})]>>))
      [] m = N_cased ->
           (IF ~IsStrLike(v) THEN REJECT ELSE OK(<<[v EXCEPT !.t = "cased"]>>))
      [] m = N_cidr ->
           (IF ~IsStrLike(v) THEN REJECT
            ELSE IF applied # <<>> THEN REJECT
            ELSE IF IsValidCidr(raw) THEN OK(<<VCidr(raw)>>)
            ELSE IF \A k \in 1..Len(raw) : raw[k] \notin {46, 58} THEN REJECT     \* no '.' or ':' at all
            ELSE UNSPEC)
      [] m = N_exists ->
           (IF v.t # "bool" THEN REJECT
            ELSE IF ~hasField \/ applied # <<>> THEN REJECT
            ELSE OK(<<VExists(v.b)>>))
      [] m = N_expand ->
           (IF IsStrLike(v) THEN
                (IF HasPH(v) THEN UNSPEC
                 ELSE LET r == ExpandFrom(v.parts, 1) IN OK(<<[v EXCEPT !.parts = r.parts, !.phs = r.phs]>>))
            ELSE IF v.t = "re" THEN
                (IF v.phs # <<>> THEN UNSPEC
                 ELSE LET r == ExpandFromV(ReParts(v.s), 1, TRUE)
                      IN  OK(<<[v EXCEPT !.s = ReText(r.parts, r.phs), !.phs = r.phs]>>))
            ELSE REJECT)
      [] m = N_fieldref ->
           (IF ~IsStrLike(v) THEN REJECT
            ELSE IF HasWild(v) THEN REJECT
            ELSE IF HasPH(v) \/ \E k \in 1..Len(v.parts) : v.parts[k] \in {CH_STAR, CH_QM, CH_BSL} THEN UNSPEC
            ELSE OK(<<VFieldRef(v.parts, 0, 0)>>))
      \* a timestamp part is a number in the object model; whether a further numeric modifier
      \* may follow it is not defined by the specification
      [] m \in CmpOps ->
           (IF v.t = "tspart" THEN OK(<<VCmpTs(m, v.s, v.num)>>)       \* field|hour|gte: the hour is compared
            ELSE IF v.t = "bignum" THEN OK(<<VCmpBig(m, v.s)>>)
            ELSE IF v.t # "num" THEN REJECT ELSE OK(<<VCmp(m, v.num)>>))
      [] m \in TsUnits ->
           (IF v.t = "tspart" THEN UNSPEC
            ELSE IF v.t = "bignum" THEN UNSPEC        \* no timestamp has such a part
            ELSE IF v.t # "num" THEN REJECT
            ELSE IF ~IsIntNum(v.num) THEN REJECT      \* a part of a timestamp is a whole number; cutting 5.7 down to 5 would change the content
            ELSE OK(<<VTs(m, v.num)>>))

\* a value modifier on a value that may be an expansion: members are modified one by one and
\* the results collected in ONE expansion
RECURSIVE ApplyValue(_, _, _, _, _)
ApplyValue(m, v, applied, hasField, raw) ==
    IF v.t = "exp" THEN
        LET rs == [k \in 1..Len(v.vals) |-> ApplyValue(m, v.vals[k], applied, hasField, raw)]
        IN  IF \E k \in 1..Len(rs) : rs[k].st = "reject" THEN REJECT
            ELSE IF \E k \in 1..Len(rs) : rs[k].st = "unspec" THEN UNSPEC
            ELSE OK(<<VExp(Concat([k \in 1..Len(rs) |-> rs[k].out]))>>)
    ELSE ValueMod(m, v, applied, hasField, raw)

\* ---- the chain machine --------------------------------------------------
\* raws[k] = the k-th source value as written (needed by re / cidr, which read the original text)
MInit(vals) == [vals |-> vals, linking |-> "or", negated |-> FALSE, applied |-> <<>>, status |-> "ok"]

MStep(st, m, hasField, raws) ==
    IF st.status # "ok" THEN st                       \* once rejected, stays rejected
    ELSE IF m \notin AllModifiers THEN [st EXCEPT !.status = "reject"]
    ELSE IF m = N_all THEN [st EXCEPT !.linking = "and", !.applied = Append(@, m)]
    ELSE IF m = N_neq THEN [st EXCEPT !.negated = TRUE, !.applied = Append(@, m)]
    ELSE
        \* after a modifier changed the number of values, "the k-th source value" is gone
        LET aligned == Len(st.vals) = Len(raws)
            rs == [k \in 1..Len(st.vals) |->
                     ApplyValue(m, st.vals[k], st.applied, hasField, IF aligned THEN raws[k] ELSE <<>>)]
        IN  IF \E k \in 1..Len(rs) : rs[k].st = "reject" THEN [st EXCEPT !.status = "reject"]
            ELSE IF \E k \in 1..Len(rs) : rs[k].st = "unspec" THEN [st EXCEPT !.status = "unspec"]
            ELSE [st EXCEPT !.vals = Concat([k \in 1..Len(rs) |-> rs[k].out]), !.applied = Append(@, m)]

RECURSIVE MRun(_, _, _, _)
MRun(st, chain, hasField, raws) ==
    IF chain = <<>> THEN st ELSE MRun(MStep(st, Head(chain), hasField, raws), Tail(chain), hasField, raws)

\* ---- source values -------------------------------------------------------
\* src == [t |-> "s"|"n"|"N"|"b"|"null", s |-> code points, num |-> <<n, d>>, b |-> BOOLEAN]
\* With `re` anywhere in the chain, strings are taken verbatim (no wildcard/escape parsing).
InitVal(src, hasRe) ==
    CASE src.t = "s" -> VStr("str", IF hasRe THEN src.s ELSE ParseStr(src.s), <<>>)
      [] src.t = "n" -> VNum(src.num)
      [] src.t = "N" -> VBigNum(src.s)      \* a whole number beyond TLC's integers, kept as its decimal text
      [] src.t = "b" -> VBool(src.b)
      [] OTHER -> VNull
RawText(src) == IF src.t = "s" THEN src.s ELSE <<>>

Apply(srcs, chain, hasField) ==
    LET hasRe == \E k \in 1..Len(chain) : chain[k] = N_re
        \* non-string values in a chain containing `re`: the object model is undefined
        st0 == MInit([k \in 1..Len(srcs) |-> InitVal(srcs[k], hasRe)])
        r == MRun(st0, chain, hasField, [k \in 1..Len(srcs) |-> RawText(srcs[k])])
    IN  IF hasRe /\ \E k \in 1..Len(srcs) : srcs[k].t # "s" THEN [r EXCEPT !.status = IF r.status = "ok" THEN "reject" ELSE r.status]
        ELSE r

\* ---- comparing values (expansions as bags of leaves) --------------------
RECURSIVE Leaves(_)
Leaves(v) == IF v.t = "exp" THEN Concat([k \in 1..Len(v.vals) |-> Leaves(v.vals[k])]) ELSE <<v>>
Count(s, x) == Cardinality({k \in 1..Len(s) : s[k] = x})
BagEq(a, b) == Len(a) = Len(b) /\ \A k \in 1..Len(a) : Count(a, a[k]) = Count(b, a[k])
VEq(a, b) == IF a.t = "exp" \/ b.t = "exp" THEN a.t = b.t /\ BagEq(Leaves(a), Leaves(b)) ELSE a = b
ValsEq(a, b) == Len(a) = Len(b) /\ \A k \in 1..Len(a) : VEq(a[k], b[k])
=============================================================================
