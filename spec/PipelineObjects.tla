-------------------------- MODULE PipelineObjects --------------------------
(***************************************************************************)
(* Layer S, part 3: pipeline objects, their composition and their use by   *)
(* backends - the MECHANISM the code implements:                           *)
(*                                                                         *)
(*  * a pipeline object owns a sequence of items; every item has a back    *)
(*    pointer `owner` to the ONE pipeline whose per-rule state it reads    *)
(*    and writes;                                                          *)
(*  * p + q builds a NEW pipeline object from the items of both operands   *)
(*    and re-assigns their back pointers to it (the operands keep the      *)
(*    items in their own item lists);                                      *)
(*  * a backend assembles class pipeline + user pipeline + format pipeline *)
(*    into `last` when it is initialised;                                  *)
(*  * apply(p, rule) resets p's per-rule state and runs p's items; each    *)
(*    item gates on / writes to the state of its OWNER.  With ReownAtApply *)
(*    (the code after the repair) apply first makes p the owner of its     *)
(*    items.                                                               *)
(*                                                                         *)
(* Item kinds:  "set"    sets state index := "win" if the rule is a windows  *)
(*                       rule (rule condition)                               *)
(*              "gate"   marks the rule if state index = "win" (state        *)
(*                       condition)                                          *)
(*              "map"    renames field A to mappedA and records the target   *)
(*                       in the OWNER's per-rule field-mapping tracking      *)
(*              "strict" fails the rule unless its field is a recorded       *)
(*                       mapping target of the OWNER's tracking              *)
(*              "tmpl"   adds a condition built from its template and the    *)
(*                       rule's product; the template is item-local storage  *)
(*                       that the item must not overwrite                    *)
(* A conversion result is <<backend, state index seen by the backend,        *)
(* marked?, failed?, product put into the template ("none" if no tmpl item   *)
(* ran)>>.                                                                   *)
(*                                                                           *)
(* Per-rule state of a pipeline object: state index, field-mapping tracking  *)
(* (does it record mappedA as a target).  apply() resets both (ResetTracking *)
(* = FALSE: the tracking survives, as with a reset that keeps the reverse    *)
(* mapping).  ItemWritesBack = TRUE: tmpl stores the instantiated template.  *)
(*                                                                           *)
(* Objects: pipelines are numbered; 1 = class-level backend pipeline,        *)
(* 2, 3 = user pipelines (2 may be shared by both backends), sums are        *)
(* allocated from 4 on.                                                      *)
(***************************************************************************)
EXTENDS Integers, Sequences, FiniteSets, TLC

CONSTANTS ReownAtApply, ResetTracking, ItemWritesBack
Backends == {"A", "B"}
Rules == {"win", "lin", "direct"}         \* direct: a linux rule that uses the field name mappedA itself
NoPipe == 0
RuleWin(r) == r = "win"
Product(r) == IF r = "win" THEN "win" ELSE "lin"
FieldOf(r) == IF r = "direct" THEN "mappedA" ELSE "A"

\* static item table: item id -> kind ; static initial pipelines
ItemKind == <<"set", "gate", "map", "strict", "set", "gate", "tmpl">>   \* 1-4 class pipeline, 5-7 user pipeline 2
NItems == Len(ItemKind)
InitItems == <<(<<1, 2, 3, 4>>), (<<5, 6, 7>>), (<<>>)>>     \* pipelines 1, 2, 3 (3 = empty user pipeline)
MaxPipes == 12

\* st == [items (pipe -> Seq(item)), owner (item -> pipe), state (pipe -> "default"|"win"),
\*        track (pipe -> BOOLEAN), istore (item -> "tpl" | product),
\*        user (backend -> pipe), last (backend -> pipe), npipes, out]
OInit(userA, userB) ==
    [items |-> [p \in 1..MaxPipes |-> IF p <= 3 THEN InitItems[p] ELSE <<>>],
     owner |-> [i \in 1..NItems |-> IF i <= 4 THEN 1 ELSE 2],
     state |-> [p \in 1..MaxPipes |-> "default"],
     track |-> [p \in 1..MaxPipes |-> FALSE],
     istore |-> [i \in 1..NItems |-> "tpl"],
     user |-> [b \in Backends |-> IF b = "A" THEN userA ELSE userB],
     last |-> [b \in Backends |-> NoPipe],
     npipes |-> 3,
     out |-> <<"none", "none", FALSE, FALSE, "none">>]

\* p + q : new object, items concatenated, both operands' items re-owned by the result
OAdd(st, p, q) ==
    LET n == st.npipes + 1
        its == st.items[p] \o st.items[q]
    IN  [st EXCEPT !.npipes = n,
                   !.items[n] = its,
                   !.owner = [i \in 1..NItems |-> IF \E k \in 1..Len(its) : its[k] = i THEN n ELSE st.owner[i]]]

\* backend initialisation: class pipeline + user pipeline (+ empty format pipeline)
OInitBackend(st, b) ==
    LET s1 == OAdd(st, 1, st.user[b]) IN [s1 EXCEPT !.last[b] = s1.npipes]

\* apply the assembled pipeline of backend b to a rule and render
OApply(st, b, r) ==
    LET p == st.last[b]
        own0 == IF ReownAtApply
                THEN [i \in 1..NItems |-> IF \E k \in 1..Len(st.items[p]) : st.items[p][k] = i THEN p ELSE st.owner[i]]
                ELSE st.owner
        Step(acc, i) ==
            LET o == own0[i] IN
            IF acc.failed THEN acc      \* a failing item ends the run
            ELSE CASE ItemKind[i] = "set" -> IF RuleWin(r) THEN [acc EXCEPT !.state[o] = "win"] ELSE acc
                   [] ItemKind[i] = "gate" -> [acc EXCEPT !.marked = @ \/ acc.state[o] = "win"]
                   [] ItemKind[i] = "map" -> IF acc.field = "A" THEN [acc EXCEPT !.field = "mappedA", !.track[o] = TRUE] ELSE acc
                   [] ItemKind[i] = "strict" -> IF acc.field = "A" \/ ~acc.track[o] THEN [acc EXCEPT !.failed = TRUE] ELSE acc
                   [] OTHER -> LET v == IF acc.istore[i] = "tpl" THEN Product(r) ELSE acc.istore[i]
                               IN  [acc EXCEPT !.tmpl = v, !.istore[i] = IF ItemWritesBack THEN v ELSE @]
        RECURSIVE Run(_, _)
        Run(k, acc) == IF k > Len(st.items[p]) THEN acc ELSE Run(k + 1, Step(acc, st.items[p][k]))
        res == Run(1, [state |-> [st.state EXCEPT ![p] = "default"],
                       track |-> IF ResetTracking THEN [st.track EXCEPT ![p] = FALSE] ELSE st.track,
                       istore |-> st.istore, field |-> FieldOf(r), marked |-> FALSE, failed |-> FALSE, tmpl |-> "none"])
    IN  [st EXCEPT !.owner = own0, !.state = res.state, !.track = res.track, !.istore = res.istore,
                   !.out = IF res.failed THEN <<b, "none", FALSE, TRUE, "none">>
                           ELSE <<b, res.state[p], res.marked, FALSE, res.tmpl>>]

OCanConvert(st, b) == st.last[b] # NoPipe /\ st.npipes < MaxPipes - 2

\* ---- Ideal: what a conversion must yield, whatever happened before -------------------
\* (fresh objects: class pipeline + the backend's user pipeline, applied once)
FreshResult(userPipe, b, r) ==
    IF r = "direct" THEN <<b, "none", FALSE, TRUE, "none">>     \* mappedA is no mapping target of THIS rule
    ELSE <<b, IF r = "win" THEN "win" ELSE "default", r = "win", FALSE, IF userPipe = 2 THEN Product(r) ELSE "none">>
=============================================================================
