-------------------------- MODULE PipelineObjects --------------------------
(***************************************************************************)
(* Layer S, part 3: pipeline objects, their composition and their use by   *)
(* backends - the MECHANISM the code implements:                           *)
(*                                                                         *)
(*  * a pipeline object owns a sequence of items; every item has a back    *)
(*    pointer `owner` to the ONE pipeline whose per-rule state it reads    *)
(*    and writes;                                                          *)
(*  * p + q builds a NEW pipeline object from the items of both operands   *)
(*    and re-assigns their back pointers to it (the operands keep the      *)
(*    items in their own item lists);                                      *)
(*  * a backend assembles class pipeline + user pipeline + format pipeline *)
(*    into `last` when it is initialised;                                  *)
(*  * apply(p, rule) resets p's per-rule state and runs p's items; each    *)
(*    item gates on / writes to the state of its OWNER.  With ReownAtApply *)
(*    (the code after the repair) apply first makes p the owner of its     *)
(*    items.                                                               *)
(*                                                                         *)
(* Item kinds:  "set"  sets state index := "win" if the rule is a windows  *)
(*                     rule (rule condition)                               *)
(*              "gate" marks the rule if state index = "win" (state        *)
(*                     condition)                                          *)
(* A conversion result is <<state index seen by the backend, marked?>>.    *)
(*                                                                         *)
(* Objects: pipelines are numbered; 1 = class-level backend pipeline,      *)
(* 2, 3 = user pipelines (2 may be shared by both backends), sums are      *)
(* allocated from 4 on.                                                    *)
(***************************************************************************)
EXTENDS Integers, Sequences, FiniteSets, TLC

CONSTANT ReownAtApply
Backends == {"A", "B"}
Rules == {"win", "lin"}
NoPipe == 0

\* static item table: item id -> kind ; static initial pipelines
ItemKind == <<"set", "gate", "set", "gate">>       \* items 1,2 (class pipeline), 3,4 (user pipeline 2)
InitItems == <<(<<1, 2>>), (<<3, 4>>), (<<>>)>>     \* pipelines 1, 2, 3 (3 = empty user pipeline)
MaxPipes == 12

\* st == [items (pipe -> Seq(item)), owner (item -> pipe), state (pipe -> "default"|"win"),
\*        user (backend -> pipe), last (backend -> pipe), npipes, out]
OInit(userA, userB) ==
    [items |-> [p \in 1..MaxPipes |-> IF p <= 3 THEN InitItems[p] ELSE <<>>],
     owner |-> [i \in 1..4 |-> IF i <= 2 THEN 1 ELSE 2],
     state |-> [p \in 1..MaxPipes |-> "default"],
     user |-> [b \in Backends |-> IF b = "A" THEN userA ELSE userB],
     last |-> [b \in Backends |-> NoPipe],
     npipes |-> 3,
     out |-> <<"none", "none", FALSE>>]

\* p + q : new object, items concatenated, both operands' items re-owned by the result
OAdd(st, p, q) ==
    LET n == st.npipes + 1
        its == st.items[p] \o st.items[q]
    IN  [st EXCEPT !.npipes = n,
                   !.items[n] = its,
                   !.owner = [i \in 1..4 |-> IF \E k \in 1..Len(its) : its[k] = i THEN n ELSE st.owner[i]]]

\* backend initialisation: class pipeline + user pipeline (+ empty format pipeline)
OInitBackend(st, b) ==
    LET s1 == OAdd(st, 1, st.user[b]) IN [s1 EXCEPT !.last[b] = s1.npipes]

\* apply the assembled pipeline of backend b to a rule and render
OApply(st, b, r) ==
    LET p == st.last[b]
        own0 == IF ReownAtApply
                THEN [i \in 1..4 |-> IF \E k \in 1..Len(st.items[p]) : st.items[p][k] = i THEN p ELSE st.owner[i]]
                ELSE st.owner
        RECURSIVE Run(_, _, _)
        Run(k, state, marked) ==
            IF k > Len(st.items[p]) THEN [state |-> state, marked |-> marked]
            ELSE LET i == st.items[p][k]
                     o == own0[i]
                 IN  IF ItemKind[i] = "set"
                     THEN Run(k + 1, IF r = "win" THEN [state EXCEPT ![o] = "win"] ELSE state, marked)
                     ELSE Run(k + 1, state, marked \/ state[o] = "win")
        res == Run(1, [st.state EXCEPT ![p] = "default"], FALSE)
    IN  [st EXCEPT !.owner = own0, !.state = res.state,
                   !.out = <<b, res.state[p], res.marked>>]

OCanConvert(st, b) == st.last[b] # NoPipe /\ st.npipes < MaxPipes - 2

\* ---- Ideal: what a conversion must yield, whatever happened before -------------------
\* (fresh objects: class pipeline + the backend's user pipeline, applied once)
FreshResult(userPipe, b, r) ==
    LET nItems == Len(InitItems[1]) + Len(InitItems[userPipe])    \* "set" then "gate" per pipeline
    IN  <<b, IF r = "win" THEN "win" ELSE "default", r = "win">>
=============================================================================
