SPECIFICATION Spec
INVARIANT NoSelfGrant
INVARIANT InjectionIrrelevant
INVARIANT VarsPathContained
INVARIANT SecurityErrorAtFirstNeed
