--------------------------- MODULE MC_Determinism ---------------------------
(* Mode A for C20.
   Sets: a run picks an iteration order for a set-valued attribute (nondeterministic permutation =
   hash seed), then renders it.  With Sorted = TRUE the output is a function of the set alone
   (Deterministic holds); with Sorted = FALSE TLC must find two runs that differ (negative control),
   unless the set has fewer than two elements.
   Random names: a run draws an internal name for an object it adds to a rule (the detections of an
   applied filter, an added condition).  A message about that object either names it as its author
   wrote it (NamesAsWritten = TRUE) or by the internal name; in the second case the text depends on
   the draw (negative control MC_Determinism_negative_names.cfg).                                *)
EXTENDS Determinism, TLC
CONSTANTS Sorted, NamesAsWritten
VARIABLES S, order, out, phase, written, draw, msg
vars == <<S, order, out, phase, written, draw, msg>>
Init == /\ S \in SUBSET {1, 2, 3} /\ order = <<>> /\ out = <<>> /\ phase = "start"
        /\ written \in {"a", "b"} /\ draw = 0 /\ msg = <<>>
Iterate == /\ phase = "start" /\ order' \in Perms(S) /\ draw' \in 1..3 /\ phase' = "iterated"
           /\ UNCHANGED <<S, out, written, msg>>
Emit == /\ phase = "iterated" /\ out' = Render(S, order, Sorted) /\ phase' = "done"
        /\ msg' = IF NamesAsWritten THEN <<"detection", written>> ELSE <<"detection", draw, written>>
        /\ UNCHANGED <<S, order, written, draw>>
Next == Iterate \/ Emit
Spec == Init /\ [][Next]_vars
Deterministic == phase = "done" => out = SortSeqNat(S)
\* the message is a function of what was written: no trace of the draw
NoInternalName == phase = "done" => msg = <<"detection", written>>
=============================================================================
