--------------------------- MODULE MC_Determinism ---------------------------
(* Mode A for C20: a run picks an iteration order for a set-valued attribute (nondeterministic
   permutation = hash seed), then renders it.  With Sorted = TRUE the output is a function of the
   set alone (Deterministic holds); with Sorted = FALSE TLC must find two runs that differ
   (negative control), unless the set has fewer than two elements.                              *)
EXTENDS Determinism, TLC
CONSTANT Sorted
VARIABLES S, order, out, phase
vars == <<S, order, out, phase>>
Init == S \in SUBSET {1, 2, 3} /\ order = <<>> /\ out = <<>> /\ phase = "start"
Iterate == phase = "start" /\ order' \in Perms(S) /\ phase' = "iterated" /\ UNCHANGED <<S, out>>
Emit == phase = "iterated" /\ out' = Render(S, order, Sorted) /\ phase' = "done" /\ UNCHANGED <<S, order>>
Next == Iterate \/ Emit
Spec == Init /\ [][Next]_vars
Deterministic == phase = "done" => out = SortSeqNat(S)
=============================================================================
