------------------------------ MODULE MC_Text ------------------------------
(* Mode A for Text: the DP glob matcher agrees with the declarative definition
   on every pattern <= 3 parts and every subject <= 3 over a 2-letter alphabet. *)
EXTENDS Text, TLC
VARIABLES p, s
A == {97, 98}
Init == p \in SeqsUpTo(A \cup {STAR, QM}, 3) /\ s \in SeqsUpTo(A, 3)
Next == UNCHANGED <<p, s>>
Agree == WildMatch(p, s) = WildMatchBrute(p, s)
NonVacuous == TRUE
SplitOK == Join(SplitAt(s, 97), <<97>>) = s
=============================================================================
