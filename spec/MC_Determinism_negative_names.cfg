SPECIFICATION Spec
CONSTANT Sorted = TRUE
CONSTANT NamesAsWritten = FALSE
INVARIANT Deterministic
INVARIANT NoInternalName
