---------------------------- MODULE MC_SigmaStr ----------------------------
(* Mode A for Sigma strings.  The source parser is run as a state machine (one
   transition per character) over every source text up to MaxLen; in every final
   state: a faithful plain form exists (RefPlain re-parses to the same parts), and
   every configuration of the family is decodable (the target's own decoder reads
   the required rendering back as the filtered parts, with no stray metacharacter).
   These are the obligations later demanded from the implementation.            *)
EXTENDS StrConfigs, TLC
CONSTANT MaxLen
VARIABLES src, i, st, g

vars == <<src, i, st, g>>
Init == /\ g \in 1..Len(Groups)
        /\ src \in SeqsUpTo(Groups[g].alpha, MaxLen)
        /\ i = 0 /\ st = PInitS
Next == /\ i < Len(src)
        /\ i' = i + 1
        /\ st' = PStepS(st, src[i + 1])
        /\ UNCHANGED <<src, g>>
Done == i = Len(src)
Parts == PFinS(st)

StepwiseIsFold == Done => Parts = ParseStr(src)
PlainExists == Done => ParseStr(RefPlain(Parts)) = Parts
Decodable == Done =>
    \A j \in 1..Len(Groups[g].ks) :
        LET K == Configs[Groups[g].ks[j]] IN
        \* (configuration 8 is the deliberately ill-formed one of the recorded deviation Dev_EscapeCharNotEscaped)
        WellFormed(K) =>
        /\ Supported(K, Parts) =>
             /\ DecodeBody(K, RefRender(K, Parts)) = FilterParts(K, Parts)
             /\ (K.quote # NONE =>
                   DecodeLiteral(K, <<K.quote>> \o RefRender(K, Parts) \o <<K.quote>>) = FilterParts(K, Parts))
             \* the literal in the form the configuration asks for (bare where conditional quoting leaves it bare)
             /\ DecodeLiteral(K, IF MustQuote(K, Parts) THEN <<K.quote>> \o RefRender(K, Parts) \o <<K.quote>> ELSE RefRender(K, Parts))
                   = FilterParts(K, Parts)
\* parts never contain an escape state: literal chars are >= 0, wildcards STAR/QM
PartsTyped == \A j \in 1..Len(st.acc) : st.acc[j] >= 0 \/ IsWild(st.acc[j])
\* the parser is injective up to the documented equivalences: a text without backslash
\* parses to itself with wildcards marked
NoBackslashIdentity == (Done /\ \A j \in 1..Len(src) : src[j] # CH_BSL) =>
    Parts = [j \in 1..Len(src) |-> IF src[j] = CH_STAR THEN STAR ELSE IF src[j] = CH_QM THEN QM ELSE src[j]]
Spec == Init /\ [][Next]_vars
=============================================================================
