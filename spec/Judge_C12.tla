---------------------------- MODULE Judge_C12 ----------------------------
(* Mode C judge for C12: the query obtained through a pipeline must mean what the rule,
   rewritten at source level as spec/Transform.tla defines each transformation, means;
   an identity instance must leave the query byte-identical.                          *)
EXTENDS Transform, Json, IOUtils, TLC
VARIABLE x
Obs == ndJsonDeserialize(IOEnv.VERIF_OBS)
C(name) == [dev |-> FALSE, name |-> name]
D(name) == [dev |-> TRUE, name |-> name]
PREC == <<"not", "and", "or">>

\* recorded deviation (see C05): a string value in which a plain backslash directly precedes a
\* wildcard / plain '*' '?' / backslash does not survive the plain-form round trip that
\* replace_string performs, even when nothing is replaced
RECURSIVE ItemsOf(_)
ItemsOf(body) == CASE body.kind = "map" -> body.items
                   [] body.kind = "maps" -> Concat(body.maps)
                   [] OTHER -> <<[field |-> <<>>, chain |-> <<>>, vals |-> body.vals, single |-> FALSE]>>
FragileValue(o) ==
    \E d \in 1..Len(o.doc.dets) : \E it \in {ItemsOf(o.doc.dets[d].body)[k] : k \in 1..Len(ItemsOf(o.doc.dets[d].body))} :
        \E k \in 1..Len(it.vals) : it.vals[k].t = "s" /\
            LET p == ParseStr(it.vals[k].s) IN \E i \in 1..(Len(p) - 1) : p[i] = CH_BSL /\ NeedsGuard(p[i + 1])
\* ... or in which the replacement itself produces that adjacency (what is left of the value ends in a backslash and a
\* modifier's wildcard follows, or the replaced text stood between a backslash and a wildcard)
FragileAfterReplace(o) ==
    \E d \in 1..Len(o.doc.dets) : \E it \in {ItemsOf(o.doc.dets[d].body)[k] : k \in 1..Len(ItemsOf(o.doc.dets[d].body))} :
        \E k \in 1..Len(it.vals) : it.vals[k].t = "s" /\
            \E j \in 1..Len(Flatten(o.Ts)) : Flatten(o.Ts)[j].type = "replace" /\
                LET p == ParseStr(it.vals[k].s)
                    q == ReplaceIn(p, Flatten(o.Ts)[j].s1, Flatten(o.Ts)[j].s2)
                IN  q # p /\ (\/ \E i \in 1..(Len(q) - 1) : q[i] = CH_BSL /\ NeedsGuard(q[i + 1])
                              \/ (q # <<>> /\ q[Len(q)] = CH_BSL /\ \E m \in 1..Len(it.chain) : it.chain[m] \in {N_contains, N_startswith}))
HasReplace(Ts) == \E k \in 1..Len(Flatten(Ts)) : Flatten(Ts)[k].type = "replace"

\* recorded deviation: replace_string turns every number in its scope into a string (a timestamp part
\* into a plain string comparison), whether or not the expression matches
NumText(n) == LET a == IF n[1] < 0 THEN 0 - n[1] ELSE n[1]
                  body == IF n[2] = 1 THEN NatText(a) ELSE NatText(a \div 2) \o <<46, 53>>      \* d \in {1, 2}
              IN  IF n[1] < 0 THEN <<45>> \o body ELSE body
NumAtoms(e) == {a \in QAtoms(e) : a.k \in {"num", "ts"} /\ a.p[2] \in {1, 2}}
RECURSIVE Stringify(_, _)
Stringify(e, S) ==
    CASE e.k = "leaf" -> (IF e.a \in S THEN QLeaf(StrAtom(e.a.f, FALSE, NumText(e.a.p))) ELSE e)
      [] e.k = "not" -> QNot(Stringify(e.a, S))
      [] OTHER -> [k |-> e.k, args |-> [j \in 1..Len(e.args) |-> Stringify(e.args[j], S)]]
StringifiedNumbers(want, g) == \E S \in (SUBSET NumAtoms(want)) \ {{}} : QEquiv(Stringify(want, S), g)

Clauses(o) ==
    LET want == XRuleDen(o.doc, 1, o.Ts, FALSE) IN
    \* (NotImplementedError is how a backend says "I cannot express this": no violation if the rule cannot be
    \*  expressed without the pipeline either)
    IF ~o.ret.ok /\ ~o.ret.sigma /\ ~(o.ret.exc = "NotImplementedError" /\ ~o.plain.ok /\ o.plain.exc = "NotImplementedError")
    THEN <<C("NonSigmaException")>>
    ELSE IF ~o.plain.ok THEN <<>>                     \* the rule does not convert even without pipeline
    ELSE IF want.st = "unspec" THEN <<D("__unspec")>>
    ELSE IF want.st = "fail" THEN (IF o.ret.ok THEN <<C("InvalidRuleConverted")>> ELSE <<>>)
    ELSE IF ~o.ret.ok THEN <<C("RewrittenRuleRejected")>>
    ELSE IF Len(o.ret.out) # 1 THEN <<C("OneQueryPerCondition")>>
    ELSE LET g == ParseQuery(o.ret.out[1], PREC) IN
         IF ~g.ok THEN <<C("QueryUnreadable")>>
         ELSE IF ~QEquiv(want.e, g.e) THEN
              (IF HasReplace(o.Ts) /\ (FragileValue(o) \/ FragileAfterReplace(o)) THEN <<D("Dev_PlainBackslashBeforeSpecial")>>
               ELSE IF HasReplace(o.Ts) /\ StringifiedNumbers(want.e, g.e) THEN <<D("Dev_ReplaceStringStringifiesNumbers")>>
               ELSE IF o.identity THEN <<C("IdentityLeavesUnchanged:meaning")>>
               ELSE <<C("RewriteEq_" \o Flatten(o.Ts)[1].type)>>)
         ELSE IF o.identity /\ o.ret.out # o.plain.out THEN <<C("IdentityLeavesUnchanged")>>
         ELSE <<>>
Verdict(o) ==
    LET cs == Clauses(o)
        viol == SelectSeq(cs, LAMBDA c : ~c.dev)
    IN  [id |-> o.id,
         v |-> IF viol # <<>> THEN "violation:" \o viol[1].name
               ELSE IF cs # <<>> THEN (IF cs[1].name = "__unspec" THEN "unspec" ELSE "dev:" \o cs[1].name) ELSE "ok"]
ASSUME ndJsonSerialize(IOEnv.VERIF_OUT, [i \in 1..Len(Obs) |-> Verdict(Obs[i])])
Init == x = 0
Next == UNCHANGED x
=============================================================================
