SPECIFICATION Spec
CONSTANT Sorted = TRUE
INVARIANT Deterministic
