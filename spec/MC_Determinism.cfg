SPECIFICATION Spec
CONSTANT Sorted = TRUE
CONSTANT NamesAsWritten = TRUE
INVARIANT Deterministic
INVARIANT NoInternalName
