----------------------------- MODULE MC_Render -----------------------------
(* Mode A for C01: the DESIGN of grouping by precedence comparison, transcribed from
   TextQueryBackend (compare_precedence, convert_condition_or/and/not/group), is run
   as a state machine that renders a boolean tree token by token into target text, for
   every tree up to MaxOps operators, every precedence order and parenthesize on/off.
   Decided on the design: reading the rendered text back with the TARGET grammar
   (QueryLang.ParseQuery under the same precedence order) gives the tree's truth table.
   The render stack machine: a work list of items to emit (subtrees or literal tokens). *)
EXTENDS QueryLang, TLC
CONSTANT MaxOps
VARIABLES tree, prec, paren, work, out

A1 == MkAtom(<<97>>, "null", <<>>, <<>>)
A2 == MkAtom(<<98>>, "null", <<>>, <<>>)
A3 == MkAtom(<<99>>, "exists", <<>>, <<>>)
AtomText(a) == <<96>> \o a.f \o <<96, 58>> \o (IF a.k = "null" THEN O_null ELSE O_exists) \o <<58>>
LeafSet == {QLeaf(A1), QLeaf(A2), QLeaf(A3)}
RECURSIVE QTrees(_)
QTrees(n) ==
    IF n = 0 THEN LeafSet
    ELSE {QNot(a) : a \in QTrees(n - 1)} \cup
         UNION {{[k |-> op, args |-> <<l, r>>] : op \in {"and", "or"}, l \in QTrees(i), r \in QTrees(n - 1 - i)}
                : i \in 0..(n - 1)}
         \cup (IF n = 2 THEN {[k |-> op, args |-> <<a, b, c>>] : op \in {"and", "or"}, a \in LeafSet, b \in LeafSet, c \in LeafSet} ELSE {})
Perms == {<<"not", "and", "or">>, <<"not", "or", "and">>, <<"and", "not", "or">>,
          <<"and", "or", "not">>, <<"or", "not", "and">>, <<"or", "and", "not">>}
Idx(x) == CHOOSE j \in 1..3 : prec[j] = x

\* compare_precedence(outer, inner): TRUE = no group needed
NoGroup(outer, inner) ==
    IF paren /\ inner.k # "leaf" THEN FALSE
    ELSE IF inner.k = "leaf" THEN TRUE
    ELSE Idx(inner.k) <= Idx(outer)

Tk(s) == [t |-> "tok", s |-> s]
Sub(e) == [t |-> "sub", e |-> e]
SPC == <<32>>
Expand(e) ==       \* one rendering step of a subtree: its tokens and subtrees, in order
    CASE e.k = "leaf" -> <<Tk(AtomText(e.a))>>
      [] e.k = "not" ->
           (IF e.a.k \in {"not", "and", "or"}
            THEN <<Tk(W_NOT), Tk(SPC), Tk(<<40>>), Sub(e.a), Tk(<<41>>)>>
            ELSE <<Tk(W_NOT), Tk(SPC), Sub(e.a)>>)
      [] OTHER ->
           LET w == IF e.k = "and" THEN W_AND ELSE W_OR
               arg(j) == IF NoGroup(e.k, e.args[j]) THEN <<Sub(e.args[j])>>
                         ELSE <<Tk(<<40>>), Sub(e.args[j]), Tk(<<41>>)>>
               RECURSIVE Build(_)
               Build(j) == IF j > Len(e.args) THEN <<>>
                           ELSE (IF j > 1 THEN <<Tk(SPC), Tk(w), Tk(SPC)>> ELSE <<>>) \o arg(j) \o Build(j + 1)
           IN  Build(1)

vars == <<tree, prec, paren, work, out>>
Init == /\ tree \in UNION {QTrees(n) : n \in 0..MaxOps}
        /\ prec \in Perms /\ paren \in BOOLEAN
        /\ work = <<Sub(tree)>> /\ out = <<>>
Emit == /\ work # <<>> /\ Head(work).t = "tok"
        /\ out' = out \o Head(work).s /\ work' = Tail(work) /\ UNCHANGED <<tree, prec, paren>>
Unfold == /\ work # <<>> /\ Head(work).t = "sub"
          /\ work' = Expand(Head(work).e) \o Tail(work) /\ UNCHANGED <<tree, prec, paren, out>>
Next == Emit \/ Unfold
Spec == Init /\ [][Next]_vars

RenderedMeansTree ==
    work = <<>> => LET r == ParseQuery(out, prec) IN r.ok /\ QEquiv(r.e, tree)
=============================================================================
