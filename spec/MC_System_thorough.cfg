SPECIFICATION Spec
CONSTANT MaxSteps = 5
CONSTANT MergeAllFilters = TRUE
INVARIANT ConvertIdeal
INVARIANT SortedInv
CHECK_DEADLOCK FALSE
