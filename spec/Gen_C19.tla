----------------------------- MODULE Gen_C19 -----------------------------
(* Mode B generator for C19: collections of 1..3 rules (detection names incl. keyword-prefixed and
   underscore-prefixed ones, conditions with identifiers and selectors, some matching nothing;
   ids / titles / file names shared in every multiplicity) x validator subsets x exclusions.
   The driver runs every permutation of the rules and two orders of the validators.          *)
EXTENDS Validation, Json, IOUtils, Randomization, TLC
VARIABLE x
Quick == IOEnv.VERIF_TIER = "quick"
n_sel_a == <<115,101,108,95,97>> n_sel_b == <<115,101,108,95,98>> n_inj == <<95,105,110,106>>
n_notepad == <<110,111,116,101,112,97,100>> n_android == <<97,110,100,114,111,105,100>>
Tx(s) == s
F1 == <<n_sel_a, n_sel_b, n_inj>>
F2 == <<n_notepad, n_android>>
C1 == {n_sel_a, <<49,32,111,102,32,115,101,108,95,42>>, <<97,108,108,32,111,102,32,116,104,101,109>>,
       n_sel_a \o <<32,97,110,100,32,110,111,116,32>> \o n_sel_b,
       <<49,32,111,102,32,120,42>>,                                       \* 1 of x*   (matches nothing)
       <<49,32,111,102,32,95,42>>,                                        \* 1 of _*
       n_sel_b \o <<32,111,114,32,49,32,111,102,32,122,122,42>>}          \* sel_b or 1 of zz*
C2 == {n_notepad, n_notepad \o <<32,111,114,32>> \o n_android, <<49,32,111,102,32,110,111,116,42>>, <<97,110,121,32,111,102,32,42,100>>}
Shapes == {[names |-> F1, conds |-> <<c>>] : c \in C1} \cup {[names |-> F2, conds |-> <<c>>] : c \in C2}
          \cup {[names |-> F1, conds |-> <<n_sel_a, <<49,32,111,102,32,95,42>>>>]}
          \* two and three conditions with selectors that match nothing in the FIRST / the middle one
          \cup {[names |-> F1, conds |-> <<(<<49,32,111,102,32,120,42>>), n_sel_a>>],                                       \* 1 of x* ; sel_a
                [names |-> F1, conds |-> <<(<<49,32,111,102,32,120,42>>), n_sel_b \o <<32,111,114,32,49,32,111,102,32,122,122,42>>>>],    \* 1 of x* ; sel_b or 1 of zz*
                [names |-> F1, conds |-> <<n_sel_a, (<<97,108,108,32,111,102,32,113,42>>), <<49,32,111,102,32,115,101,108,95,42>>>>]}   \* sel_a ; all of q* ; 1 of sel_*
\* body: what every detection of the rule is written as - a map, a list of maps (nested detections), a list of keywords
Rules == {[names |-> s.names, conds |-> s.conds, uid |-> u, title |-> t, fname |-> f, dir |-> d, body |-> b] :
            s \in Shapes, u \in 0..2, t \in 1..2, f \in 1..2, d \in 1..2, b \in {"map", "maps", "keywords"}}
AllV == {"dangling_detection", "dangling_condition", "identifier_uniqueness", "duplicate_title", "duplicate_filename"}
VSets == {AllV, {}} \cup {{v} : v \in AllV} \cup {AllV \ {v} : v \in {"dangling_detection", "duplicate_title"}}
Excls == {{}, {<<"dangling_detection", 1>>}, {<<"identifier_uniqueness", 1>>, <<"duplicate_title", 2>>}, {<<"dangling_condition", 2>>, <<"duplicate_filename", 1>>},
          \* two entries for the same rule id
          {<<"dangling_detection", 1>>, <<"duplicate_title", 1>>, <<"identifier_uniqueness", 1>>},
          \* entries for the rules WITHOUT identifier (key null in the table)
          {<<"dangling_detection", 0>>, <<"duplicate_title", 0>>}, {<<"dangling_condition", 0>>, <<"duplicate_filename", 0>>, <<"dangling_detection", 1>>}}
N == IF Quick THEN 400 ELSE 3000
Colls == {<<r>> : r \in RandomSubset(60, Rules)} \cup RandomSubset(N, [1..2 -> Rules]) \cup RandomSubset(N, [1..3 -> Rules])
\* two (three) copies of ONE rule - the same file in two directories of a rule set -, also beside a different rule with the same id
Twins == {<<r, r>> : r \in RandomSubset(12, {q \in Rules : q.uid # 0})}
         \cup {<<r, r, [r EXCEPT !.title = 3 - @, !.body = "keywords"]>> : r \in RandomSubset(8, {q \in Rules : q.uid # 0 /\ q.body = "map"})}
         \cup {<<r, r, r>> : r \in RandomSubset(4, {q \in Rules : q.uid # 0})}
TwinCases == {[coll |-> c, V |-> SetToSeq(AllV), excl |-> <<>>] : c \in Twins}
Cases == TwinCases \cup {[coll |-> c, V |-> SetToSeq(v), excl |-> SetToSeq(e)] : c \in Colls, v \in RandomSubset(3, VSets) \cup {AllV}, e \in RandomSubset(2, Excls) \cup {{<<"dangling_detection", 1>>, <<"duplicate_title", 1>>, <<"identifier_uniqueness", 1>>},
                                                     {<<"dangling_detection", 0>>, <<"duplicate_title", 0>>}}}   \* (always: the entry for the rules without identifier)
ASSUME LET S == SetToSeq(Cases) IN ndJsonSerialize(IOEnv.VERIF_OUT, [i \in 1..Len(S) |-> [id |-> i] @@ S[i]])
Init == x = 0
Next == UNCHANGED x
=============================================================================
