SPECIFICATION Spec
INVARIANT NoCaptureEitherWay
INVARIANT UnderscoreRulePatternCaptures
INVARIANT FilterUnderscoreNameLosesShield
