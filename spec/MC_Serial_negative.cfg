SPECIFICATION Spec
CONSTANT Written <- AllButRelated
INVARIANT FailsRatherThanLies
INVARIANT RoundTrip
INVARIANT MetaRoundTrip
