INIT Init
NEXT Next
INVARIANT SecondsLinear
INVARIANT NoOverflow
INVARIANT MappedOrPass
INVARIANT UnitTable
INVARIANT ExtRoundTrip
