----------------------------- MODULE Gen_C14 -----------------------------
(* Mode B generator for C14: operations on pipeline definitions from a pool.
     sum      operands (sequence of pool indices) + a bracketing of '+'
     resolve  named pipelines + the order in which they are passed to the resolver
     backend  (class pipeline, user pipeline, output-format pipeline); backend_switch: format changed between calls
     reuse    a + b, then again a + b with the very same objects / a used alone afterwards /
              the same names (objects, or definitions a generator loads each time) resolved twice
   Each case carries the reference definition the spec demands (concatenation order).   *)
EXTENDS PipelineCompose, Json, IOUtils, Randomization, TLC
VARIABLE x
Quick == IOEnv.VERIF_TIER = "quick"
MkDef(n, p, it, po, fi, v) == [name |-> n, prio |-> p, items |-> it, post |-> po, fin |-> fi, vars |-> v]
Pool == <<MkDef(1, 10, <<1>>, <<1>>, <<>>, <<(<<1, 11>>), (<<2, 12>>)>>),
          MkDef(2, 20, <<2>>, <<2>>, <<1>>, <<(<<1, 21>>)>>),
          MkDef(3, 10, <<3, 4>>, <<>>, <<>>, <<(<<3, 33>>)>>),
          MkDef(4, 5, <<5>>, <<3>>, <<>>, <<(<<2, 42>>)>>),
          MkDef(5, 10, <<>>, <<>>, <<>>, <<>>),
          MkDef(6, 20, <<4, 3>>, <<1>>, <<>>, <<(<<3, 63>>)>>),
          MkDef(7, 10, <<>>, <<2>>, <<>>, <<(<<4, 74>>)>>),
          MkDef(8, 10, <<>>, <<4>>, <<>>, <<(<<1, 81>>)>>),
          MkDef(9, 15, <<6>>, <<>>, <<>>, <<>>),
          MkDef(10, 15, <<7>>, <<>>, <<>>, <<>>),
          MkDef(11, 10, <<>>, <<>>, <<2>>, <<>>)>>     \* 11: a nested finalizer whose template prints variable k1 of the pipeline it runs in     \* 10: the same inside a nested pipeline      \* 9: fills placeholders from the variables of the pipeline it runs in (it has none of its own)      \* 8: no transformations; its post-processing item prints variable k1 and the state of the pipeline it runs in
          \* 7:      \* no transformations, but post-processing and a variable (a second concat finalizer after pipeline 2's would be fed a string)
NPool == Len(Pool)
\* (2 and 11 carry a finalizer each: together, the second would be fed the first one's string)
Seqs(n) == {s \in [1..n -> 1..NPool] : (\A i, j \in 1..n : i # j => s[i] # s[j]) /\ ~(\E i, j \in 1..n : s[i] = 2 /\ s[j] = 11)}
MaxSum == IF Quick THEN 3 ELSE 4
SumCases == UNION {{[op |-> "sum", operands |-> s, tree |-> t, ref |-> SumSeq([i \in 1..n |-> Pool[s[i]]])]
                     : s \in Seqs(n), t \in Brackets(1, n)} : n \in 1..MaxSum}
\* (every resolver case made of pipelines 5 and 7 only has NO transformation at all)
ResolveCases == {[op |-> "resolve", operands |-> s, tree |-> Leaf(1), ref |-> Resolve([i \in 1..Len(s) |-> Pool[s[i]]])]
                     : s \in {<<7>>, <<5, 7>>, <<7, 5>>}} \cup UNION {{[op |-> "resolve", operands |-> s, tree |-> Leaf(1), ref |-> Resolve([i \in 1..n |-> Pool[s[i]]])]
                     : s \in Seqs(n)} : n \in 2..(IF Quick THEN 3 ELSE 4)}
BackendCases == {[op |-> "backend", operands |-> s, tree |-> Leaf(1), ref |-> SumSeq([i \in 1..3 |-> Pool[s[i]]])]
                     : s \in (IF Quick THEN RandomSubset(40, Seqs(3)) ELSE Seqs(3))}
DefaultCases == {[op |-> "backend_default", operands |-> s, tree |-> Leaf(1), ref |-> SumSeq([i \in 1..3 |-> Pool[s[i]]])]
                     : s \in (IF Quick THEN RandomSubset(40, Seqs(3)) ELSE Seqs(3))}
\* the same backend object asked for another output format through convert_rule() after a conversion in the
\* default format: class pipeline, user pipeline, then the pipeline of the format that is ASKED FOR
SwitchCases == {[op |-> "backend_switch", operands |-> s, tree |-> Leaf(1), ref |-> SumSeq([i \in 1..3 |-> Pool[s[i]]])]
                     : s \in (IF Quick THEN RandomSubset(40, Seqs(3)) ELSE Seqs(3))}
\* ... and the other way round: a conversion in another format first, then convert_rule() WITHOUT a format - the default
\* format's pipeline is the one that runs
SwitchBackCases == {[op |-> "backend_switch_back", operands |-> s, tree |-> Leaf(1), ref |-> SumSeq([i \in 1..3 |-> Pool[s[i]]])]
                     : s \in (IF Quick THEN RandomSubset(40, Seqs(3)) ELSE Seqs(3))}
\* the user changes a variable of the pipeline between two conversions of the same backend: the second conversion works
\* with the pipeline as it is THEN
SetVar(vars, k, v) == SelectSeq(vars, LAMBDA e : e[1] # k) \o <<(<<k, v>>)>>
VarsChangedCases == {[op |-> "vars_changed", operands |-> s, tree |-> Leaf(1),
                      ref |-> [SumSeq([i \in 1..2 |-> Pool[s[i]]]) EXCEPT !.vars = SetVar(@, 1, 55)]]
                     : s \in {t \in Seqs(2) : t[1] \in {8, 9, 10} \/ t[2] \in {8, 9, 10}}}
ReuseCases == {[op |-> o, operands |-> s, tree |-> Leaf(1),
                ref |-> IF o = "reuse_operand" THEN Pool[s[1]]
                        ELSE IF o \in {"resolve_twice", "resolve_defs_twice", "resolve_decorated"} THEN Resolve([i \in 1..2 |-> Pool[s[i]]])
                        ELSE SumSeq([i \in 1..2 |-> Pool[s[i]]])]
                     : s \in Seqs(2), o \in {"reuse_sum_again", "reuse_first_sum", "reuse_operand", "resolve_twice", "resolve_defs_twice", "resolve_decorated"}}
\* a + b is built, then b is summed with c, then a + b is used: it still is the pipeline with a's parts followed by b's
ThirdCases == {[op |-> "reuse_then_third", operands |-> s, tree |-> Leaf(1), ref |-> SumSeq([i \in 1..2 |-> Pool[s[i]]])]
                     : s \in {t \in Seqs(3) : t[2] \in {7, 8} \/ t[1] = 8}}
\* a + b is built AND USED for a conversion, then a goes into a + c: that converts like a's parts followed by c's
\* (a: the pipeline that reads variables while it runs - 8 prints one, 9 fills placeholders; b and c give the variable different values)
AfterUseCases == {[op |-> "reuse_after_use", operands |-> s, tree |-> Leaf(1), ref |-> SumSeq(<<Pool[s[1]], Pool[s[3]]>>)]
                     : s \in {t \in Seqs(3) : t[1] \in {8, 9, 10}}}
\* the same pipeline named twice: p + p, (p + q) + p, and the same name twice in the resolver's list
TwiceCases == {[op |-> "sum", operands |-> <<i, i>>, tree |-> Node(Leaf(1), Leaf(2)), ref |-> SumSeq(<<Pool[i], Pool[i]>>)] : i \in (1..NPool) \ {2, 11}}      \* (2 has the finalizer: twice, the second would be fed a string)
              \cup {[op |-> "sum", operands |-> <<i, j, i>>, tree |-> Node(Node(Leaf(1), Leaf(2)), Leaf(3)), ref |-> SumSeq(<<Pool[i], Pool[j], Pool[i]>>)] : i \in {1, 8}, j \in {2, 3}}
              \cup {[op |-> "resolve", operands |-> <<i, i>>, tree |-> Leaf(1), ref |-> Resolve(<<Pool[i], Pool[i]>>)] : i \in {1, 3, 8}}
\* names given to the resolver mean the pipelines registered under them, whatever the working directory contains
\* (the driver resolves inside a directory that has a sub-directory of every name)
CwdCases == {[op |-> "resolve_cwd", operands |-> s, tree |-> Leaf(1), ref |-> Resolve([i \in 1..2 |-> Pool[s[i]]])] : s \in Seqs(2)}
ASSUME LET S == SetToSeq(VarsChangedCases \cup SwitchBackCases \cup CwdCases \cup TwiceCases \cup AfterUseCases \cup DefaultCases \cup ThirdCases \cup SumCases \cup ResolveCases \cup BackendCases \cup SwitchCases \cup ReuseCases)
       IN  ndJsonSerialize(IOEnv.VERIF_OUT, [i \in 1..Len(S) |-> [id |-> i, pool |-> Pool] @@ S[i]])
Init == x = 0
Next == UNCHANGED x
=============================================================================
