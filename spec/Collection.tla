----------------------------- MODULE Collection -----------------------------
(***************************************************************************)
(* Layer S, part 1: rule collections, references and conversion order.     *)
(*                                                                         *)
(* A document is a record                                                  *)
(*   [id    |-> 1..n                    identity in the rule set           *)
(*    kind  |-> "rule" | "corr",                                           *)
(*    name  |-> Nat (0 = none), uid |-> Nat (0 = none),                    *)
(*    refs  |-> Seq([by |-> "name"|"id", key |-> Nat]),   (corr only)      *)
(*    arefs |-> the same for the rules its alias definitions name,         *)
(*    generate |-> BOOLEAN]                                (corr only)     *)
(* A rule set is a sequence of documents indexed by id; a load order is a  *)
(* permutation of 1..n.                                                    *)
(*                                                                         *)
(* Actions of the system (one per step of the real code):                  *)
(*   resolve references (backreferences, output switch) - or fail at load  *)
(*   order the rules (depth-first along references)                        *)
(*   convert rule d / convert correlation c (needs the stored results of   *)
(*   everything c refers to) / emit the output list                        *)
(***************************************************************************)
EXTENDS Integers, Sequences, FiniteSets, SequencesExt

\* ---- references -----------------------------------------------------------
Lookup(docs, r) ==     \* id of the document a reference points to, 0 if there is none
    LET T == {d \in 1..Len(docs) : IF r.by = "name" THEN docs[d].name = r.key /\ r.key # 0
                                   ELSE docs[d].uid = r.key /\ r.key # 0}
    IN  IF T = {} THEN 0 ELSE CHOOSE d \in T : TRUE
RefIds(docs, c) == [k \in 1..Len(docs[c].refs) |-> Lookup(docs, docs[c].refs[k])]
Corrs(docs) == {d \in 1..Len(docs) : docs[d].kind = "corr"}
MissingRef(docs) == \E c \in Corrs(docs) : (\E k \in 1..Len(docs[c].refs) : RefIds(docs, c)[k] = 0)
                                             \/ (\E j \in 1..Len(docs[c].arefs) : Lookup(docs, docs[c].arefs[j]) = 0)   \* alias definitions
Referrers(docs, d) == {c \in Corrs(docs) : \E k \in 1..Len(docs[c].refs) : RefIds(docs, c)[k] = d}

\* output switch: off once a non-generating correlation rule refers to the document
OutputEnabled(docs, d) == \A c \in Referrers(docs, d) : docs[c].generate
\* referenced both with and without generation: the property does not say which wins
MixedGenerate(docs, d) == \E c1, c2 \in Referrers(docs, d) : docs[c1].generate /\ ~docs[c2].generate

\* transitive references
RECURSIVE Reach(_, _, _)
Reach(docs, c, fuel) ==
    IF fuel = 0 \/ docs[c].kind # "corr" THEN {}
    ELSE LET direct == {RefIds(docs, c)[k] : k \in 1..Len(docs[c].refs)} \ {0}
         IN  direct \cup UNION {Reach(docs, d, fuel - 1) : d \in direct}
Cyclic(docs) == \E c \in Corrs(docs) : c \in Reach(docs, c, Len(docs))

\* ---- ordering ---------------------------------------------------------------
PosIn(s, x) == CHOOSE i \in 1..Len(s) : s[i] = x
RefsFirst(docs, order) ==
    \A c \in Corrs(docs) : \A k \in 1..Len(docs[c].refs) :
        LET t == RefIds(docs, c)[k] IN t # 0 => PosIn(order, t) < PosIn(order, c)
IsPermutationOf(order, n) == Len(order) = n /\ {order[i] : i \in 1..n} = 1..n

\* the ordering the code uses: depth-first along the references, given order otherwise
RECURSIVE Visit(_, _, _, _)
Visit(docs, d, acc, path) ==       \* acc = sequence emitted so far
    IF d = 0 \/ (\E i \in 1..Len(acc) : acc[i] = d) \/ d \in path THEN acc
    ELSE LET RECURSIVE Kids(_, _)
             Kids(k, a) == IF k > Len(docs[d].refs) THEN a
                           ELSE Kids(k + 1, Visit(docs, RefIds(docs, d)[k], a, path \cup {d}))
             a2 == IF docs[d].kind = "corr" THEN Kids(1, acc) ELSE acc
         IN  Append(a2, d)
RECURSIVE DfsFrom(_, _, _, _)
DfsFrom(docs, order, i, acc) ==
    IF i > Len(order) THEN acc ELSE DfsFrom(docs, order, i + 1, Visit(docs, order[i], acc, {}))
DfsOrder(docs, order) == DfsFrom(docs, order, 1, <<>>)

\* the ordering the code used before the repair: sorted() = CPython's binary insertion sort
\* (after the initial run detection) with the partial order "a < b iff b refers to a"
Lt(docs, a, b) == docs[b].kind = "corr" /\ \E k \in 1..Len(docs[b].refs) : RefIds(docs, b)[k] = a
RECURSIVE BinPos(_, _, _, _, _)
BinPos(docs, s, pivot, l, r) ==
    IF l >= r THEN l
    ELSE LET p == l + ((r - l) \div 2) IN
         IF Lt(docs, pivot, s[p + 1]) THEN BinPos(docs, s, pivot, l, p) ELSE BinPos(docs, s, pivot, p + 1, r)
InsertAtPos(s, l, x) == SubSeq(s, 1, l) \o <<x>> \o SubSeq(s, l + 1, Len(s))
RECURSIVE InsSort(_, _, _)
InsSort(docs, sorted, rest) ==
    IF rest = <<>> THEN sorted
    ELSE InsSort(docs, InsertAtPos(sorted, BinPos(docs, sorted, Head(rest), 0, Len(sorted)), Head(rest)), Tail(rest))
RunEnd(docs, s, desc) ==     \* length of the initial run
    LET E == {k \in 2..Len(s) : \A j \in 2..k : IF desc THEN Lt(docs, s[j], s[j - 1]) ELSE ~Lt(docs, s[j], s[j - 1])}
    IN  IF E = {} THEN 1 ELSE CHOOSE k \in E : \A k2 \in E : k >= k2
PartialOrderSort(docs, s) ==
    IF Len(s) < 2 THEN s
    ELSE LET desc == Lt(docs, s[2], s[1])
             n == RunEnd(docs, s, desc)
             run == IF desc THEN Reverse(SubSeq(s, 1, n)) ELSE SubSeq(s, 1, n)
         IN  InsSort(docs, run, SubSeq(s, n + 1, Len(s)))

\* ---- conversion state machine -------------------------------------------------
\* st == [order, pos, has (set of docs with a stored result), emitted (Seq of doc ids), status]
CInit(order) == [order |-> order, pos |-> 1, has |-> {}, emitted |-> <<>>, status |-> "run"]
CStep(docs, st) ==
    IF st.pos > Len(st.order) THEN [st EXCEPT !.status = "done"]
    ELSE LET d == st.order[st.pos] IN
         IF docs[d].kind = "corr" /\ \E k \in 1..Len(docs[d].refs) : RefIds(docs, d)[k] \notin st.has
         THEN [st EXCEPT !.status = "unavailable"]       \* "Conversion result not available"
         ELSE [st EXCEPT !.pos = @ + 1, !.has = @ \cup {d},
                         !.emitted = IF OutputEnabled(docs, d) THEN Append(@, d) ELSE @]
RECURSIVE CRun(_, _)
CRun(docs, st) == IF st.status = "run" THEN CRun(docs, CStep(docs, st)) ELSE st
\* what a conversion of the rule set in load order `order` must produce
Expected(docs, order) == CRun(docs, CInit(DfsOrder(docs, order)))
=============================================================================
