SPECIFICATION Spec
INVARIANT AddIsConcat
INVARIANT LaterVarsOverride
INVARIANT ResolveOrderFree
INVARIANT ResolveSorted
INVARIANT AllBracketings
