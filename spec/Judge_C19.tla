---------------------------- MODULE Judge_C19 ----------------------------
(* Mode C judge for C19: every run (one rule order, one validator order) must report exactly the
   issue set spec/Validation.tla computes from the source collection, and must leave every
   rule's dict form and queries as they were.                                               *)
EXTENDS Validation, Json, IOUtils, TLC
VARIABLE x
Obs == ndJsonDeserialize(IOEnv.VERIF_OBS)
ObsIssues(run) == {[t |-> run.issues[i].t, rules |-> ToSet(run.issues[i].rules), key |-> run.issues[i].key] : i \in 1..Len(run.issues)}
ClauseOf(t) == CASE t = "dangling_detection" -> "UnusedIff" [] t = "dangling_condition" -> "DanglingIff"
                 [] OTHER -> "UniquenessGroupsExact"
RunClause(o, run) ==
    LET V == ToSet(o.V)
        excl == {<<o.excl[i][1], o.excl[i][2]>> : i \in 1..Len(o.excl)}
        want == ExpectedIssues(o.coll, V, excl)
        got == ObsIssues(run)
        diff == (want \ got) \cup (got \ want)
    IN  IF ~run.ok THEN "ValidationRaised"
        ELSE IF ~run.unchanged THEN "ObserveOnly"
        ELSE IF Len(run.issues) # Cardinality(got) THEN "IssuesReportedOnce"
        ELSE IF diff = {} THEN ""
        ELSE LET i == CHOOSE d \in diff : TRUE IN
             IF excl # {} /\ ExpectedIssues(o.coll, V, {}) = got THEN "ExclusionsExact" ELSE ClauseOf(i.t)
Verdict(o) ==
    LET cl == [k \in 1..Len(o.runs) |-> RunClause(o, o.runs[k])]
        bad == {k \in 1..Len(o.runs) : cl[k] # ""}
        same == \A k \in 1..Len(o.runs) : ObsIssues(o.runs[k]) = ObsIssues(o.runs[1])
    IN  IF bad # {} THEN [id |-> o.id, v |-> "violation:" \o cl[CHOOSE k \in bad : \A k2 \in bad : k <= k2], run |-> CHOOSE k \in bad : \A k2 \in bad : k <= k2]
        ELSE IF ~same THEN [id |-> o.id, v |-> "violation:IssuesOrderFree", run |-> 0]
        \* every built-in validator (not only the modelled five): the same issues whatever the order of rules and validators
        ELSE IF \E k \in 1..Len(o.runs) : o.runs[k].allsig # o.runs[1].allsig THEN [id |-> o.id, v |-> "violation:IssuesOrderFree:all-validators", run |-> 0]
        ELSE [id |-> o.id, v |-> "ok", run |-> 0]
ASSUME ndJsonSerialize(IOEnv.VERIF_OUT, [i \in 1..Len(Obs) |-> Verdict(Obs[i])])
Init == x = 0
Next == UNCHANGED x
=============================================================================
