----------------------------- MODULE Gen_C06 -----------------------------
(* Mode B generator for C06: (1) every detection body of the rule library with one and two
   conditions; (2) a sweep of string values (all texts <= 3 over the escaping alphabet) under
   several modifier chains; (3) every body after each transformation list of the C12 library
   (the object a pipeline has changed).  Correlation rules, filters and metadata-rich rules are
   added by the driver from the base documents of spec/LoaderDocs.tla.                         *)
EXTENDS Transform, RuleItems, Json, IOUtils, Randomization, TLC
VARIABLE x
Quick == IOEnv.VERIF_TIER = "quick"
Shard == atoi(IOEnv.VERIF_SHARD)
NShards == atoi(IOEnv.VERIF_NSHARDS)
MapBody(is) == [kind |-> "map", items |-> [k \in 1..Len(is) |-> Items[is[k]]], maps |-> <<>>, vals |-> <<>>]
MapsBody(ms) == [kind |-> "maps", items |-> <<>>,
                 maps |-> [k \in 1..Len(ms) |-> [j \in 1..Len(ms[k]) |-> Items[ms[k][j]]]], vals |-> <<>>]
KwBody(k) == [kind |-> "kw", items |-> <<>>, maps |-> <<>>, vals |-> KwLists[k]]
Pool == [i \in 1..Len(Items) |-> MapBody(<<i>>)] \o
        <<MapBody(<<1, 5>>), MapBody(<<2, 3>>), MapBody(<<1, 3, 7>>), MapBody(<<2, 19, 22>>), MapBody(<<11, 38>>),
          MapsBody(<<<<1>>, <<5, 7>>>>), MapsBody(<<<<19>>, <<2>>>>), KwBody(1), KwBody(3), KwBody(4)>>
N_sel1 == <<115, 101, 108, 49>>
C_notsel1 == S_not \o <<32>> \o N_sel1
Doc(body, conds) == [dets |-> <<[name |-> N_sel1, body |-> body]>>, conds |-> conds]
Alpha == {92, 42, 63, 34, 97, 32}
Chains == {<<>>, <<N_contains>>, <<N_startswith>>, <<N_cased>>, <<N_base64>>, <<N_endswith, N_all>>}
F == <<102>>
ValBody(s, ch) == [kind |-> "map", items |-> <<[field |-> F, chain |-> ch, vals |-> <<SS(s)>>, single |-> TRUE]>>, maps |-> <<>>, vals |-> <<>>]
All == [mode |-> "all", names |-> <<>>]
T(type, m, s1, s2, flag, scope) == [type |-> type, m |-> m, s1 |-> s1, s2 |-> s2, flag |-> flag, scope |-> scope, sub |-> <<>>]
fA == <<102,65>> x1 == <<120,49>> x2 == <<120,50>>
TLists == {<<T("fmap", <<(<<fA, <<x1>>>>)>>, <<>>, <<>>, FALSE, All)>>,
           <<T("fmap", <<(<<fA, <<x1, x2>>>>)>>, <<>>, <<>>, FALSE, All)>>,
           <<T("fmap", <<(<<(<<>>), <<x1>>>>)>>, <<>>, <<>>, FALSE, All)>>,
           <<T("fsuffix", <<>>, <<46,115>>, <<>>, FALSE, All)>>,
           <<T("replace", <<>>, <<120>>, <<121,121>>, FALSE, All)>>,
           <<T("replace", <<>>, <<90,90,90>>, <<113>>, FALSE, All)>>,
           <<T("mapstr", <<(<<(<<120>>), <<(<<109,49>>), (<<109,50>>)>>>>)>>, <<>>, <<>>, FALSE, All)>>,
           <<T("case", <<>>, <<>>, <<>>, TRUE, All)>>,
           <<T("setvalue", <<>>, <<>>, <<115,118>>, FALSE, All)>>,
           <<T("addcond", <<>>, <<105,100,120>>, <<109,97,105,110>>, FALSE, All)>>,
           <<T("drop", <<>>, <<>>, <<>>, FALSE, [mode |-> "include", names |-> <<(<<102,66>>)>>])>>,
           \* transformations that change the TYPE or the SHAPE of what an item holds
           <<T("regex", <<>>, <<112,108,97,105,110>>, <<>>, FALSE, All)>>,                                          \* regex: plain
           <<T("regex", <<>>, <<105,103,110,111,114,101,95,99,97,115,101,95,98,114,97,99,107,101,116,115>>, <<>>, FALSE, All)>>,   \* ignore_case_brackets
           <<T("regex", <<>>, <<105,103,110,111,114,101,95,99,97,115,101,95,102,108,97,103>>, <<>>, FALSE, All)>>,          \* ignore_case_flag
           <<T("hashes", <<(<<(<<77,68,53>>), <<>>>>), (<<(<<83,72,65,49>>), <<>>>>)>>, <<70,105,108,101>>, <<>>, FALSE, All)>>,
           <<T("fmap", <<(<<fA, <<x1>>>>), (<<(<<102,76>>), <<x1>>>>), (<<(<<103,56>>), <<x2>>>>), (<<(<<102,68>>), <<x2>>>>)>>, <<>>, <<>>, TRUE, All)>>,     \* one-element target lists (fA and fD of ONE map among them)
           <<T("fmap", <<(<<(<<102,82>>), <<x1>>>>), (<<(<<102,90>>), <<x1>>>>), (<<fA, <<(<<102,66>>)>>>>)>>, <<>>, <<>>, FALSE, All)>>,  \* two fields onto one name
           \* keywords and referenced fields mapped onto ONE-ELEMENT target lists / plain targets (the values change, not only the field)
           <<T("fmap", <<(<<(<<>>), <<x1>>>>)>>, <<>>, <<>>, TRUE, All)>>,
           <<T("fmap", <<(<<(<<111,116,104,101,114>>), <<x1>>>>), (<<(<<103>>), <<x2>>>>)>>, <<>>, <<>>, TRUE, All)>>,
           <<T("fmap", <<(<<(<<111,116,104,101,114>>), <<x1>>>>), (<<(<<103>>), <<x2>>>>)>>, <<>>, <<>>, FALSE, All)>>}
Cases == {[kind |-> "rule", doc |-> Doc(Pool[a], c), Ts |-> <<>>] : a \in 1..Len(Pool), c \in {<<N_sel1>>, <<N_sel1, C_notsel1>>}}
         \cup {[kind |-> "rule", doc |-> Doc(ValBody(s, ch), <<N_sel1>>), Ts |-> <<>>] :
                 s \in SeqsUpTo(Alpha, IF Quick THEN 3 ELSE 4), ch \in Chains}
         \cup {[kind |-> "transformed", doc |-> Doc(Pool[a], <<N_sel1>>), Ts |-> ts] : a \in 1..Len(Pool), ts \in TLists}
ASSUME LET A == SetToSeq(Cases)
           mine == SelectSeq([i \in 1..Len(A) |-> [id |-> i] @@ A[i]], LAMBDA c : c.id % NShards = Shard)
       IN  ndJsonSerialize(IOEnv.VERIF_OUT, mine)
Init == x = 0
Next == UNCHANGED x
=============================================================================
