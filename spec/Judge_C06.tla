---------------------------- MODULE Judge_C06 ----------------------------
(* Mode C judge for C06.  An observation is the trace
      Load(doc) [; Apply(pipeline)] ; Convert -> q1 ; ToDict -> d1 | SigmaError ;
      Reload(d1) ; ToDict -> d2 ; Convert -> q2 ; YamlRoundTrip(d1) -> d3
   The object is IN SYNC until a pipeline rewrites it; out of sync, ToDict may only fail with
   a Sigma error or yield a dict whose reload converts to the same meaning.                  *)
EXTENDS Detection, Json, IOUtils, TLC
VARIABLE x
Obs == ndJsonDeserialize(IOEnv.VERIF_OBS)
C(name) == [dev |-> FALSE, name |-> name]
D(name) == [dev |-> TRUE, name |-> name]
PREC == <<"not", "and", "or">>
\* recorded deviation (C05): a plain backslash directly before a wildcard, a plain '*' '?' or another
\* backslash does not survive the plain form the dict is written in
ItemsOfBody(body) == CASE body.kind = "map" -> body.items
                       [] body.kind = "maps" -> Concat(body.maps)
                       [] OTHER -> <<[field |-> <<>>, chain |-> <<>>, vals |-> body.vals, single |-> FALSE]>>
Fragile(doc) ==
    \E d \in 1..Len(doc.dets) : LET its == ItemsOfBody(doc.dets[d].body) IN
        \E k \in 1..Len(its) : \E j \in 1..Len(its[k].vals) : its[k].vals[j].t = "s" /\
            LET p == ParseStr(its[k].vals[j].s) IN \E i \in 1..(Len(p) - 1) : p[i] = CH_BSL /\ NeedsGuard(p[i + 1])
\* documents that do not come as item trees (harvested from the repository's tests): the strings of their detections
FragileStrs(o) == \E k \in 1..Len(o.strs) : LET p == ParseStr(o.strs[k]) IN \E i \in 1..(Len(p) - 1) : p[i] = CH_BSL /\ NeedsGuard(p[i + 1])
SameMeaning(qs1, qs2) ==
    /\ Len(qs1) = Len(qs2)
    /\ \A i \in 1..Len(qs1) :
          \/ qs1[i] = qs2[i]
          \/ LET a == ParseQuery(qs1[i], PREC) b == ParseQuery(qs2[i], PREC) IN a.ok /\ b.ok /\ QEquiv(a.e, b.e)
\* metadata as printed by a converting backend (o.m1 before, o.m2 after the round trip): <<attribute, text>> pairs
MetaDiff(o) == {i \in 1..Len(o.m1.out) : i > Len(o.m2.out) \/ o.m2.out[i] # o.m1.out[i]}
\* recorded deviation: the taxonomy is not written (the repository's tests pin a dict form without it); the reloaded
\* rule has the default taxonomy
TaxonomyOnly(o) == \A i \in MetaDiff(o) : o.m1.out[i][1] = "taxonomy" /\ i <= Len(o.m2.out) /\ o.m2.out[i][2] = <<115, 105, 103, 109, 97>>
Clauses(o) ==
    IF ~o.load.ok THEN <<>>                                       \* not a loadable document: C07's business
    ELSE IF ~o.q1.ok THEN <<>>                                    \* does not convert even before serialising
    ELSE IF ~o.d1.ok THEN
        (IF ~o.d1.sigma THEN <<C("NonSigmaException:to_dict")>>
         ELSE IF o.kind = "transformed" THEN <<>>                 \* fails rather than lies
         ELSE <<C("SerialisationOfLoadedObjectFails")>>)
    \* (the misread value may no longer be admissible for the modifier chain - a wildcard under base64 -
    \*  in which case the recorded deviation shows as a Sigma error on reload)
    ELSE IF ~o.reload.ok THEN (IF o.reload.sigma /\ (Fragile(o.doc) \/ FragileStrs(o)) THEN <<D("Dev_PlainBackslashBeforeSpecial")>> ELSE <<C("DictNotLoadable")>>)
    ELSE IF ~o.d2.ok \/ o.d2.out # o.d1.out THEN (IF (Fragile(o.doc) \/ FragileStrs(o)) THEN <<D("Dev_PlainBackslashBeforeSpecial")>> ELSE <<C("DictStable")>>)
    ELSE IF ~o.d3.ok \/ o.d3.out # o.d1.out THEN <<C("DictStable:yaml")>>
    ELSE IF ~o.q2.ok THEN <<C("QueriesStable:reloaded-rule-fails")>>
    ELSE IF SameMeaning(o.q1.out, o.q2.out) THEN
        (IF ~o.m1.ok THEN <<>>
         ELSE IF ~o.m2.ok THEN <<C("MetadataStable:reloaded-rule-fails")>>
         ELSE IF MetaDiff(o) = {} THEN <<>>
         ELSE IF TaxonomyOnly(o) THEN <<D("Dev_TaxonomyNotWritten")>>
         ELSE LET i == CHOOSE j \in MetaDiff(o) : o.m1.out[j][1] # "taxonomy" IN <<C("MetadataStable:" \o o.m1.out[i][1])>>)
    ELSE IF (Fragile(o.doc) \/ FragileStrs(o)) THEN <<D("Dev_PlainBackslashBeforeSpecial")>>
    ELSE IF o.kind = "transformed" THEN <<C("FailsRatherThanLies")>>
    ELSE <<C("QueriesStable")>>
Verdict(o) ==
    LET cs == Clauses(o)
        viol == SelectSeq(cs, LAMBDA c : ~c.dev)
    IN  [id |-> o.id,
         v |-> IF viol # <<>> THEN "violation:" \o viol[1].name
               ELSE IF cs # <<>> THEN "dev:" \o cs[1].name ELSE "ok"]
ASSUME ndJsonSerialize(IOEnv.VERIF_OUT, [i \in 1..Len(Obs) |-> Verdict(Obs[i])])
Init == x = 0
Next == UNCHANGED x
=============================================================================
