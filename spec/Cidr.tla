------------------------------- MODULE Cidr -------------------------------
(***************************************************************************)
(* CIDR networks and their expansion into wildcard patterns.               *)
(*                                                                         *)
(* IPv4: an address is 4 octets; a network (net, p) is a product of octet  *)
(* intervals; a pattern "a.b.*" denotes the block of all addresses with    *)
(* that octet prefix.  ExactCover decides, by octet arithmetic only (no    *)
(* 32-bit numbers, no sampling), whether a set of blocks covers exactly    *)
(* the network with pairwise disjoint blocks.                              *)
(* IPv6: 8 groups of 16 bits, RFC 5952 canonical text, corner addresses of *)
(* a network, and a transcription of the text-prefix algorithm the code    *)
(* uses today (for the recorded deviation).                                *)
(***************************************************************************)
EXTENDS Text

RECURSIVE Pow2c(_)
Pow2c(n) == IF n = 0 THEN 1 ELSE 2 * Pow2c(n - 1)

\* ---- IPv4 ---------------------------------------------------------------
FULL == [lo |-> 0, hi |-> 255]
\* mask an address (octets) to prefix length p
MaskV4(a, p) == [i \in 1..4 |->
    IF 8 * i <= p THEN a[i]
    ELSE IF 8 * (i - 1) >= p THEN 0
    ELSE LET hb == 8 * i - p IN (a[i] \div Pow2c(hb)) * Pow2c(hb)]
V4Intervals(net, p) == [i \in 1..4 |->
    IF 8 * i <= p THEN [lo |-> net[i], hi |-> net[i]]
    ELSE IF 8 * (i - 1) >= p THEN FULL
    ELSE [lo |-> net[i], hi |-> net[i] + Pow2c(8 * i - p) - 1]]

IsPrefixOf(q, b) == Len(q) <= Len(b) /\ \A i \in 1..Len(q) : q[i] = b[i]

\* how the subspace of addresses starting with octets q relates to the network
Rel(q, I) ==
    IF \E i \in 1..Len(q) : q[i] < I[i].lo \/ q[i] > I[i].hi THEN "out"
    ELSE IF \A i \in (Len(q) + 1)..4 : I[i] = FULL THEN "in" ELSE "part"

RECURSIVE CoverOK(_, _, _)
CoverOK(q, B, I) ==
    LET r == Rel(q, I) IN
    IF r = "out" THEN \A b \in B : ~IsPrefixOf(q, b)                 \* nothing matched outside
    ELSE IF q \in B THEN r = "in" /\ \A b \in B \ {q} : ~IsPrefixOf(q, b)
    ELSE IF Len(q) = 4 THEN FALSE                                     \* an address of the network is missing
    ELSE \A v \in 0..255 : CoverOK(q \o <<v>>, B, I)
ExactCover(B, net, p) == CoverOK(<<>>, B, V4Intervals(net, p))
Overlapping(Bseq) ==
    \E i, j \in 1..Len(Bseq) : i # j /\ IsPrefixOf(Bseq[i], Bseq[j])

\* the octet-aligned cover (one witness that an exact cover exists)
RefV4Blocks(net, p) ==
    LET k == p \div 8 IN
    IF p % 8 = 0 THEN {Take(net, k)}
    ELSE {Take(net, k) \o <<v>> : v \in net[k + 1]..(net[k + 1] + Pow2c(8 - (p % 8)) - 1)}

\* pattern text "a.b.*" / "*" / "a.b.c.d"  ->  [ok, q]
RECURSIVE DecVal(_)
DecVal(t) == IF t = <<>> THEN 0 ELSE DecVal(Take(t, Len(t) - 1)) * 10 + (t[Len(t)] - 48)
IsOctetText(t) == /\ Len(t) \in 1..3 /\ \A i \in 1..Len(t) : IsDigit(t[i])
                  /\ (Len(t) > 1 => t[1] # 48) /\ DecVal(t) <= 255
ParseV4Pattern(t) ==
    LET ps == SplitAt(t, 46)
        n == Len(ps)
        wild == ps[n] = <<CH_STAR>>
        octs == IF wild THEN Take(ps, n - 1) ELSE ps
    IN  IF /\ \A i \in 1..Len(octs) : IsOctetText(octs[i])
           /\ (wild => Len(octs) <= 3) /\ (~wild => Len(octs) = 4)
        THEN [ok |-> TRUE, q |-> [i \in 1..Len(octs) |-> DecVal(octs[i])]]
        ELSE [ok |-> FALSE, q |-> <<>>]
V4Text(a) == Join([i \in 1..4 |-> NatText(a[i])], <<46>>)
V4MaskOctets(p) == MaskV4(<<255, 255, 255, 255>>, p)

\* ---- IPv6 ---------------------------------------------------------------
HexDigit(d) == IF d < 10 THEN 48 + d ELSE 87 + d
RECURSIVE HexText(_)
HexText(n) == IF n < 16 THEN <<HexDigit(n)>> ELSE HexText(n \div 16) \o <<HexDigit(n % 16)>>

\* RFC 5952: the longest run of >= 2 zero groups is compressed, leftmost on a tie
ZeroRunFrom(g, i) ==      \* length of the zero run starting at group i
    LET Z == {j \in i..8 : \A k \in i..j : g[k] = 0}
    IN  Cardinality(Z)
Canonical(g) ==
    LET best == CHOOSE i \in 1..8 :
                  \A j \in 1..8 : ZeroRunFrom(g, i) > ZeroRunFrom(g, j) \/ (ZeroRunFrom(g, i) = ZeroRunFrom(g, j) /\ i <= j)
        len == ZeroRunFrom(g, best)
        txt(a, b) == Join([i \in 1..(b - a + 1) |-> HexText(g[a + i - 1])], <<58>>)
    IN  IF len < 2 THEN txt(1, 8)
        ELSE txt(1, best - 1) \o <<58, 58>> \o txt(best + len, 8)
FullV6(g) == Join([i \in 1..8 |-> HexText(g[i])], <<58>>)

MaskV6(a, p) == [i \in 1..8 |->
    IF 16 * i <= p THEN a[i]
    ELSE IF 16 * (i - 1) >= p THEN 0
    ELSE LET hb == 16 * i - p IN (a[i] \div Pow2c(hb)) * Pow2c(hb)]
\* highest address of the network
LastV6(net, p) == [i \in 1..8 |->
    IF 16 * i <= p THEN net[i]
    ELSE IF 16 * (i - 1) >= p THEN 65535
    ELSE net[i] + Pow2c(16 * i - p) - 1]
HostBitsIn(i, p) == IF 16 * i <= p THEN 0 ELSE IF 16 * (i - 1) >= p THEN 16 ELSE 16 * i - p

\* corner addresses of a network: host groups filled from a family of patterns that
\* put zero runs / single non-zero groups in every position
HostFill(kind, j, i, hb) ==      \* value added to group i (hb host bits) for filling `kind` with parameter j
    LET max == Pow2c(hb) - 1 IN
    CASE kind = "zeros" -> 0
      [] kind = "ones" -> max
      [] kind = "one1" -> (IF i = j THEN 1 ELSE 0)
      [] kind = "oneMax" -> (IF i = j THEN max ELSE 0)
      [] kind = "hole" -> (IF i = j THEN 0 ELSE max)
      [] kind = "alt" -> (IF (i + j) % 2 = 0 THEN 1 ELSE 0)
      [] kind = "top" -> (IF i = j THEN Pow2c(hb - 1) ELSE 0)
Corners(net, p) ==
    LET H == {i \in 1..8 : HostBitsIn(i, p) > 0}
        fill(kind, j) == [i \in 1..8 |-> IF i \in H THEN net[i] + HostFill(kind, j, i, HostBitsIn(i, p)) ELSE net[i]]
    IN  {fill("zeros", 0), fill("ones", 0), fill("alt", 0), fill("alt", 1)}
        \cup {fill(k, j) : k \in {"one1", "oneMax", "hole", "top"}, j \in H}

PatParts(t) == [i \in 1..Len(t) |-> IF t[i] = CH_STAR THEN STAR ELSE t[i]]
V6Covered(pats, addr) == \E i \in 1..Len(pats) : WildMatch(PatParts(pats[i]), Canonical(addr))

\* Transcription of the algorithm in the code today (for the recorded deviation only):
\* split to the next nibble boundary; per subnet the common text prefix of its first and
\* last address + '*', or the bare first address if it is a text prefix of the last.
TextPrefixPatterns(net, p) ==
    LET p2 == p + ((4 - (p % 4)) % 4)
        n == Pow2c(p2 - p)
        gi == IF p2 = 0 THEN 1 ELSE ((p2 - 1) \div 16) + 1
        w == IF p2 = 0 THEN 0 ELSE Pow2c(15 - ((p2 - 1) % 16))
        sub(j) == [net EXCEPT ![gi] = @ + j * w]
        pat(j) ==
            LET first == Canonical(sub(j))
                last == Canonical(LastV6(sub(j), p2))
                D == {i \in 1..Len(first) : i > Len(last) \/ first[i] # last[i]}
            IN  IF D = {} THEN first
                ELSE Take(first, (CHOOSE i \in D : \A i2 \in D : i <= i2) - 1) \o <<CH_STAR>>
    IN  [j \in 1..n |-> pat(j - 1)]
=============================================================================
