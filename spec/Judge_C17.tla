---------------------------- MODULE Judge_C17 ----------------------------
(* Mode C judge for C17: the converted query must mean the rule with every handled placeholder
   replaced as configured (all combinations, OR-linked), or conversion must fail with a Sigma
   error naming an unresolved placeholder; no query may contain a raw %name%.              *)
EXTENDS Placeholders, Json, IOUtils, TLC
VARIABLE x
Obs == ndJsonDeserialize(IOEnv.VERIF_OBS)
C(name) == [dev |-> FALSE, name |-> name]
D(name) == [dev |-> TRUE, name |-> name]
PREC == <<"not", "and", "or">>

\* everything about the (single) item of the case
Analyse(o) ==
    LET item == o.doc.dets[1].body.items[1]
        r == Apply(item.vals, item.chain, item.field # <<>>)
        rw == IF r.status = "ok" THEN PipeOnValues(o.pipe, o.vars, r.vals, 1) ELSE [st |-> "unspec", vals |-> <<>>]
        names == IF r.status = "ok" THEN UNION {LeftOver(r.vals[k]) : k \in 1..Len(r.vals)} ELSE {}
        left == IF rw.st = "ok" THEN UNION {LeftOver(rw.vals[k]) : k \in 1..Len(rw.vals)} ELSE {}
        \* the names the expand modifier finds in the values AS WRITTEN: whatever the rest of the chain makes of the value
        \* (also where that is not defined), none of them may be emitted as text
        written == IF \E k \in 1..Len(item.chain) : item.chain[k] = N_expand
                   THEN UNION {LET ph == ExpandFrom(item.vals[k].s, 1).phs IN {ph[j] : j \in 1..Len(ph)}
                               : k \in {j \in 1..Len(item.vals) : item.vals[j].t = "s"}}
                   ELSE {}
    IN  [modst |-> r.status, rwst |-> rw.st, names |-> names \cup written, left |-> left]

RawPH(n) == <<CH_PCT>> \o n \o <<CH_PCT>>
Lit(p) == SelectSeq(p, LAMBDA c : c >= 0)
NoRaw(e, names) == \A a \in QAtoms(e) : \A n \in names :
                      ~IsSubstr(RawPH(n), IF a.k \in {"str", "cased"} THEN Lit(a.p) ELSE a.p)

FlattenAnd(e) == QAnd(Concat([j \in 1..Len(e.args) |-> IF e.args[j].k = "or" THEN e.args[j].args ELSE <<e.args[j]>>]))

Clauses(o) ==
    LET an == Analyse(o)
        want == RuleDenX(o.doc, 1, FALSE, LAMBDA f, v : PipeOnValues(o.pipe, o.vars, <<v>>, 1))
    IN
    IF ~o.ret.ok /\ ~o.ret.sigma THEN <<C("NonSigmaException")>>
    ELSE IF an.modst # "ok" \/ an.rwst = "unspec" \/ want.st = "unspec" THEN
        \* outcome not defined by the documents: but even then no raw placeholder may be emitted
        (IF o.ret.ok /\ \E i \in 1..Len(o.ret.out) :
                LET g == ParseQuery(o.ret.out[i], PREC) IN g.ok /\ ~NoRaw(g.e, an.names)
         THEN <<C("NoRawPlaceholder")>> ELSE <<D("__unspec")>>)
    ELSE IF an.rwst = "fail" THEN (IF o.ret.ok THEN <<C("BadVariableTableAccepted")>> ELSE <<>>)
    ELSE IF an.left # {} THEN
        (IF o.ret.ok THEN
            (LET g == ParseQuery(o.ret.out[1], PREC) IN
             IF g.ok /\ ~NoRaw(g.e, an.names) THEN <<C("NoRawPlaceholder")>> ELSE <<C("UnresolvedPlaceholderConverted")>>)
         ELSE IF ~\E n \in an.left : IsSubstr(n, o.ret.msg) THEN <<C("ErrorNamesPlaceholder")>>
         ELSE <<>>)
    ELSE IF ~o.ret.ok THEN <<C("ResolvedRuleRejected")>>
    ELSE IF Len(o.ret.out) # 1 THEN <<C("OneQueryPerCondition")>>
    ELSE LET g == ParseQuery(o.ret.out[1], PREC) IN
         IF ~g.ok THEN <<C("QueryUnreadable")>>
         ELSE IF ~NoRaw(g.e, an.names) THEN <<C("NoRawPlaceholder")>>
         ELSE IF QEquiv(want.e, g.e) THEN <<>>
         \* recorded deviation: under `all` the replacements of ONE value are spliced into the AND-linked
         \* value list instead of staying an OR group
         ELSE IF want.e.k = "and" /\ QEquiv(FlattenAnd(want.e), g.e) THEN <<D("Dev_AllLinksPlaceholderAlternatives")>>
         ELSE <<C("AllCombinationsInOrder")>>

Verdict(o) ==
    LET cs == Clauses(o)
        viol == SelectSeq(cs, LAMBDA c : ~c.dev)
    IN  [id |-> o.id,
         v |-> IF viol # <<>> THEN "violation:" \o viol[1].name
               ELSE IF cs # <<>> THEN (IF cs[1].name = "__unspec" THEN "unspec" ELSE "dev:" \o cs[1].name) ELSE "ok"]
ASSUME ndJsonSerialize(IOEnv.VERIF_OUT, [i \in 1..Len(Obs) |-> Verdict(Obs[i])])
Init == x = 0
Next == UNCHANGED x
=============================================================================
