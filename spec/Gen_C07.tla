----------------------------- MODULE Gen_C07 -----------------------------
(* Mode B generator for C07: every base document (rule, correlation, extended correlation,
   filter) mutated at EVERY path: the value replaced by a scalar / list / map of another type,
   by out-of-range texts, the entry deleted, the key replaced (also by non-string keys); plus
   seeded random nested data as whole documents.  Shard = base document (5 = random data,
   6 = collection actions: global / repeat documents merged with the rule).   *)
EXTENDS Loader, LoaderDocs, Json, IOUtils, Randomization, TLC
VARIABLE x
Quick == IOEnv.VERIF_TIER = "quick"
Shard == atoi(IOEnv.VERIF_SHARD)
T_x == <<120>> T_a == <<97>>
Replacements == {NStr(T_x), NStr(<<>>), NInt(5), NInt(0 - 1), NFloat(3, 2), NBool(TRUE), NNull, NList(<<>>), NList(<<NInt(1)>>),
                 NList(<<NStr(T_x), NNull>>), NMap(<<>>), NMap(<<(<<T_a, NInt(1)>>)>>), NMap(<<(<<T_a, NMap(<<>>)>>)>>),
                 NStr(<<50,48,50,52,45,49,51,45,52,53>>),      \* 2024-13-45
                 NStr(<<53,120>>), NStr(<<48,109>>),           \* 5x  0m
                 NStr(<<42>>), NStr(<<97,32,111,114>>),        \* *   "a or"
                 NFloat(1, 0), NFloat(0, 0),                   \* .inf  .nan  (denominator 0 marks the special floats)
                 NList(<<NList(<<NStr(T_x)>>)>>), NList(<<NMap(<<>>), NInt(2)>>),     \* nested list, list of map and number
                 NInt(2147483647),
                 \* a condition text nested twenty parentheses deep (valid by the grammar, deep for a recursive parser)
                 NStr([i \in 1..41 |-> IF i <= 20 THEN 40 ELSE IF i = 21 THEN 120 ELSE 41]),
                 \* well-formed texts of days that do not exist
                 NStr(<<50,48,50,51,45,48,50,45,51,48>>), NStr(<<50,48,50,51,47,54,47,51,49>>), NStr(<<50,49,48,48,45,48,50,45,50,57>>)}     \* 2023-02-30  2023/6/31  2100-02-29
\* key markers understood by the driver: \x01i = integer 5, \x01b = true, \x01n = null
\* ... and keys named like parameters of the loading functions themselves: source, custom_attributes, self
Keys == {T_x, <<>>, <<1, 105>>, <<1, 98>>, <<1, 110>>, <<120, 124, 122, 122>>,
         <<115, 111, 117, 114, 99, 101>>, <<99, 117, 115, 116, 111, 109, 95, 97, 116, 116, 114, 105, 98, 117, 116, 101, 115>>, <<115, 101, 108, 102>>}
Base == CASE Shard = 1 -> BaseRule [] Shard = 2 -> BaseCorr [] Shard = 3 -> BaseCorrExt [] OTHER -> BaseFilter
Kind == CASE Shard = 1 -> "rule" [] Shard \in {2, 3} -> "corr" [] OTHER -> "filter"
IsEntry(p) == p # <<>> /\ p[Len(p)][1] = "k"
Mutants ==
    {[kind |-> Kind, mut |-> "replace", doc |-> Replace(Base, p, v)] : p \in Paths(Base) \ {<<>>}, v \in Replacements}
    \cup {[kind |-> Kind, mut |-> "delete", doc |-> Delete(Base, p)] : p \in Paths(Base) \ {<<>>}}
    \cup {[kind |-> Kind, mut |-> "rekey", doc |-> Rekey(Base, p, k)] : p \in {q \in Paths(Base) : IsEntry(q)}, k \in Keys}
    \cup {[kind |-> Kind, mut |-> "root", doc |-> v] : v \in Replacements}
    \cup {[kind |-> Kind, mut |-> "none", doc |-> Base]}
\* collection actions: the base rule (mutated at every path) loaded AFTER a global action document
\* whose entries it is merged with, and a mutated global / repeat document around the valid base rule
GKeys == {<<100,101,116,101,99,116,105,111,110>>, <<108,111,103,115,111,117,114,99,101>>, <<116,97,103,115>>, <<108,101,118,101,108>>}
UnderGKeys == {q \in Paths(BaseRule) : Len(q) \in 1..2 /\ q[1][1] = "k" /\ BaseRule.kv[q[1][2]][1] \in GKeys}
ActionMutants ==
    {[kind |-> "global+rule", mut |-> "replace", doc |-> Replace(BaseRule, p, v)] :
        p \in UnderGKeys, v \in Replacements}
    \cup {[kind |-> "global+rule", mut |-> "delete", doc |-> Delete(BaseRule, p)] :
        p \in UnderGKeys}
    \cup {[kind |-> k, mut |-> "replace", doc |-> Replace(BaseGlobal, p, v)] :
        k \in {"global*+rule", "rule+repeat*"}, p \in Paths(BaseGlobal) \ {<<>>}, v \in Replacements}
    \cup {[kind |-> k, mut |-> "root", doc |-> v] : k \in {"global*+rule", "rule+repeat*"}, v \in Replacements}
    \cup {[kind |-> k, mut |-> "none", doc |-> BaseGlobal] : k \in {"global*+rule", "rule+repeat*"}}
    \* documents that meet other documents of the collection AFTER parsing: a mutated rule that a valid
    \* correlation rule refers to, a mutated correlation rule next to the rule it refers to (references are resolved), a mutated filter next to the rule it targets
    \* (the filter is applied)
    \cup {[kind |-> "rule*+corr", mut |-> "replace", doc |-> Replace(BaseRule, p, v)] : p \in Paths(BaseRule) \ {<<>>}, v \in Replacements}
    \cup {[kind |-> "rule*+corr", mut |-> "delete", doc |-> Delete(BaseRule, p)] : p \in Paths(BaseRule) \ {<<>>}}
    \cup {[kind |-> "rule*+corr", mut |-> "rekey", doc |-> Rekey(BaseRule, p, k)] : p \in {q \in Paths(BaseRule) : IsEntry(q)}, k \in Keys}
    \cup {[kind |-> "rule+corr*", mut |-> "replace", doc |-> Replace(BaseCorr, p, v)] : p \in Paths(BaseCorr) \ {<<>>}, v \in Replacements}
    \cup {[kind |-> "rule+corr*", mut |-> "delete", doc |-> Delete(BaseCorr, p)] : p \in Paths(BaseCorr) \ {<<>>}}
    \cup {[kind |-> "rule+corr*", mut |-> "rekey", doc |-> Rekey(BaseCorr, p, k)] : p \in {q \in Paths(BaseCorr) : IsEntry(q)}, k \in Keys}
    \cup {[kind |-> "rule+filter*", mut |-> "replace", doc |-> Replace(BaseFilter, p, v)] : p \in Paths(BaseFilter) \ {<<>>}, v \in Replacements}
    \cup {[kind |-> "rule+filter*", mut |-> "delete", doc |-> Delete(BaseFilter, p)] : p \in Paths(BaseFilter) \ {<<>>}}
    \cup {[kind |-> "rule+filter*", mut |-> "rekey", doc |-> Rekey(BaseFilter, p, k)] : p \in {q \in Paths(BaseFilter) : IsEntry(q)}, k \in Keys}
\* random nested data
RECURSIVE RandNode(_)
RandNode(depth) ==
    LET k == RandomElement(IF depth = 0 THEN 1..6 ELSE 1..9) IN
    CASE k = 1 -> NStr(RandomElement({T_x, <<>>, <<116,105,116,108,101>>}))
      [] k = 2 -> NInt(RandomElement({0, 1, 0 - 7}))
      [] k = 3 -> NBool(RandomElement(BOOLEAN))
      [] k = 4 -> NNull
      [] k = 5 -> NFloat(1, 2)
      [] k = 6 -> NList(<<>>)
      [] k = 7 -> NList([i \in 1..RandomElement(1..3) |-> RandNode(depth - 1)])
      [] OTHER -> NMap([i \in 1..RandomElement(1..3) |->
                    <<RandomElement({<<116,105,116,108,101>>, <<100,101,116,101,99,116,105,111,110>>, <<108,111,103,115,111,117,114,99,101>>,
                                     <<99,111,114,114,101,108,97,116,105,111,110>>, <<102,105,108,116,101,114>>, <<99,111,110,100,105,116,105,111,110>>,
                                     <<105,100>>, T_x}) \o <<48 + i>> , RandNode(depth - 1)>>])
Randoms == {[kind |-> RandomElement({"rule", "corr", "filter"}), mut |-> "random", doc |-> RandNode(3)] : j \in 1..(IF Quick THEN 300 ELSE 5000)}
ASSUME LET S == SetToSeq(IF Shard = 5 THEN Randoms ELSE IF Shard = 6 THEN ActionMutants ELSE Mutants)
       IN  ndJsonSerialize(IOEnv.VERIF_OUT, [i \in 1..Len(S) |-> [id |-> Shard * 1000000 + i] @@ S[i]])
Init == x = 0
Next == UNCHANGED x
=============================================================================
