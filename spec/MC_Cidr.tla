------------------------------ MODULE MC_Cidr ------------------------------
(* Mode A for CIDR.  The prefix length is stepped 0..32 (one transition each) over several
   base addresses.  Decided on the design: the octet-aligned block set is an exact,
   pairwise disjoint cover of every IPv4 network (so demanding exactness is satisfiable);
   ExactCover rejects a cover with a block removed, added outside or duplicated
   (non-vacuity); for /24../32 ExactCover agrees with brute-force enumeration of the last
   octet; RFC 5952 vectors; and the text-prefix algorithm for IPv6 is NOT sound (witness). *)
EXTENDS Cidr, TLC
VARIABLES base, p
Bases == {<<0, 0, 0, 0>>, <<255, 255, 255, 255>>, <<10, 1, 2, 3>>, <<192, 168, 129, 77>>, <<127, 128, 63, 64>>}
Init == base \in Bases /\ p = 0
Next == p < 32 /\ p' = p + 1 /\ UNCHANGED base
net == MaskV4(base, p)
B == RefV4Blocks(net, p)

RefIsExact == ExactCover(B, net, p)
Some(S) == {CHOOSE b \in S : \A c \in S : b[Len(b)] <= c[Len(c)], CHOOSE b \in S : \A c \in S : b[Len(b)] >= c[Len(c)]}
DetectsMissing == p > 0 => \A b \in Some(B) : ~ExactCover(B \ {b}, net, p)
DetectsOutside ==
    LET I == V4Intervals(net, p)
        k == p \div 8
    IN  (p > 0 /\ p % 8 # 0) =>
          LET v == IF net[k + 1] > 0 THEN net[k + 1] - 1 ELSE I[k + 1].hi + 1
          IN  v \in 0..255 => ~ExactCover(B \cup {Take(net, k) \o <<v>>}, net, p)
DetectsOverlap == (p > 0 /\ p < 32) => \A b \in Some(B) : Len(b) < 4 => ~ExactCover(B \cup {b \o <<7>>}, net, p)
BruteForce == p >= 24 =>
    LET inNet == {v \in 0..255 : v >= net[4] /\ v <= net[4] + Pow2c(32 - p) - 1}
        matched == {v \in 0..255 : \E b \in B : IsPrefixOf(b, Take(net, 3) \o <<v>>)}
    IN  inNet = matched
PatternTextRoundTrip == \A b \in B :
    LET t == IF Len(b) = 4 THEN V4Text(b)
             ELSE IF Len(b) = 0 THEN <<CH_STAR>>
             ELSE Join([i \in 1..Len(b) |-> NatText(b[i])], <<46>>) \o <<46, CH_STAR>>
    IN  ParseV4Pattern(t) = [ok |-> TRUE, q |-> b]

ASSUME RFC5952 ==
    /\ Canonical(<<8193, 3512, 0, 0, 0, 0, 0, 1>>) = <<50,48,48,49,58,100,98,56,58,58,49>>       \* 2001:db8::1
    /\ Canonical(<<0, 0, 0, 0, 0, 0, 0, 0>>) = <<58, 58>>
    /\ Canonical(<<0, 0, 0, 0, 0, 0, 0, 1>>) = <<58, 58, 49>>
    /\ Canonical(<<8193, 3512, 0, 1, 1, 1, 1, 1>>) = <<50,48,48,49,58,100,98,56,58,48,58,49,58,49,58,49,58,49,58,49>>
    /\ Canonical(<<8193, 0, 0, 1, 0, 0, 0, 1>>) = <<50,48,48,49,58,48,58,48,58,49,58,58,49>>        \* 2001:0:0:1::1
    /\ Canonical(<<8193, 3512, 0, 0, 1, 0, 0, 1>>) = <<50,48,48,49,58,100,98,56,58,58,49,58,48,58,48,58,49>>
    /\ Canonical(<<1, 0, 0, 0, 0, 0, 0, 0>>) = <<49, 58, 58>>
\* design-level finding: the text-prefix algorithm misses an address of 2001:db8::/120
ASSUME TextPrefixUnsound ==
    LET n == <<8193, 3512, 0, 0, 0, 0, 0, 0>>
    IN  /\ TextPrefixPatterns(n, 120) = <<Canonical(n)>>
        /\ ~V6Covered(TextPrefixPatterns(n, 120), <<8193, 3512, 0, 0, 0, 0, 0, 255>>)
        /\ \A a \in Corners(n, 32) : V6Covered(TextPrefixPatterns(n, 32), a)
=============================================================================
