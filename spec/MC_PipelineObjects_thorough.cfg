SPECIFICATION Spec
CONSTANT ReownAtApply = TRUE
CONSTANT MaxOps = 7
INVARIANT OwnedByApplied
PROPERTY HistoryFree
VIEW View
