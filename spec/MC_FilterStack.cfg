SPECIFICATION Spec
CONSTANT FreshDraw = TRUE
INVARIANT BothFiltersMean
CHECK_DEADLOCK FALSE
