----------------------------- MODULE MC_Gating -----------------------------
(* Mode A for C13: the expression evaluator of a condition group is checked against its
   truth-table definition, and the group semantics against its laws, by stepping through
   every assignment of two condition values (one transition per flipped value):
     - an empty group holds under every linking / negation setting;
     - `and`/`or`/default linking are the conjunction / disjunction of the values;
     - negation flips exactly the non-empty groups;
     - an expression over the same identifiers equals the linking it spells.             *)
EXTENDS Gating, TLC
VARIABLES v1, v2
Init == v1 = FALSE /\ v2 = FALSE
Next == (v1' = ~v1 /\ v2' = v2) \/ (v2' = ~v2 /\ v1' = v1)
G(conds, link, expr, neg) == [conds |-> conds, link |-> link, expr |-> expr, neg |-> neg]
c == [t |-> "x"]
vals == <<v1, v2>>
EmptyAlwaysHolds == \A l \in {"default", "and", "or", "expr"}, n \in BOOLEAN : GroupHolds(G(<<>>, l, EId(1), n), <<>>)
Linking == /\ GroupHolds(G(<<c, c>>, "and", EId(1), FALSE), vals) = (v1 /\ v2)
           /\ GroupHolds(G(<<c, c>>, "default", EId(1), FALSE), vals) = (v1 /\ v2)
           /\ GroupHolds(G(<<c, c>>, "or", EId(1), FALSE), vals) = (v1 \/ v2)
Negation == \A l \in {"default", "and", "or"} :
              GroupHolds(G(<<c, c>>, l, EId(1), TRUE), vals) = ~GroupHolds(G(<<c, c>>, l, EId(1), FALSE), vals)
ExprAgrees == /\ GroupHolds(G(<<c, c>>, "expr", EBin("and", EId(1), EId(2)), FALSE), vals) = (v1 /\ v2)
              /\ GroupHolds(G(<<c, c>>, "expr", ENot(EBin("or", EId(1), EId(2))), FALSE), vals) = (~v1 /\ ~v2)
              /\ GroupHolds(G(<<c, c>>, "expr", EBin("or", ENot(EId(1)), EId(2)), FALSE), vals) = (v1 => v2)
=============================================================================
