SPECIFICATION Spec
INVARIANT StepwiseIsFold
INVARIANT RenameComposes
INVARIANT OneToManyMultiplies
PROPERTY DroppedIsFinal
PROPERTY ValueLevelKeepsNames
PROPERTY IdentityIsFixpoint
