SPECIFICATION Spec
CONSTANT MaxOps = 2
INVARIANT NeverErr
INVARIANT Progress
INVARIANT SameMeaning
INVARIANT SameTree
INVARIANT SelectorFacts
PROPERTY Terminates
