SPECIFICATION Spec
CONSTANTS Copies = TRUE
          NRules = 3
INVARIANT ConfigurationKept
INVARIANT EachRuleItsOwn
PROPERTY FinishedRulesUntouched
CHECK_DEADLOCK FALSE
