----------------------------- MODULE Gen_C20 -----------------------------
(* Mode B generator for C20: inputs whose processing goes through SETS inside the library and
   that the generators of the other properties do not reach:
     reflags  a regular expression with a set of flags on a backend that writes flags as explicit
              tokens and supports only a subset of them (the error names ONE unsupported flag)
     strict   a rule over several fields of which a subset is mapped, followed by the strict
              field mapping check (the error lists the unmapped fields)
     vars     two pipelines defining overlapping variable tables, merged (placeholder values
              come out in table order)
     custom   a rule with several custom top-level attributes (document order everywhere)
   Every case is run under all hash seeds by the C20 driver.                              *)
EXTENDS Integers, Sequences, FiniteSets, SequencesExt, Json, IOUtils, TLC
VARIABLE x
RECURSIVE SetToSortedSeq(_)
SetToSortedSeq(S) == IF S = {} THEN <<>> ELSE LET m == CHOOSE y \in S : \A z \in S : y <= z IN <<m>> \o SetToSortedSeq(S \ {m})
Flags == {"i", "m", "s"}
SortedSeq(S) == SetToSortedSeq({CASE f = "i" -> 1 [] f = "m" -> 2 [] OTHER -> 3 : f \in S})
ReCases == {[kind |-> "reflags", flags |-> SortedSeq(fl), supported |-> SortedSeq(su), names |-> <<>>, mapped |-> <<>>]
              : fl \in SUBSET Flags \ {{}}, su \in SUBSET Flags}
Names == {1, 2, 3, 4, 5}        \* indices into the driver's field name table
StrictCases == {[kind |-> "strict", flags |-> <<>>, supported |-> <<>>, names |-> p, mapped |-> SetToSortedSeq(m)]
                  : p \in UNION {{q \in [1..n -> Names] : \A i, j \in 1..n : i # j => q[i] # q[j]} : n \in 2..4},
                    m \in SUBSET {1, 2}}
VarCases == {[kind |-> "vars", flags |-> <<>>, supported |-> <<>>, names |-> p, mapped |-> <<>>]
               : p \in {q \in [1..3 -> Names] : \A i, j \in 1..3 : i # j => q[i] # q[j]}}
\* custom (non-standard) top-level attributes of a rule in a given order: they are rendered by templates, listed by
\* to_dict() and looked at by the custom attribute validator - always in the order of the document
CustomCases == {[kind |-> "custom", flags |-> <<>>, supported |-> <<>>, names |-> p, mapped |-> <<>>]
                  : p \in {q \in [1..3 -> Names] : \A i, j \in 1..3 : i # j => q[i] # q[j]}}
\* error records: what an error message is built from must not be a set in iteration order, nor one of the random names
\* the library draws (for filter detections and added conditions)
\*   badcond        a rule whose condition cannot be parsed (it loads, conversion fails), rewritten before by a filter
\*                  (mapped has 1) and / or an add_condition item (mapped has 2)
\*   filtermissing  a filter whose own condition names a detection it does not define, applied to a rule
\*   convnum        a value that is no number under convert_type, in a pipeline whose items have the ids `names`
\*   validatorset   a validator configuration that removes an unknown validator from the set `names`
\*   unrefcond      a processing item with the conditions `names`, of which the expression uses the first only
Perm3 == {q \in [1..3 -> Names] : \A i, j \in 1..3 : i # j => q[i] # q[j]}
ErrCases == {[kind |-> "badcond", flags |-> <<>>, supported |-> <<>>, names |-> <<>>, mapped |-> SetToSortedSeq(m)] : m \in (SUBSET {1, 2})}
            \cup {[kind |-> "filtermissing", flags |-> <<>>, supported |-> <<>>, names |-> <<>>, mapped |-> <<>>]}
            \cup {[kind |-> k, flags |-> <<>>, supported |-> <<>>, names |-> p, mapped |-> <<>>] : k \in {"convnum", "validatorset", "unrefcond"}, p \in Perm3}
            \* more places where a set, a generated name or a random name can reach an output or an error record:
            \*   appliedids   items WITHOUT id (their identifiers are generated) and a template that prints the applied identifiers
            \*   converr      an error record that prints the rule, the rule carrying the identifiers `names` of applied items
            \*   reflagerr    a modifier error that prints a regular expression with its flag set
            \*   dangling3    three selectors that match nothing: the order of the validator's issues
            \*   attrerr      a rule attribute condition that cannot compare, in a pipeline with the items `names` and an added condition
            \*   unknownvals  a validator configuration naming three unknown validators
            \*   tracking     the field mapping tracking table after chained one-to-many mappings over `names`
            \*   plainerr     the error of writing out a rule whose detection item was changed by the items `names` (prints the item)
            \*   tmplerr      the error record of a post-processing template that asks for the rule's dict form (prints the rule)
            \*   funcid       the generated identifiers of items whose transformation holds a Python function
            \*   dupfields    a field list and a group-by list in which two of `names` are mapped to one name, printed by a template
            \*   underq       a selector pattern starting with an underscore beside an added condition (random name)
            \cup {[kind |-> k, flags |-> <<>>, supported |-> <<>>, names |-> p, mapped |-> <<>>] :
                    k \in {"appliedids", "converr", "reflagerr", "dangling3", "attrerr", "unknownvals", "tracking", "underq", "plainerr", "tmplerr", "funcid", "dupfields"}, p \in Perm3}
ASSUME LET S == SetToSeq(ReCases \cup StrictCases \cup VarCases \cup CustomCases \cup ErrCases)
       IN  ndJsonSerialize(IOEnv.VERIF_OUT, [i \in 1..Len(S) |-> [id |-> i] @@ S[i]])
Init == x = 0
Next == UNCHANGED x
=============================================================================
