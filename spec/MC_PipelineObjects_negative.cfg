SPECIFICATION Spec
CONSTANT ReownAtApply = FALSE
CONSTANT MaxOps = 5
INVARIANT OwnedByApplied
PROPERTY HistoryFree
VIEW View
