SPECIFICATION Spec
INVARIANT ObserveOnly
INVARIANT OrderFree
INVARIANT AgreesWithConverter
