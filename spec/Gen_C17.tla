----------------------------- MODULE Gen_C17 -----------------------------
(* Mode B generator for C17: values with 0..3 placeholders (mixed with literals, wildcards and an
   escaped percent sign) in string / keyword / regex position under several modifier chains x
   pipelines of <=2 placeholder items (value list / wildcard / query expression, with include or
   exclude lists) x variable tables (two values, wildcard value, number, empty, wrong type, missing). *)
EXTENDS Placeholders, ModSeeds, Json, IOUtils, Randomization, TLC
VARIABLE x
Quick == IOEnv.VERIF_TIER = "quick"
Shard == atoi(IOEnv.VERIF_SHARD)
NShards == atoi(IOEnv.VERIF_NSHARDS)
Values == <<
  \* %x%
  SS(<<37, 120, 37>>),
  \* a%x%b
  SS(<<97, 37, 120, 37, 98>>),
  \* %x%%y%
  SS(<<37, 120, 37, 37, 121, 37>>),
  \* a%x%b%y%c
  SS(<<97, 37, 120, 37, 98, 37, 121, 37, 99>>),
  \* *%x%
  SS(<<42, 37, 120, 37>>),
  \* \%esc%%x%
  SS(<<92, 37, 101, 115, 99, 37, 37, 120, 37>>),
  \* %x%*%z%
  SS(<<37, 120, 37, 42, 37, 122, 37>>),
  \* plain
  SS(<<112, 108, 97, 105, 110>>),
  \* %z%
  SS(<<37, 122, 37>>),
  \* %y%
  SS(<<37, 121, 37>>),
  \* %x%\\%y%   (for regular expressions: an escaped backslash, then a placeholder)
  SS(<<37, 120, 37, 92, 92, 37, 121, 37>>),
  \* \\\%x%y%   (an escaped backslash, an escaped percent sign, x, the placeholder y)
  SS(<<92, 92, 92, 37, 120, 37, 121, 37>>)
>>
NX == <<120>> NY == <<121>> NZ == <<122>>
It(t, m, ns) == [type |-> t, mode |-> m, names |-> ns]
V_all == It("value", "all", <<>>)        V_inX == It("value", "include", <<NX>>)    V_exX == It("value", "exclude", <<NX>>)
W_all == It("wildcard", "all", <<>>)     W_inY == It("wildcard", "include", <<NY>>)  W_inZ == It("wildcard", "include", <<NZ>>)
Q_all == It("qexpr", "all", <<>>)        Q_inX == It("qexpr", "include", <<NX>>)
\* an EMPTY include list handles nothing (an empty exclude list excludes nothing)
Q_in0 == It("qexpr", "include", <<>>)    V_in0 == It("value", "include", <<>>)       W_ex0 == It("wildcard", "exclude", <<>>)
Pipelines == {<<>>, <<V_all>>, <<V_inX>>, <<V_exX>>, <<W_all>>, <<W_inY>>, <<W_inZ>>, <<Q_all>>, <<Q_inX>>,
              <<V_inX, W_all>>, <<V_exX, V_inX>>, <<W_inZ, V_all>>, <<V_all, W_all>>, <<Q_inX, V_all>>,
              <<V_inX, Q_all>>, <<W_inY, V_exX>>, <<V_exX, W_inZ>>,
              <<Q_in0>>, <<Q_in0, V_all>>, <<V_in0>>, <<V_in0, W_all>>, <<W_ex0>>}
S1(c) == SS(<<c>>)
Tables == {<<(<<NX, <<S1(112), S1(113)>>>>), (<<NY, <<S1(114)>>>>)>>,                 \* x: [p, q]  y: [r]
           <<(<<NX, <<SS(<<112, 42>>)>>>>), (<<NY, <<SN(1, 1)>>>>)>>,                \* x: ["p*"]  y: [1]
           <<(<<NX, <<>>>>), (<<NY, <<S1(114)>>>>)>>,                                  \* x: []
           <<(<<NX, <<SB(TRUE)>>>>), (<<NY, <<S1(114)>>>>)>>,                          \* x: [true] (a number for Python)
           <<(<<NX, <<S1(112), NullV>>>>), (<<NY, <<S1(114)>>>>)>>,                    \* x: [p, null] (wrong type)
           <<(<<NY, <<S1(114), S1(115)>>>>)>>}                                           \* x missing
F == <<102>>
Chains == {<<N_expand>>, <<N_contains, N_expand>>, <<N_expand, N_startswith>>, <<N_endswith, N_expand>>,
           <<N_cased, N_expand>>, <<N_expand, N_cased>>,
           \* encodings of a value whose text is not known yet
           <<N_expand, N_base64>>, <<N_expand, N_base64offset, N_contains>>}
Item(f, ch, vs) == [field |-> f, chain |-> ch, vals |-> vs, single |-> Len(vs) = 1]
Body(it) == [kind |-> "map", items |-> <<it>>, maps |-> <<>>, vals |-> <<>>]
N_sel == <<115, 101, 108>>
Doc(it) == [dets |-> <<[name |-> N_sel, body |-> Body(it)]>>, conds |-> <<N_sel>>]
Items1 == {Item(F, ch, <<Values[i]>>) : ch \in Chains, i \in 1..10}
          \cup {Item(F, <<N_all, N_expand>>, <<Values[i], Values[8]>>) : i \in 1..10}
          \cup {Item(F, <<N_contains, N_all, N_expand>>, <<Values[i], Values[10]>>) : i \in {1, 2, 3}}
          \cup {Item(<<>>, <<N_expand>>, <<Values[i]>>) : i \in 1..10}
          \cup {Item(F, <<N_re, N_expand>>, <<Values[i]>>) : i \in {1, 2, 3, 4, 6, 8, 9}}
          \* a regular expression that a further modifier extends AFTER the placeholders were inserted (and before)
          \cup {Item(F, ch, <<Values[i]>>) : i \in {1, 2, 3, 4, 6}, ch \in {<<N_re, N_expand, N_startswith>>, <<N_re, N_expand, N_endswith>>,
                                                                         <<N_re, N_expand, N_contains>>, <<N_re, N_startswith, N_expand>>}}
          \* regular expressions WITH flags, the flag modifier before or after the expansion
          \cup {Item(F, ch, <<Values[i]>>) : i \in {1, 2, 4}, ch \in {<<N_re, N_i, N_expand>>, <<N_re, N_expand, N_i>>, <<N_re, N_m, N_s, N_expand>>}}
          \cup {Item(F, <<N_re, N_expand>>, <<Values[i]>>) : i \in {11, 12}}
          \cup {Item(F, <<N_expand>>, <<Values[1], Values[10]>>)}
Cases == {[doc |-> Doc(it), pipe |-> p, vars |-> t, sw |-> s] : it \in Items1, p \in Pipelines, t \in Tables, s \in BOOLEAN}
ASSUME LET A == SetToSeq(Cases)
           mine == SelectSeq([i \in 1..Len(A) |-> [id |-> i] @@ A[i]], LAMBDA c : c.id % NShards = Shard)
       IN  ndJsonSerialize(IOEnv.VERIF_OUT, mine)
Init == x = 0
Next == UNCHANGED x
=============================================================================
