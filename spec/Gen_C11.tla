----------------------------- MODULE Gen_C11 -----------------------------
(* Mode B generator for C11: (rule set, filter set) pairs.  Rule 1 is the target (detection names
   overlapping with the filter's), rule 2 a bystander.  Swept: rule condition x filter condition x
   log-source relation x rule list kind; stacked filters; underscore-leading filter names.        *)
EXTENDS Filter, ModSeeds, Json, IOUtils, Randomization, TLC
VARIABLE x
Quick == IOEnv.VERIF_TIER = "quick"
T(s) == s
n_sel == <<115,101,108>>            n_filter == <<102,105,108,116,101,114>>   n_sel_a == <<115,101,108,95,97>>
n_notable == <<110,111,116,97,98,108,101>>   n_1x == <<49,120>>   n_ax == <<97,120>>   n_usx == <<95,120>>   n_And == <<65,110,100>>
ValV == SS(<<118>>)
Det(prefix, n) == [name |-> n, body |-> [kind |-> "map", items |-> <<[field |-> prefix \o n, chain |-> <<>>, vals |-> <<ValV>>, single |-> TRUE]>>,
                                         maps |-> <<>>, vals |-> <<>>]]
RP == <<82, 95>>   FP == <<70, 95>>     \* field prefixes R_ / F_ make the provenance of every predicate visible
n_ua == <<95,97>>       \* _a : a detection of the rule whose name starts with an underscore
RuleNames == <<n_sel, n_filter, n_sel_a, n_notable, n_ua>>
n_all == <<97,108,108>>  n_any == <<97,110,121>>  n_of == <<111,102>>  n_one == <<49>>
\* family 3: detections named like the words of the quantifier construct (keywords only in "<quantifier> of <pattern>")
FilterNames(fam) == IF fam = 3 THEN <<n_sel, n_all, n_any, n_of, n_one>>
                    ELSE <<n_sel, n_1x, IF fam = 1 THEN n_ax ELSE n_usx, n_And, n_notable>>
RuleConds == {CId(n_sel), CSel("1", <<115,101,108,42>>), CSel("all", S_them), CBin("cand", CId(n_sel), CNot(CId(n_filter))),
              CSel("1", <<42,95,97>>), CBin("cor", CId(n_notable), CId(n_sel_a)),
              \* leading wildcards (would reach into the filter's renamed detections if the underscore rule failed)
              CSel("1", <<42>>), CSel("all", <<42,108>>), CSel("1", <<42,101,42>>),
              \* a pattern that starts with an underscore (the only way to select underscore names)
              CSel("1", <<95,42>>), CBin("cand", CId(n_sel), CNot(CSel("1", <<95,42>>)))}
FilterConds == {CId(n_sel), CNot(CId(n_sel)), CSel("1", S_them), CSel("all", <<115,101,42>>), CSel("any", <<42,120>>),
                CBin("cand", CId(n_And), CNot(CId(n_1x))), CNot(CSel("1", <<110,111,116,42>>))}
cat1 == <<99,49>> cat2 == <<99,50>> prod1 == <<112,49>> prod2 == <<112,50>> svc1 == <<115,49>>
Ls(c, p, s) == [cat |-> c, prod |-> p, svc |-> s, def |-> <<>>]
LsD(c, p, s, d) == [cat |-> c, prod |-> p, svc |-> s, def |-> d]      \* with a definition: a note for the reader, no part of the matching
RuleLs == Ls(cat1, prod1, svc1)
FilterLss == {LsD(cat1, <<>>, <<>>, <<110,111,116,101>>), LsD(cat1, prod1, svc1, <<110,111,116,101>>), Ls(cat1, <<>>, <<>>), Ls(<<>>, prod1, <<>>), Ls(cat1, prod1, svc1), Ls(cat2, <<>>, <<>>), Ls(cat1, prod2, <<>>), Ls(<<>>, <<>>, svc1)}
Uid(k) == <<48,48,48,48,97,98,99,100,45,48,48,48,48,45,52,48,48,48,45,56,48,48,48,45,48,48,48,48,48,48,48,48,48,48,48,48 + k>>
r1name == <<114,49>> r2name == <<114,50>>
RuleListKinds == {"name", "id", "idU", "any", "empty", "other", "otherid"}
UpperId(t) == [i \in 1..Len(t) |-> IF t[i] >= 97 /\ t[i] <= 102 THEN t[i] - 32 ELSE t[i]]     \* the same UUID in upper case
RulesOf(kind) == CASE kind = "name" -> <<r1name>> [] kind = "id" -> <<Uid(1)>> [] kind = "idU" -> <<UpperId(Uid(1))>>
                   [] kind = "other" -> <<r2name>> [] kind = "otherid" -> <<UpperId(Uid(2))>> [] OTHER -> <<>>
Rule1(rc) == [name |-> r1name, uid |-> Uid(1), ls |-> RuleLs,
              doc |-> [dets |-> [k \in 1..Len(RuleNames) |-> Det(RP, RuleNames[k])], conds |-> rc]]
Rule2 == [name |-> r2name, uid |-> Uid(2), ls |-> Ls(cat2, prod2, <<>>),
          doc |-> [dets |-> <<Det(RP, n_sel)>>, conds |-> <<n_sel>>]]
MkFilter(fam, fc, ls, kind) == [ls |-> ls, any |-> kind = "any", rules |-> RulesOf(kind),
                              doc |-> [dets |-> [k \in 1..5 |-> Det(FP, FilterNames(fam)[k])], conds |-> <<CPrint(fc, "min")>>]]
\* the second of two stacked filters: the same detection NAMES over other fields (G_)
GP == <<71, 95>>
MkFilter2(fam, fc, ls, kind) == [MkFilter(fam, fc, ls, kind) EXCEPT !.doc.dets = [k \in 1..5 |-> Det(GP, FilterNames(fam)[k])]]
Single == {[rules |-> <<Rule1(<<CPrint(rc, "min")>>), Rule2>>, filters |-> <<MkFilter(1, fc, ls, kind)>>] :
             rc \in RuleConds, fc \in FilterConds, ls \in FilterLss, kind \in RuleListKinds}
TwoConds == {[rules |-> <<Rule1(<<CPrint(rc, "min"), n_sel_a>>), Rule2>>, filters |-> <<MkFilter(1, fc, Ls(cat1, <<>>, <<>>), "any")>>] :
             rc \in RuleConds, fc \in FilterConds}
Stacked == {[rules |-> <<Rule1(<<CPrint(rc, "min")>>), Rule2>>,
             filters |-> <<MkFilter(1, f1, Ls(cat1, <<>>, <<>>), "any"), MkFilter2(1, f2, Ls(<<>>, prod1, <<>>), k2)>>] :
             rc \in RuleConds, f1 \in FilterConds, f2 \in FilterConds, k2 \in {"name", "other"}}
Underscore == {[rules |-> <<Rule1(<<CPrint(rc, "min")>>), Rule2>>, filters |-> <<MkFilter(2, fc, Ls(cat1, <<>>, <<>>), "any")>>] :
             rc \in RuleConds, fc \in FilterConds \cup {CId(n_usx), CSel("1", <<95,42>>)}}
\* two rules that the same filter targets, converted through a pipeline that renames every field (suffix _x):
\* the filter's detections are copied into both rules and must be transformed once in each
r3name == <<114,51>>
Rule3(rc) == [name |-> r3name, uid |-> Uid(3), ls |-> RuleLs,
              doc |-> [dets |-> [k \in 1..Len(RuleNames) |-> Det(<<83,95>>, RuleNames[k])], conds |-> rc]]
TwoTargets == {[rules |-> <<Rule1(<<CPrint(rc, "min")>>), Rule3(<<CPrint(rc, "min")>>)>>,
                filters |-> <<MkFilter(1, fc, Ls(cat1, <<>>, <<>>), "any")>>, pipe |-> TRUE] :
                 rc \in {CId(n_sel), CSel("all", S_them)}, fc \in FilterConds}
\* the same two rules with TWO conditions each, written the short way: the condition list stands once, in a global action
\* document in front of the two rule documents (the driver writes the collection that way when glob is set)
SharedConds == {[rules |-> <<Rule1(<<CPrint(rc, "min"), n_sel_a>>), Rule3(<<CPrint(rc, "min"), n_sel_a>>)>>,
                 filters |-> <<MkFilter(1, fc, Ls(cat1, <<>>, <<>>), kind)>>, pipe |-> FALSE, glob |-> "cond"] :
                 rc \in {CId(n_sel), CSel("all", S_them), CSel("1", <<95,42>>)}, fc \in FilterConds, kind \in {"any", "name", "other"}}
\* two rules with the SAME name and identifier (as the rules made from one global document, or a rule and its repetition):
\* a filter that names them names them both
SameIdent == {[rules |-> <<Rule1(<<CPrint(rc, "min")>>), [Rule3(<<CPrint(rc, "min")>>) EXCEPT !.name = r1name, !.uid = Uid(1)]>>,
               filters |-> <<MkFilter(1, fc, Ls(cat1, <<>>, <<>>), kind)>>, pipe |-> FALSE] :
               rc \in {CId(n_sel), CSel("all", S_them)}, fc \in FilterConds, kind \in {"name", "id", "idU"}}
\* a rule of another product in front, then a global action document that gives the two rules behind it their product, then the
\* filter (category only): global action documents shape RULE documents - the filter's log source is the one it was written with
RuleX(rc) == [name |-> <<114,120>>, uid |-> Uid(4), ls |-> Ls(cat1, prod2, <<>>),
              doc |-> [dets |-> [k \in 1..Len(RuleNames) |-> Det(<<88,95>>, RuleNames[k])], conds |-> rc]]
GlobLs == {[rules |-> <<RuleX(<<CPrint(rc, "min")>>), Rule1(<<CPrint(rc, "min")>>), Rule3(<<CPrint(rc, "min")>>)>>,
            filters |-> <<MkFilter(1, fc, Ls(cat1, <<>>, <<>>), "any")>>, pipe |-> FALSE, glob |-> "ls"] :
            rc \in {CId(n_sel), CSel("all", S_them)}, fc \in FilterConds}
\* a rule whose NAME reads as a UUID (32 hexadecimal digits), named by the filter by that name
hexn == <<100, 101, 97, 100, 98, 101, 101, 102, 100, 101, 97, 100, 98, 101, 101, 102, 100, 101, 97, 100, 98, 101, 101, 102, 100, 101, 97, 100, 98, 101, 101, 102>>
HexName == {[rules |-> <<[Rule1(<<CPrint(rc, "min")>>) EXCEPT !.name = hexn], Rule2>>,
             filters |-> <<[MkFilter(1, fc, Ls(cat1, <<>>, <<>>), "name") EXCEPT !.rules = <<hexn>>]>>] :
              rc \in {CId(n_sel), CSel("1", S_them)}, fc \in FilterConds}
KwNamed == {[rules |-> <<Rule1(<<CPrint(rc, "min")>>), Rule2>>, filters |-> <<MkFilter(3, fc, Ls(cat1, <<>>, <<>>), "any")>>] :
              rc \in {CId(n_sel), CSel("all", S_them)},
              fc \in {CNot(CId(n_all)), CId(n_any), CBin("cand", CId(n_sel), CNot(CId(n_of))), CNot(CId(n_one)),
                      CSel("1", <<97,42>>), CBin("cor", CSel("all", S_them), CId(n_all))}}
NoPipe(S) == {c @@ [pipe |-> FALSE] : c \in S}
ASSUME LET S == SetToSeq(TwoTargets \cup SharedConds \cup SameIdent \cup GlobLs \cup NoPipe(Single \cup TwoConds \cup HexName \cup KwNamed \cup Underscore \cup (IF Quick THEN RandomSubset(150, Stacked) ELSE Stacked)))
       IN  ndJsonSerialize(IOEnv.VERIF_OUT, [i \in 1..Len(S) |-> [id |-> i] @@ S[i]])
Init == x = 0
Next == UNCHANGED x
=============================================================================
