--------------------------- MODULE MC_Validation ---------------------------
(* Mode A for C19: validation as a state machine.  The rules of a collection are visited in ANY
   order (one transition per visited rule; the uniqueness validators accumulate tables), then
   Finalize.  Invariants: the rules are never changed; the issue set after Finalize equals
   ExpectedIssues whatever the visiting order; the reference checks agree with the converter's
   selector resolution (an unused detection is exactly one whose atom never occurs in Den).   *)
EXTENDS Validation, TLC
VARIABLES visited, table, issues, done, coll0
vars == <<visited, table, issues, done, coll0>>
n_a == <<115,101,108,95,97>> n_b == <<115,101,108,95,98>> n_i == <<95,105,110,106>>
R(conds, uid, title) == [names |-> <<n_a, n_b, n_i>>, conds |-> conds, uid |-> uid, title |-> title, fname |-> 1, dir |-> uid]
Coll == <<R(<<n_a>>, 1, 1), R(<<(<<49,32,111,102,32,115,101,108,95,42>>)>>, 1, 2), R(<<(<<49,32,111,102,32,120,42>>), n_b>>, 2, 1)>>
V == {"dangling_detection", "dangling_condition", "identifier_uniqueness", "duplicate_title", "duplicate_filename"}
Init == visited = {} /\ table = [uid |-> <<>>, title |-> <<>>] /\ issues = {} /\ done = FALSE /\ coll0 = Coll
Visit(r) == /\ ~done /\ r \notin visited
            /\ visited' = visited \cup {r}
            /\ table' = [uid |-> Append(table.uid, <<Coll[r].uid, r>>), title |-> Append(table.title, <<Coll[r].title, r>>)]
            /\ issues' = issues \cup {Issue("dangling_detection", {r}, Coll[r].names[m]) : m \in {k \in 1..3 : k \notin Referenced(Coll[r])}}
                                \cup {Issue("dangling_condition", {r}, p) : p \in Dangling(Coll[r])}
            /\ UNCHANGED <<done, coll0>>
GroupsOf(tab) == {g \in {{tab[i][2] : i \in {j \in 1..Len(tab) : tab[j][1] = k}} : k \in {tab[i][1] : i \in 1..Len(tab)}} : Cardinality(g) >= 2}
Finalize == /\ ~done /\ visited = 1..Len(Coll) /\ done' = TRUE
            /\ issues' = issues \cup {Issue("identifier_uniqueness", g, <<Coll[CHOOSE r \in g : TRUE].uid>>) : g \in GroupsOf(table.uid)}
                                \cup {Issue("duplicate_title", g, <<Coll[CHOOSE r \in g : TRUE].title>>) : g \in GroupsOf(table.title)}
                                \cup {Issue("duplicate_filename", g, <<1>>) : g \in FileGroups(Coll, {}, V)}
            /\ UNCHANGED <<visited, table, coll0>>
Next == (\E r \in 1..Len(Coll) : Visit(r)) \/ Finalize
Spec == Init /\ [][Next]_vars
ObserveOnly == coll0 = Coll
OrderFree == done => issues = ExpectedIssues(Coll, V, {})
\* the validator's view of references is the converter's: n is unused iff its atom is not in the denotation
AgreesWithConverter == \A r \in 1..Len(Coll) : \A c \in 1..Len(Coll[r].conds) :
    LET d == Den(Coll[r].conds[c], Coll[r].names) IN
    d.st = "ok" => AtomsOf(d.e) = RefsOfAst(Parse(Coll[r].conds[c]).ast, Coll[r].names)
=============================================================================
