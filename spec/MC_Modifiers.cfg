SPECIFICATION Spec
CONSTANT MaxChain = 2
INVARIANT Total
INVARIANT WildIdempotent
INVARIANT WildOnlyEnds
INVARIANT CasedKeepsContent
INVARIANT WindashExact
INVARIANT ExpandConserves
PROPERTY Monotone
PROPERTY Separation
