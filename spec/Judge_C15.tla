---------------------------- MODULE Judge_C15 ----------------------------
(* Mode C judge for C15.  An observation is the trace of one history on shared objects,
   ending in a probe conversion; HistoryFree demands that the probe's result equals the
   one obtained on fresh objects in a new interpreter.  In addition the abstract result
   of the Layer S model (state seen by the backend, gate item applied) is read off the
   query text and compared with PipelineObjects!FreshResult.                          *)
EXTENDS PipelineObjects, Text, Json, IOUtils
VARIABLE x
Obs == ndJsonDeserialize(IOEnv.VERIF_OBS)
T_win == <<105,110,100,101,120,61,119,105,110,32,40>>                   \* "index=win ("
T_def == <<105,110,100,101,120,61,100,101,102,97,117,108,116,32,40>>    \* "index=default ("
T_mark == <<119,95,109,97,112,112,101,100,65>>                          \* "w_mappedA"
T_map == <<109,97,112,112,101,100,65>>                                  \* "mappedA"
T_srcwin == <<115,114,99,61,34,119,105,110,100,111,119,115,34>>             \* src="windows"
T_srclin == <<115,114,99,61,34,108,105,110,117,120,34>>                     \* src="linux"
Abstract(q) == <<IF HasPrefix(q, T_win) THEN "win" ELSE IF HasPrefix(q, T_def) THEN "default" ELSE "?",
                 IsSubstr(T_mark, q)>>
Clause(o) ==
    IF ~o.fresh.ok THEN      \* the fresh conversion fails (strict mapping check): so must the probe, the same way
        \* (optph: the variable of an option this backend was not given does not exist - the same error every time)
        (IF ~o.fresh.sigma \/ ~(o.direct \/ o.optph) THEN "FreshReferenceFailed"
         ELSE IF o.got.ok THEN "HistoryFree:probe-converts"
         ELSE IF o.got.exc # o.fresh.exc THEN "HistoryFree:other-error"
         ELSE IF o.direct /\ FreshResult(2, o.probe[1], "direct")[4] # TRUE THEN "AbstractResultAsModel" ELSE "")
    ELSE IF ~o.got.ok THEN (IF o.got.sigma THEN "HistoryFree:probe-fails" ELSE "NonSigmaException")
    ELSE IF o.got.out # o.fresh.out THEN "HistoryFree"
    ELSE IF o.errors_delta # 0 THEN "HistoryFree:errors"
    ELSE LET want == FreshResult(2, o.probe[1], IF o.windows THEN "win" ELSE "lin")
             src == IF want[5] = "win" THEN T_srcwin ELSE T_srclin
         IN  IF want[4] \/ \E i \in 1..Len(o.got.out) :
                    Abstract(o.got.out[i]) # <<want[2], want[3]>> \/ ~IsSubstr(T_map, o.got.out[i]) \/ ~IsSubstr(src, o.got.out[i])
             THEN "AbstractResultAsModel" ELSE ""
Verdict(o) == LET c == Clause(o) IN [id |-> o.id, v |-> IF c = "" THEN "ok" ELSE "violation:" \o c]
ASSUME ndJsonSerialize(IOEnv.VERIF_OUT, [i \in 1..Len(Obs) |-> Verdict(Obs[i])])
Init == x = 0
Next == UNCHANGED x
=============================================================================
