SPECIFICATION Spec
CONSTANT MaxSteps = 4
CONSTANT MergeAllFilters = TRUE
INVARIANT ConvertIdeal
INVARIANT SortedInv
CHECK_DEADLOCK FALSE
