---------------------------- MODULE Judge_C02 ----------------------------
(* Mode C judge for C02.  Input: observations [id, names, text, ret] where ret is
   what SigmaCondition.parse() returned for `text` (a tree of and/or/not over
   detection indices) or the exception class.  The expected meaning is computed
   here, from the text, by the reference parser of CondLang.                  *)
EXTENDS CondLang, Json, IOUtils
VARIABLE x

Obs == ndJsonDeserialize(IOEnv.VERIF_OBS)

\* the implementation's tree as a BoolExpr (n-ary and/or, unary not, leaf i)
RECURSIVE ImplExpr(_)
ImplExpr(t) ==
    CASE t.k = "leaf" -> Atom(t.i)
      [] t.k = "and" -> And([j \in 1..Len(t.args) |-> ImplExpr(t.args[j])])
      [] t.k = "or" -> Or([j \in 1..Len(t.args) |-> ImplExpr(t.args[j])])
      [] t.k = "not" -> Not(ImplExpr(t.args[1]))
RECURSIVE WellFormed(_)
WellFormed(t) ==
    /\ t.k \in {"leaf", "and", "or", "not"}
    /\ t.k = "not" => Len(t.args) = 1
    /\ t.k \in {"and", "or"} => Len(t.args) >= 1
    /\ \A j \in 1..Len(t.args) : WellFormed(t.args[j])

\* more than 15 opening parentheses or occurrences of the letter n (as in `not`) - a coarse measure of nesting
Deep(t) == Cardinality({i \in 1..Len(t) : t[i] = 40}) > 15 \/ Cardinality({i \in 1..Len(t) : t[i] = 110}) > 15
Verdict(o) ==
    LET n == Len(o.names)
        d == Den(o.text, o.names)
        base == [id |-> o.id, st |-> d.st]
    IN
    IF ~o.ret.ok /\ ~o.ret.sigma THEN base @@ [v |-> "violation:NonSigmaException", info |-> o.ret.exc]
    ELSE IF d.st = "unspec" THEN base @@ [v |-> "unspec", info |-> ""]
    ELSE IF d.st \in {"syntax", "undefined"} THEN
        \* not a sentence of the grammar: C02 demands nothing beyond a Sigma error or a tree
        base @@ [v |-> "unspec", info |-> ""]
    \* nested deeper than any rule in use: a recursive parser may decline - with a Sigma error (checked above)
    ELSE IF ~o.ret.ok /\ Deep(o.text) THEN base @@ [v |-> "unspec", info |-> "nesting"]
    ELSE IF ~o.ret.ok THEN base @@ [v |-> "violation:RejectsValidCondition", info |-> o.ret.exc]
    ELSE IF ~WellFormed(o.ret.tree) THEN base @@ [v |-> "violation:NotATree", info |-> o.ret.tree.k]
    ELSE LET diff == FirstDiff(ImplExpr(o.ret.tree), d.e, n) IN
         IF diff = 0 - 1 THEN base @@ [v |-> "ok", info |-> ""]
         ELSE base @@ [v |-> "violation:DifferentBooleanFunction",
                       info |-> "first differing assignment (bit i-1 = detection i): " \o ToString(diff)]

ASSUME ndJsonSerialize(IOEnv.VERIF_OUT, [i \in 1..Len(Obs) |-> Verdict(Obs[i])])
Init == x = 0
Next == UNCHANGED x
=============================================================================
