----------------------------- MODULE Encoding -----------------------------
(***************************************************************************)
(* Byte-level encodings used by the encoding modifiers, by integer         *)
(* arithmetic: UTF-8, UTF-16 (LE/BE, BOM), standard Base64 (RFC 4648) in   *)
(* both directions, and the base64offset contract:                         *)
(*   Covers(vals, p)  - wherever p sits in a byte string, the Base64 text  *)
(*                      of that string contains one of vals;               *)
(*   Implied(v, p)    - v follows from p alone for some alignment          *)
(*                      (independent of the surrounding bytes).            *)
(* RefOffset3 is the maximal triple with these properties (MC_Encoding).   *)
(***************************************************************************)
EXTENDS Text

\* ---- Unicode ------------------------------------------------------------
Utf8(c) ==
    IF c < 128 THEN <<c>>
    ELSE IF c < 2048 THEN <<192 + c \div 64, 128 + (c % 64)>>
    ELSE IF c < 65536 THEN <<224 + c \div 4096, 128 + ((c \div 64) % 64), 128 + (c % 64)>>
    ELSE <<240 + c \div 262144, 128 + ((c \div 4096) % 64), 128 + ((c \div 64) % 64), 128 + (c % 64)>>
Utf8Seq(s) == Concat([i \in 1..Len(s) |-> Utf8(s[i])])

Units16(c) ==   \* UTF-16 code units
    IF c < 65536 THEN <<c>>
    ELSE <<55296 + (c - 65536) \div 1024, 56320 + ((c - 65536) % 1024)>>
Utf16LE(c) == Concat([i \in 1..Len(Units16(c)) |-> <<Units16(c)[i] % 256, Units16(c)[i] \div 256>>])
Utf16BE(c) == Concat([i \in 1..Len(Units16(c)) |-> <<Units16(c)[i] \div 256, Units16(c)[i] % 256>>])
Utf16LESeq(s) == Concat([i \in 1..Len(s) |-> Utf16LE(s[i])])
Utf16BESeq(s) == Concat([i \in 1..Len(s) |-> Utf16BE(s[i])])
BOM_LE == <<255, 254>>

\* ---- Base64 -------------------------------------------------------------
B64Char(v) == IF v < 26 THEN 65 + v ELSE IF v < 52 THEN 97 + (v - 26)
              ELSE IF v < 62 THEN 48 + (v - 52) ELSE IF v = 62 THEN 43 ELSE 47
B64Val(c) == IF IsUpper(c) THEN c - 65 ELSE IF IsLower(c) THEN c - 97 + 26
             ELSE IF IsDigit(c) THEN c - 48 + 52 ELSE IF c = 43 THEN 62 ELSE IF c = 47 THEN 63 ELSE 0 - 1
PAD == 61

Group3(a, b, c) == LET n == a * 65536 + b * 256 + c IN
    <<B64Char(n \div 262144), B64Char((n \div 4096) % 64), B64Char((n \div 64) % 64), B64Char(n % 64)>>
RECURSIVE B64From(_, _)
B64From(bs, i) ==
    LET r == Len(bs) - i + 1 IN
    IF r <= 0 THEN <<>>
    ELSE IF r = 1 THEN <<B64Char(bs[i] \div 4), B64Char((bs[i] % 4) * 16), PAD, PAD>>
    ELSE IF r = 2 THEN LET n == bs[i] * 256 + bs[i + 1] IN
         <<B64Char(n \div 1024), B64Char((n \div 16) % 64), B64Char((n % 16) * 4), PAD>>
    ELSE Group3(bs[i], bs[i + 1], bs[i + 2]) \o B64From(bs, i + 3)
B64(bs) == B64From(bs, 1)

\* decoder (for judging recorded Base64 text); <<-1>> if not canonical Base64
RECURSIVE B64DecFrom(_, _)
B64DecFrom(t, i) ==
    IF i > Len(t) THEN <<>>
    ELSE LET a == B64Val(t[i]) b == B64Val(t[i + 1])
             c == IF t[i + 2] = PAD THEN 0 ELSE B64Val(t[i + 2])
             d == IF t[i + 3] = PAD THEN 0 ELSE B64Val(t[i + 3])
             n == a * 262144 + b * 4096 + c * 64 + d
         IN  IF t[i + 2] = PAD THEN <<n \div 65536>>
             ELSE IF t[i + 3] = PAD THEN <<n \div 65536, (n \div 256) % 256>>
             ELSE <<n \div 65536, (n \div 256) % 256, n % 256>> \o B64DecFrom(t, i + 4)
B64Valid(t) ==
    /\ Len(t) % 4 = 0
    /\ \A i \in 1..Len(t) : B64Val(t[i]) >= 0 \/ (t[i] = PAD /\ i >= Len(t) - 1 /\ (i = Len(t) \/ t[Len(t)] = PAD))
B64Dec(t) == IF B64Valid(t) THEN B64DecFrom(t, 1) ELSE <<0 - 1>>

\* ---- base64offset -------------------------------------------------------
Zeros(n) == [i \in 1..n |-> 0]
\* the maximal value implied by payload bytes p when preceded by a (mod 3) bytes
RefOffsetAt(p, a) ==
    LET enc == B64(Zeros(a) \o p)
        start == IF a = 0 THEN 0 ELSE a + 1                \* sextets tainted by the prefix
        full == (8 * (a + Len(p))) \div 6                  \* sextets fully determined by prefix+payload
    IN  Slice(enc, start + 1, full)
RefOffset3(p) == <<RefOffsetAt(p, 0), RefOffsetAt(p, 1), RefOffsetAt(p, 2)>>

NB == {0, 255}      \* neighbour bytes tried (locality: only the bits of adjacent bytes matter)
Pre(a) == [1..a -> NB] \cup (IF a = 0 THEN [1..3 -> NB] ELSE {})
Sufs == UNION {[1..k -> NB] : k \in 0..2}
ImpliedAt(v, p, a) == \A pre \in Pre(a), suf \in Sufs : IsSubstr(v, B64(pre \o p \o suf))
Implied(v, p) == \E a \in 0..2 : ImpliedAt(v, p, a)
Covers(vals, p) ==
    \A a \in 0..3 : \A pre \in [1..a -> NB], suf \in Sufs :
        \E i \in 1..Len(vals) : IsSubstr(vals[i], B64(pre \o p \o suf))
=============================================================================
