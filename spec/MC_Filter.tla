------------------------------ MODULE MC_Filter ------------------------------
(* Mode A for C11: the renaming mechanism is checked against the Ideal at the level of
   conditions.  Rule names and filter names come from families with overlapping, keyword-,
   digit- and underscore-leading names; rule and filter conditions range over identifiers,
   not, `them` and prefix/suffix patterns.  One transition = choosing the next part of the
   configuration (rule condition, then filter condition); the invariant is evaluated on the
   complete configuration:  Den(combined condition over combined names)
                          = Den(rule cond over rule names) AND Den(filter cond over filter names)
   for all truth assignments.  The two captures TLC found in the first version of the mechanism (a RULE
   pattern starting with an underscore reaching the injected names; an underscore name of the FILTER
   losing the shield of the underscore rule once it carries the prefix) were repaired by giving
   generated names a name space of their own; MC_Filter_negative.cfg runs the mechanism without
   it and must be refuted.                                                                *)
EXTENDS Filter, TLC
CONSTANT NameSpaces        \* TRUE: generated names are out of reach of foreign patterns (the repaired selector); FALSE: negative control
VARIABLES rc, fc, stage, fam
vars == <<rc, fc, stage, fam>>
N(s) == s
RuleNames == <<(<<115,101,108>>), (<<102,105,108,116,101,114>>), (<<115,101,108,95,97>>), (<<95,120>>)>>      \* sel filter sel_a _x
\* family 1: sel 1x ax And notable        family 2: the same with _x instead of ax
FilterNames == <<(<<115,101,108>>), (<<49,120>>), (IF fam = 1 THEN <<97,120>> ELSE <<95,120>>), (<<65,110,100>>), (<<110,111,116,97,98,108,101>>)>>
Prefix == <<95,102,105,108,116,95,97,98,97,98,97,98,97,98,97,98>>     \* _filt_ababababab
RuleConds == {CId(RuleNames[1]), CSel("1", <<115,101,108,42>>), CSel("all", S_them), CSel("any", <<42>>),
              CBin("cand", CId(RuleNames[1]), CNot(CId(RuleNames[2]))), CSel("1", <<42,95,97>>), CSel("1", <<95,42>>)}
FilterConds == {CId(FilterNames[1]), CNot(CId(FilterNames[1])), CSel("1", S_them), CSel("all", <<115,101,42>>),
                CSel("any", <<42,120>>), CBin("cand", CId(FilterNames[4]), CNot(CId(FilterNames[2]))),
                CBin("cor", CId(FilterNames[3]), CId(FilterNames[5])), CSel("1", <<95,42>>)}
Init == stage = 0 /\ fam \in {1, 2} /\ rc = CId(RuleNames[1]) /\ fc = CId(<<115,101,108>>)
PickRule == stage = 0 /\ rc' \in RuleConds /\ stage' = 1 /\ UNCHANGED <<fc, fam>>
PickFilter == stage = 1 /\ fc' \in FilterConds /\ stage' = 2 /\ UNCHANGED <<rc, fam>>
Next == PickRule \/ PickFilter
Spec == Init /\ [][Next]_vars

nr == Len(RuleNames)
nf == Len(FilterNames)
Combined == DenM(CombinedCond(CPrint(rc, "min"), CPrint(fc, "min"), Prefix), CombinedNames(RuleNames, FilterNames, Prefix), NameSpaces)
RuleAlone == Den(CPrint(rc, "min"), RuleNames)
FilterAlone == Den(CPrint(fc, "min"), FilterNames)
Shift(e) == MapAtoms(e, [i \in 1..nf |-> nr + i])
\* no capture in either direction, whatever the names and patterns begin with (both name families, underscore patterns
\* of the rule included)
NoCaptureEitherWay ==
    (stage = 2 /\ RuleAlone.st = "ok" /\ FilterAlone.st = "ok") =>
        /\ Combined.st = "ok"
        /\ TT(Combined.e, nr + nf) = TT(And(<<RuleAlone.e, Shift(FilterAlone.e)>>), nr + nf)
=============================================================================
