SPECIFICATION Spec
CONSTANT Sorter = "partial"
CONSTANT MaxDocs = 5
INVARIANT OrderIsPermutation
INVARIANT RefsFirstInv
INVARIANT OrderRefsFirst
INVARIANT SameOutcome
INVARIANT EmittedOnce
INVARIANT StableForPlainRules
