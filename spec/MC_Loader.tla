------------------------------ MODULE MC_Loader ------------------------------
(* Mode A for C07: the loader state machine run in strict and in collecting mode over every
   pattern of failing validation steps (up to NChecks steps).  Invariants: collecting never
   raises; at the end its error list is non-empty iff the strict run raised, and its first
   entry is the step at which the strict run raised.  Also: tree surgery used by the
   generators (Replace / Delete / Get over all paths) is consistent.                       *)
EXTENDS Loader, LoaderDocs, TLC
CONSTANT NChecks
VARIABLES checks, s, c
vars == <<checks, s, c>>
Init == checks \in [1..NChecks -> BOOLEAN] /\ s = LInit /\ c = LInit
StepS == s.status = "run" /\ s' = LStep(checks, FALSE, s) /\ UNCHANGED <<checks, c>>
StepC == c.status = "run" /\ c' = LStep(checks, TRUE, c) /\ UNCHANGED <<checks, s>>
Next == StepS \/ StepC
Spec == Init /\ [][Next]_vars
CollectNeverRaises == c.status # "raised"
ErrorsIffStrictRaises == (s.status # "run" /\ c.status = "returned") => ((c.errors # <<>>) <=> (s.status = "raised"))
FirstErrorEqual == (s.status = "raised" /\ c.status = "returned") => c.errors[1] = s.errors[1]
ASSUME TreeSurgery ==
    /\ \A p \in Paths(BaseFilter) : Get(Replace(BaseFilter, p, NInt(7)), p) = NInt(7)
    /\ \A p \in Paths(BaseFilter) \ {<<>>} : Cardinality(Paths(Delete(BaseFilter, p))) < Cardinality(Paths(BaseFilter))
    /\ Cardinality(Paths(BaseRule)) = 50
=============================================================================
