---------------------------- MODULE Judge_C07 ----------------------------
(* Mode C judge for C07: each observation holds the outcomes of loading one document strictly
   and with error collection, through the document class and through a collection.  The
   relation demanded is the one the loader state machine of spec/Loader.tla guarantees.    *)
EXTENDS Loader, Json, IOUtils, TLC
VARIABLE x
Obs == ndJsonDeserialize(IOEnv.VERIF_OBS)
PairClause(s, c) ==      \* s = strict outcome, c = collecting outcome
    IF ~s.ok /\ ~s.sigma THEN "OnlySigmaErrors"
    ELSE IF ~c.ok THEN (IF c.sigma THEN "CollectNeverRaises" ELSE "CollectNeverRaises:NonSigmaException")
    ELSE IF (c.errors # <<>>) # (~s.ok) THEN "ErrorsIffStrictRaises"
    ELSE IF ~s.ok /\ c.errors[1] # s.err THEN "FirstErrorEqual"
    ELSE ""
Clause(o) ==
    LET a == PairClause(o.direct_strict, o.direct_collect)
        b == PairClause(o.coll_strict, o.coll_collect)
        c == PairClause(o.same_strict, o.same_collect)     \* both loads given the same objects
        d == PairClause(o.file_strict, o.file_collect)     \* the documents written to a file and loaded with load_ruleset
        e == PairClause(o.merge_strict, o.merge_collect)   \* one collection per document, merged from a generator
    IN  IF a # "" THEN a ELSE IF b # "" THEN "collection:" \o b ELSE IF c # "" THEN "same-objects:" \o c
        ELSE IF d # "" THEN "load_ruleset:" \o d ELSE IF e # "" THEN "merge:" \o e ELSE ""
Verdict(o) == LET c == Clause(o) IN [id |-> o.id, v |-> IF c = "" THEN "ok" ELSE "violation:" \o c]
ASSUME ndJsonSerialize(IOEnv.VERIF_OUT, [i \in 1..Len(Obs) |-> Verdict(Obs[i])])
Init == x = 0
Next == UNCHANGED x
=============================================================================
