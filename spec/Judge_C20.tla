---------------------------- MODULE Judge_C20 ----------------------------
(* Mode C judge for C20: one observation per corpus case = the digests of its output under every
   (hash seed, random seed) run.  SameBytes: all equal.  NoInternalIdentifiers: no run's output
   contains an internal identifier.                                                        *)
EXTENDS Integers, Sequences, Json, IOUtils
VARIABLE x
Obs == ndJsonDeserialize(IOEnv.VERIF_OBS)
Clause(o) == IF \E i \in 1..Len(o.shas) : o.shas[i] # o.shas[1] THEN (IF o.iserror THEN "SameErrorRecords" ELSE "SameBytes")
             ELSE IF o.internal THEN "NoInternalIdentifiers" ELSE ""
Verdict(o) == LET c == Clause(o) IN [id |-> o.id, v |-> IF c = "" THEN "ok" ELSE "violation:" \o c]
ASSUME ndJsonSerialize(IOEnv.VERIF_OUT, [i \in 1..Len(Obs) |-> Verdict(Obs[i])])
Init == x = 0
Next == UNCHANGED x
=============================================================================
