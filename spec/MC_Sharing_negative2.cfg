SPECIFICATION Spec
CONSTANTS Copies = FALSE
          NRules = 3
INVARIANT EachRuleItsOwn
CHECK_DEADLOCK FALSE
