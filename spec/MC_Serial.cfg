SPECIFICATION Spec
CONSTANT Written <- AllAttrs
INVARIANT FailsRatherThanLies
INVARIANT RoundTrip
INVARIANT MetaRoundTrip
