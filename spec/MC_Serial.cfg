SPECIFICATION Spec
INVARIANT FailsRatherThanLies
INVARIANT RoundTrip
