SPECIFICATION Spec
CONSTANTS Copies = FALSE
          NRules = 3
INVARIANT ConfigurationKept
CHECK_DEADLOCK FALSE
