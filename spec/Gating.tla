------------------------------- MODULE Gating -------------------------------
(***************************************************************************)
(* Where a processing item applies (C13).                                  *)
(* An item carries three groups of conditions - on the rule, on a          *)
(* detection item, on a field name.  A group is                            *)
(*   [conds |-> Seq(cond), link |-> "default"|"and"|"or"|"expr",           *)
(*    expr |-> expression over condition numbers, neg |-> BOOLEAN]         *)
(* and holds for a target iff it has no conditions, or its conditions,     *)
(* combined by the linking (default: and) or by the expression, negated if *)
(* neg is set, evaluate to true.  A transformation acts on                 *)
(*   a detection item  iff rule group /\ detection-item group /\ field group (item's field) *)
(*   a field reference in a value  iff rule group /\ detection-item group /\ field group (referenced field) *)
(*   an entry of the rule's field list  iff rule group /\ field group      *)
(*   the rule itself   iff rule group.                                     *)
(* Conditions on applied items and on pipeline state see what the items    *)
(* BEFORE this one did to the same rule / detection item / field.          *)
(*                                                                         *)
(* Abstract rule (after the preceding items were applied):                 *)
(*  [ls |-> [cat, prod, svc], tags |-> Seq, corr |-> BOOLEAN,              *)
(*   items |-> Seq([field, vals (value records of Modifiers), applied]),   *)
(*   fields |-> Seq([name, applied]), applied |-> set of item ids,         *)
(*   state |-> Seq(<<key, value>>)]                                        *)
(***************************************************************************)
EXTENDS Modifiers

\* expressions over condition numbers
EId(i) == [k |-> "id", i |-> i]
ENot(a) == [k |-> "not", a |-> a]
EBin(op, l, r) == [k |-> op, l |-> l, r |-> r]
RECURSIVE EvalExpr(_, _)
EvalExpr(e, v) ==     \* v: sequence of booleans, one per condition
    CASE e.k = "id" -> v[e.i]
      [] e.k = "not" -> ~EvalExpr(e.a, v)
      [] e.k = "and" -> EvalExpr(e.l, v) /\ EvalExpr(e.r, v)
      [] OTHER -> EvalExpr(e.l, v) \/ EvalExpr(e.r, v)

GroupHolds(g, vals) ==      \* vals[i] = condition i evaluated on the target
    IF g.conds = <<>> THEN TRUE
    ELSE LET r == CASE g.link = "or" -> \E i \in 1..Len(vals) : vals[i]
                    [] g.link = "expr" -> EvalExpr(g.expr, vals)
                    [] OTHER -> \A i \in 1..Len(vals) : vals[i]
         IN  IF g.neg THEN ~r ELSE r

StateIs(rule, k, v) == \E j \in 1..Len(rule.state) : rule.state[j] = <<k, v>>
InSeq(x, s) == \E j \in 1..Len(s) : s[j] = x
PlainText(v) == RefPlain(v.parts)        \* the plain form a string pattern is matched against

\* ---- rule conditions ---------------------------------------------------------------------
\* [t |-> "logsource", cat, prod, svc] | [t |-> "contains_field", f] | [t |-> "is_sigma_rule"]
\* | [t |-> "is_sigma_correlation_rule"] | [t |-> "tag", s] | [t |-> "applied", s] | [t |-> "state", k, v]
RuleCond(c, rule) ==
    CASE c.t = "logsource" -> /\ (c.cat = <<>> \/ c.cat = rule.ls.cat)
                              /\ (c.prod = <<>> \/ c.prod = rule.ls.prod)
                              /\ (c.svc = <<>> \/ c.svc = rule.ls.svc)
      [] c.t = "contains_field" -> \E j \in 1..Len(rule.items) : rule.items[j].field = c.s
      [] c.t = "is_sigma_rule" -> ~rule.corr
      [] c.t = "is_sigma_correlation_rule" -> rule.corr
      [] c.t = "tag" -> InSeq(c.s, rule.tags)
      [] c.t = "applied" -> InSeq(c.s, rule.applied)
      [] OTHER -> StateIs(rule, c.k, c.v)

\* ---- detection item conditions -----------------------------------------------------------
\* value conditions carry all |-> BOOLEAN (cond: all / any)
ValCond(c, v) ==
    CASE c.t = "match_string" -> v.t \in {"str", "cased"} /\ HasPrefix(PlainText(v), c.s)      \* pattern "^<s>"
      [] c.t = "match_value" -> v.t \in {"str", "cased"} /\ v.parts = ParseStr(c.s)
      [] c.t = "contains_wildcard" -> v.t \in {"str", "cased"} /\ HasWild(v)
      [] OTHER -> v.t = "null"
ItemCond(c, it, rule) ==
    CASE c.t = "applied" -> InSeq(c.s, it.applied)
      [] c.t = "state" -> StateIs(rule, c.k, c.v)
      [] OTHER -> IF c.all THEN \A j \in 1..Len(it.vals) : ValCond(c, it.vals[j])
                  ELSE \E j \in 1..Len(it.vals) : ValCond(c, it.vals[j])

\* ---- field name conditions ---------------------------------------------------------------
\* [t |-> "include", names] | [t |-> "exclude", names] | [t |-> "applied", s] | [t |-> "state", k, v]
FieldCond(c, name, applied, rule) ==
    CASE c.t = "include" -> InSeq(name, c.names)
      [] c.t = "exclude" -> ~InSeq(name, c.names)
      [] c.t = "applied" -> InSeq(c.s, applied)
      [] OTHER -> StateIs(rule, c.k, c.v)

\* ---- the gate ---------------------------------------------------------------------------------
RuleGate(G, rule) == GroupHolds(G.rule, [i \in 1..Len(G.rule.conds) |-> RuleCond(G.rule.conds[i], rule)])
ItemGate(G, it, rule) == GroupHolds(G.item, [i \in 1..Len(G.item.conds) |-> ItemCond(G.item.conds[i], it, rule)])
\* for a detection item the field conditions look at the item's field; `applied` means the item
FieldGateItem(G, it, rule) ==
    GroupHolds(G.field, [i \in 1..Len(G.field.conds) |-> FieldCond(G.field.conds[i], it.field, it.applied, rule)])
FieldGateName(G, f, rule) ==
    GroupHolds(G.field, [i \in 1..Len(G.field.conds) |-> FieldCond(G.field.conds[i], f.name, f.applied, rule)])

ActsOnItem(G, j, rule) == RuleGate(G, rule) /\ ItemGate(G, rule.items[j], rule) /\ FieldGateItem(G, rule.items[j], rule)
\* a field reference in a value of item j: the field conditions look at the REFERENCED field name
ActsOnFieldRef(G, j, refname, rule) ==
    RuleGate(G, rule) /\ ItemGate(G, rule.items[j], rule) /\ FieldGateName(G, [name |-> refname, applied |-> <<>>], rule)
ActsOnFieldEntry(G, j, rule) == RuleGate(G, rule) /\ FieldGateName(G, rule.fields[j], rule)
ActsOnRule(G, rule) == RuleGate(G, rule)
=============================================================================
