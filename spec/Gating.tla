------------------------------- MODULE Gating -------------------------------
(***************************************************************************)
(* Where a processing item applies (C13).                                  *)
(* An item carries three groups of conditions - on the rule, on a          *)
(* detection item, on a field name.  A group is                            *)
(*   [conds |-> Seq(cond), link |-> "default"|"and"|"or"|"expr" (any other *)
(*    word: the configuration is rejected),                                *)
(*    expr |-> expression over condition numbers, neg |-> BOOLEAN]         *)
(* and holds for a target iff it has no conditions, or its conditions,     *)
(* combined by the linking (default: and) or by the expression, negated if *)
(* neg is set, evaluate to true.  A transformation acts on                 *)
(*   a detection item  iff rule group /\ detection-item group /\ field group (item's field) *)
(*   a field reference in a value  iff rule group /\ detection-item group /\ field group (referenced field) *)
(*   an entry of the rule's field list  iff rule group /\ field group      *)
(*   the rule itself   iff rule group.                                     *)
(* Conditions on applied items and on pipeline state see what the items    *)
(* BEFORE this one did to the same rule / detection item / field.          *)
(*                                                                         *)
(* Abstract rule (after the preceding items were applied):                 *)
(*  [ls |-> [cat, prod, svc], tags |-> Seq, corr |-> BOOLEAN,              *)
(*   items |-> Seq([field, vals (value records of Modifiers), applied]),   *)
(*   fields |-> Seq([name, applied]), applied |-> set of item ids,         *)
(*   state |-> Seq(<<key, value>>)]                                        *)
(***************************************************************************)
EXTENDS Modifiers

\* expressions over condition numbers
EId(i) == [k |-> "id", i |-> i]
ENot(a) == [k |-> "not", a |-> a]
EBin(op, l, r) == [k |-> op, l |-> l, r |-> r]
RECURSIVE EvalExpr(_, _)
EvalExpr(e, v) ==     \* v: sequence of booleans, one per condition
    CASE e.k = "id" -> v[e.i]
      [] e.k = "not" -> ~EvalExpr(e.a, v)
      [] e.k = "and" -> EvalExpr(e.l, v) /\ EvalExpr(e.r, v)
      [] OTHER -> EvalExpr(e.l, v) \/ EvalExpr(e.r, v)

\* the linking words: anything else in their place is a mistake in the configuration, not another way to say "and"
ValidLink(l) == l \in {"default", "and", "or", "expr"}
ValidGate(G) == ValidLink(G.rule.link) /\ ValidLink(G.item.link) /\ ValidLink(G.field.link)
GroupHolds(g, vals) ==      \* vals[i] = condition i evaluated on the target
    IF g.conds = <<>> THEN TRUE
    ELSE LET r == CASE g.link = "or" -> \E i \in 1..Len(vals) : vals[i]
                    [] g.link = "expr" -> EvalExpr(g.expr, vals)
                    [] OTHER -> \A i \in 1..Len(vals) : vals[i]
         IN  IF g.neg THEN ~r ELSE r

\* a state value / the value a state condition is configured with: a text or a whole number, [num, n, s].
\* state entry == <<key, value>> ; condition [t |-> "state", k, op, num, n, v (text)].  eq / ne are (in)equality (the text
\* "5" is not the number 5); the order operators compare numbers with numbers and texts with texts (by code points); a
\* text and a number are not ordered - the comparison does not hold.  A key that was never set satisfies no condition.
SVal(t) == [num |-> FALSE, n |-> 0, s |-> t]
NVal(n) == [num |-> TRUE, n |-> n, s |-> <<>>]
CondVal(c) == [num |-> c.num, n |-> c.n, s |-> c.v]
RECURSIVE LexLess(_, _)
LexLess(a, b) == IF b = <<>> THEN FALSE ELSE IF a = <<>> THEN TRUE
                 ELSE IF a[1] # b[1] THEN a[1] < b[1] ELSE LexLess(Tail(a), Tail(b))
NumRel(op, a, b) == CASE op = "gte" -> a >= b [] op = "gt" -> a > b [] op = "lte" -> a <= b [] OTHER -> a < b
CmpVals(a, op, b) ==
    CASE op = "eq" -> a = b
      [] op = "ne" -> a # b
      [] OTHER -> IF a.num /\ b.num THEN NumRel(op, a.n, b.n)
                  ELSE IF ~a.num /\ ~b.num THEN
                      (CASE op = "gte" -> ~LexLess(a.s, b.s) [] op = "gt" -> LexLess(b.s, a.s)
                         [] op = "lte" -> ~LexLess(b.s, a.s) [] OTHER -> LexLess(a.s, b.s))
                  ELSE FALSE
StateIs(rule, c) == \E j \in 1..Len(rule.state) : rule.state[j][1] = c.k /\ CmpVals(rule.state[j][2], c.op, CondVal(c))
InSeq(x, s) == \E j \in 1..Len(s) : s[j] = x
PlainText(v) == RefPlain(v.parts)        \* the plain form a string pattern is matched against

\* ---- rule attributes ---------------------------------------------------------------------
\* rule.attrs == Seq([name, kind |-> "int" | "str" | "level", n (number or level rank), s (text)])
\* condition [t |-> "attr", k |-> attribute name, s |-> operator, v |-> configured value as text]
\* numbers and severity levels compare by order, strings by equality; an attribute the rule does not
\* have never matches
LevelRank(t) == CASE t = <<105,110,102,111,114,109,97,116,105,111,110,97,108>> -> 1 [] t = <<108,111,119>> -> 2
                  [] t = <<109,101,100,105,117,109>> -> 3 [] t = <<104,105,103,104>> -> 4
                  [] t = <<99,114,105,116,105,99,97,108>> -> 5 [] OTHER -> 0
AttrRel(op, a, b) == CASE op = "eq" -> a = b [] op = "ne" -> a # b [] op = "gte" -> a >= b [] op = "gt" -> a > b
                   [] op = "lte" -> a <= b [] OTHER -> a < b
AttrCond(c, rule) ==
    LET J == {j \in 1..Len(rule.attrs) : rule.attrs[j].name = c.k} IN
    IF J = {} THEN FALSE
    ELSE LET a == rule.attrs[CHOOSE j \in J : TRUE] IN
         CASE a.kind = "int" -> AttrRel(c.s, a.n, DecVal(c.v))
           [] a.kind = "level" -> AttrRel(c.s, a.n, LevelRank(c.v))
           [] OTHER -> IF c.s = "eq" THEN a.s = c.v ELSE a.s # c.v
\* the value a contains_detection_item condition looks for: a string pattern or a number, as written
ValueIs(v, text) == \/ (v.t \in {"str", "cased"} /\ v.parts = ParseStr(text))
                    \/ (v.t = "num" /\ text # <<>> /\ (\A i \in 1..Len(text) : IsDigit(text[i])) /\ v.num = <<DecVal(text), 1>>)

\* ---- rule conditions ---------------------------------------------------------------------
\* [t |-> "logsource", cat, prod, svc] | [t |-> "contains_field", f] | [t |-> "is_sigma_rule"]
\* | [t |-> "is_sigma_correlation_rule"] | [t |-> "tag", s] | [t |-> "applied", s] | [t |-> "state", k, v]
\* | [t |-> "attr", k, s, v] | [t |-> "contains_item", k (field), v (value text)]
RuleCond(c, rule) ==
    CASE c.t = "logsource" -> /\ (c.cat = <<>> \/ c.cat = rule.ls.cat)
                              /\ (c.prod = <<>> \/ c.prod = rule.ls.prod)
                              /\ (c.svc = <<>> \/ c.svc = rule.ls.svc)
      [] c.t = "contains_field" -> \E j \in 1..Len(rule.items) : rule.items[j].field = c.s
      [] c.t = "is_sigma_rule" -> ~rule.corr
      [] c.t = "is_sigma_correlation_rule" -> rule.corr
      [] c.t = "tag" -> InSeq(c.s, rule.tags)
      [] c.t = "applied" -> InSeq(c.s, rule.applied)
      [] c.t = "attr" -> AttrCond(c, rule)
      [] c.t = "contains_item" -> \E j \in 1..Len(rule.items) :
                                    rule.items[j].field = c.k /\ \E i \in 1..Len(rule.items[j].vals) : ValueIs(rule.items[j].vals[i], c.v)
      [] OTHER -> StateIs(rule, c)

\* ---- detection item conditions -----------------------------------------------------------
\* value conditions carry all |-> BOOLEAN (cond: all / any)
ValCond(c, v) ==
    CASE c.t = "match_string" -> v.t \in {"str", "cased"} /\ HasPrefix(PlainText(v), c.s)      \* pattern "^<s>"
      [] c.t = "match_value" -> v.t \in {"str", "cased"} /\ v.parts = ParseStr(c.s)
      [] c.t = "contains_wildcard" -> v.t \in {"str", "cased"} /\ HasWild(v)
      [] OTHER -> v.t = "null"
ItemCond(c, it, rule) ==
    CASE c.t = "applied" -> InSeq(c.s, it.applied)
      [] c.t = "state" -> StateIs(rule, c)
      [] OTHER -> IF c.all THEN \A j \in 1..Len(it.vals) : ValCond(c, it.vals[j])
                  ELSE \E j \in 1..Len(it.vals) : ValCond(c, it.vals[j])

\* ---- field name conditions ---------------------------------------------------------------
\* [t |-> "include", names] | [t |-> "exclude", names] | [t |-> "applied", s] | [t |-> "state", k, v]
\* include / exclude in regular-expression mode: EACH entry is an expression of its own, matched at the beginning of the
\* name.  The expressions of the model: [ci, text, end] = an optional flag (?i), a literal text, an optional $ at the end.
ReMatch(p, name) == LET n == IF p.ci THEN LowerSeq(name) ELSE name
                        t == IF p.ci THEN LowerSeq(p.text) ELSE p.text
                    IN  IF p.end THEN n = t ELSE HasPrefix(n, t)
FieldCond(c, name, applied, rule) ==
    CASE c.t = "include" -> InSeq(name, c.names)
      [] c.t = "exclude" -> ~InSeq(name, c.names)
      [] c.t = "include_re" -> \E j \in 1..Len(c.pats) : ReMatch(c.pats[j], name)
      [] c.t = "exclude_re" -> ~\E j \in 1..Len(c.pats) : ReMatch(c.pats[j], name)
      [] c.t = "applied" -> InSeq(c.s, applied)
      [] OTHER -> StateIs(rule, c)

\* ---- the gate ---------------------------------------------------------------------------------
RuleGate(G, rule) == GroupHolds(G.rule, [i \in 1..Len(G.rule.conds) |-> RuleCond(G.rule.conds[i], rule)])
ItemGate(G, it, rule) == GroupHolds(G.item, [i \in 1..Len(G.item.conds) |-> ItemCond(G.item.conds[i], it, rule)])
\* for a detection item the field conditions look at the item's field; `applied` means the item
FieldGateItem(G, it, rule) ==
    GroupHolds(G.field, [i \in 1..Len(G.field.conds) |-> FieldCond(G.field.conds[i], it.field, it.applied, rule)])
FieldGateName(G, f, rule) ==
    GroupHolds(G.field, [i \in 1..Len(G.field.conds) |-> FieldCond(G.field.conds[i], f.name, f.applied, rule)])

ActsOnItem(G, j, rule) == RuleGate(G, rule) /\ ItemGate(G, rule.items[j], rule) /\ FieldGateItem(G, rule.items[j], rule)
\* a field reference in a value of item j: the field conditions look at the REFERENCED field name
ActsOnFieldRef(G, j, refname, rule) ==
    RuleGate(G, rule) /\ ItemGate(G, rule.items[j], rule) /\ FieldGateName(G, [name |-> refname, applied |-> <<>>], rule)
ActsOnFieldEntry(G, j, rule) == RuleGate(G, rule) /\ FieldGateName(G, rule.fields[j], rule)
ActsOnRule(G, rule) == RuleGate(G, rule)
=============================================================================
