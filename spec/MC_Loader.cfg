SPECIFICATION Spec
CONSTANT NChecks = 6
INVARIANT CollectNeverRaises
INVARIANT ErrorsIffStrictRaises
INVARIANT FirstErrorEqual
