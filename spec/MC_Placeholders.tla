--------------------------- MODULE MC_Placeholders ---------------------------
(* Mode A for placeholder expansion: a value with placeholders is pushed through a pipeline one
   item per transition.  Invariants: the number of values after a value-list item is the product of
   the table sizes of the handled placeholders (all combinations), combination order is
   first-placeholder-outermost, unhandled placeholders survive untouched, a wildcard item leaves no
   handled placeholder, and no item ever invents a placeholder.                                  *)
EXTENDS Placeholders, ModSeeds, TLC
VARIABLES vals, k, pipe, src
vars == <<vals, k, pipe, src>>
NX == <<120>> NY == <<121>> NZ == <<122>>
It(t, m, ns) == [type |-> t, mode |-> m, names |-> ns]
ItemPool == {It("value", "all", <<>>), It("value", "include", <<NX>>), It("value", "exclude", <<NX>>),
             It("wildcard", "all", <<>>), It("wildcard", "include", <<NZ>>)}
Table == <<(<<NX, <<SS(<<112>>), SS(<<113>>)>>>>), (<<NY, <<SS(<<114>>), SS(<<115>>), SS(<<116>>)>>>>), (<<NZ, <<SS(<<117>>)>>>>)>>
Sources == {<<CH_PCT, 120, CH_PCT>>, <<97, CH_PCT, 120, CH_PCT, 98, CH_PCT, 121, CH_PCT>>,
            <<CH_PCT, 120, CH_PCT, CH_PCT, 122, CH_PCT, CH_PCT, 121, CH_PCT>>, <<CH_PCT, 121, CH_PCT, 42, CH_PCT, 120, CH_PCT>>}
Expanded(s) == LET r == ExpandFrom(ParseStr(s), 1) IN VStr("str", r.parts, r.phs)
Init == /\ src \in Sources /\ pipe \in [1..2 -> ItemPool] /\ k = 1 /\ vals = <<Expanded(src)>>
Next == /\ k <= 2
        /\ LET r == PipeOnValues(<<pipe[k]>>, Table, vals, 1) IN r.st = "ok" /\ vals' = r.vals
        /\ k' = k + 1 /\ UNCHANGED <<pipe, src>>
Spec == Init /\ [][Next]_vars
Size(n) == Len(VarLookup(Table, n).vals)
RECURSIVE Prod(_)
Prod(ns) == IF ns = <<>> THEN 1 ELSE Size(Head(ns)) * Prod(Tail(ns))
NoInvention == \A j \in 1..Len(vals) : \A n \in LeftOver(vals[j]) : n \in LeftOver(Expanded(src))
AllCombinations == [][k = 1 /\ pipe[1].type = "value" =>
                        Len(vals') = Prod(SelectSeq(Expanded(src).phs, LAMBDA n : Handled(pipe[1], n)))]_vars
UnhandledSurvive == [][\A n \in LeftOver(Expanded(src)) :
                        (k = 1 /\ ~Handled(pipe[1], n)) => \A j \in 1..Len(vals') : n \in LeftOver(vals'[j])]_vars
HandledGone == [][\A j \in 1..Len(vals') : \A n \in LeftOver(vals'[j]) : ~Handled(pipe[k], n)]_vars
FirstOutermost == (k = 2 /\ pipe[1] = It("value", "all", <<>>) /\ src = <<97, CH_PCT, 120, CH_PCT, 98, CH_PCT, 121, CH_PCT>>) =>
    [j \in 1..Len(vals) |-> vals[j].parts] = <<(<<97,112,98,114>>), (<<97,112,98,115>>), (<<97,112,98,116>>),
                                                (<<97,113,98,114>>), (<<97,113,98,115>>), (<<97,113,98,116>>)>>
=============================================================================
