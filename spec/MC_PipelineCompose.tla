------------------------ MODULE MC_PipelineCompose ------------------------
(* Mode A for C14 (Ideal): sums are reduced step by step in ANY order (one '+' per
   transition, any two adjacent operands), the resolver is given ANY permutation.
   Invariants: whatever the reduction order (= bracketing), the final pipeline is the
   concatenation in operand order with later variables overriding; the empty pipeline is
   an identity; the resolver's result does not depend on the permutation.               *)
EXTENDS PipelineCompose, TLC
VARIABLES work, perm
vars == <<work, perm>>
D(n, p, it, po, v) == [name |-> n, prio |-> p, items |-> it, post |-> po, fin |-> <<>>, vars |-> v]
Pool == <<D(1, 10, <<1>>, <<1>>, <<(<<1, 1>>), (<<2, 1>>)>>), D(2, 20, <<2>>, <<2>>, <<(<<1, 2>>)>>),
          D(3, 10, <<3, 4>>, <<>>, <<(<<3, 3>>)>>), D(4, 5, <<5>>, <<3>>, <<(<<2, 4>>)>>),
          [EmptyDef EXCEPT !.name = 5, !.prio = 10]>>
Perms(n) == {p \in [1..n -> 1..n] : \A i, j \in 1..n : i # j => p[i] # p[j]}
Init == /\ perm \in Perms(Len(Pool))
        /\ work = [i \in 1..Len(Pool) |-> Pool[perm[i]]]
Reduce(i) == /\ Len(work) > 1 /\ i \in 1..(Len(work) - 1)
             /\ work' = SubSeq(work, 1, i - 1) \o <<Plus(work[i], work[i + 1])>> \o SubSeq(work, i + 2, Len(work))
             /\ UNCHANGED perm
Next == \E i \in 1..Len(work) : Reduce(i)
Spec == Init /\ [][Next]_vars
Given == [i \in 1..Len(Pool) |-> Pool[perm[i]]]
Flat(s, f(_)) == FoldLeft(LAMBDA acc, d : acc \o f(d), <<>>, s)
AddIsConcat == Len(work) = 1 =>
    /\ work[1].items = Flat(Given, LAMBDA d : d.items)
    /\ work[1].post = Flat(Given, LAMBDA d : d.post)
    /\ VarSet(work[1].vars) = VarSet(SumSeq(Given).vars)
    /\ work[1].items = SumSeq(Given).items
LaterVarsOverride == Len(work) = 1 =>
    \A kv \in VarSet(work[1].vars) :
        LET js == {j \in 1..Len(Given) : \E m \in 1..Len(Given[j].vars) : Given[j].vars[m][1] = kv[1]}
            last == CHOOSE j \in js : \A j2 \in js : j >= j2
        IN  kv \in VarSet(Given[last].vars)
ResolveOrderFree == Resolve(Given).items = Resolve(Pool).items /\ Resolve(Given).post = Resolve(Pool).post
                    /\ VarSet(Resolve(Given).vars) = VarSet(Resolve(Pool).vars)
ResolveSorted == LET s == SortDefs(Given) IN \A i \in 1..(Len(s) - 1) : ~Before(s[i + 1], s[i])
AllBracketings == \A t \in Brackets(1, 4) : EvalTree(t, Given).items = SumSeq(SubSeq(Given, 1, 4)).items
=============================================================================
