----------------------------- MODULE Validation -----------------------------
(***************************************************************************)
(* Rule validation (C19).  A collection is a sequence of abstract rules    *)
(*   [names |-> Seq(detection name), conds |-> Seq(condition text),        *)
(*    uid |-> Nat (0 = none; equal numbers = same UUID), title |-> Nat,    *)
(*    fname |-> Nat (file name class), dir |-> Nat (directory class)]      *)
(* Validating is a state machine over (rule, validator) pairs: a step may  *)
(* add issues and update the validator's tables, and NEVER touches the     *)
(* rule; Finalize adds the cross-rule issues.  The reference checks are    *)
(* exact:                                                                  *)
(*   unused detection n of rule r   iff no condition of r refers to n by   *)
(*                                  name or by a matching selector         *)
(*   dangling selector p of rule r  iff p matches no detection of r        *)
(*   id / title / file name issues  name exactly the groups (>= 2 rules)   *)
(*                                  sharing the value                      *)
(* An exclusion (validator, rule uid) removes the rule from that validator *)
(* altogether (also from its cross-rule tables).                           *)
(***************************************************************************)
EXTENDS CondLang

\* names a condition refers to (indices into names), selectors that match nothing
RECURSIVE RefsOfAst(_, _)
RefsOfAst(a, names) ==
    CASE a.k = "id" -> (IF IndexOf(a.n, names) = 0 THEN {} ELSE {IndexOf(a.n, names)})
      [] a.k = "sel" -> SelMatches(a.p, names)
      [] a.k = "cnot" -> RefsOfAst(a.a, names)
      [] OTHER -> RefsOfAst(a.l, names) \cup RefsOfAst(a.r, names)
RECURSIVE EmptySelectors(_, _)
EmptySelectors(a, names) ==
    CASE a.k = "id" -> {}
      [] a.k = "sel" -> (IF SelMatches(a.p, names) = {} THEN {a.p} ELSE {})
      [] a.k = "cnot" -> EmptySelectors(a.a, names)
      [] OTHER -> EmptySelectors(a.l, names) \cup EmptySelectors(a.r, names)
Referenced(rule) == UNION {LET p == Parse(rule.conds[c]) IN IF p.ok THEN RefsOfAst(p.ast, rule.names) ELSE {} : c \in 1..Len(rule.conds)}
Dangling(rule) == UNION {LET p == Parse(rule.conds[c]) IN IF p.ok THEN EmptySelectors(p.ast, rule.names) ELSE {} : c \in 1..Len(rule.conds)}

Issue(t, rs, key) == [t |-> t, rules |-> rs, key |-> key]
\* excl: set of <<validator, uid>> ; V: set of validators in use
\* (uid 0 = a rule without identifier; the exclusion table may have an entry for such rules, key null)
Active(v, r, coll, excl, V) == v \in V /\ <<v, coll[r].uid>> \notin excl
Groups(coll, v, excl, V, attr(_)) ==
    {g \in {{r \in 1..Len(coll) : Active(v, r, coll, excl, V) /\ attr(coll[r]) = x /\ x # 0} : x \in {attr(coll[r]) : r \in 1..Len(coll)}} :
        Cardinality(g) >= 2}
\* file names collide when the same name occurs under at least two different paths
FileGroups(coll, excl, V) ==
    {g \in {{r \in 1..Len(coll) : Active("duplicate_filename", r, coll, excl, V) /\ coll[r].fname = x} : x \in {coll[r].fname : r \in 1..Len(coll)}} :
        Cardinality({coll[r].dir : r \in g}) >= 2}
KeyOfGroup(coll, g, attr(_)) == attr(coll[CHOOSE r \in g : TRUE])
ExpectedIssues(coll, V, excl) ==
    UNION {{Issue("dangling_detection", {r}, coll[r].names[n]) : n \in {m \in 1..Len(coll[r].names) : m \notin Referenced(coll[r])}}
             : r \in {q \in 1..Len(coll) : Active("dangling_detection", q, coll, excl, V)}}
    \cup UNION {{Issue("dangling_condition", {r}, p) : p \in Dangling(coll[r])}
             : r \in {q \in 1..Len(coll) : Active("dangling_condition", q, coll, excl, V)}}
    \cup {Issue("identifier_uniqueness", g, <<KeyOfGroup(coll, g, LAMBDA x : x.uid)>>) : g \in Groups(coll, "identifier_uniqueness", excl, V, LAMBDA x : x.uid)}
    \cup {Issue("duplicate_title", g, <<KeyOfGroup(coll, g, LAMBDA x : x.title)>>) : g \in Groups(coll, "duplicate_title", excl, V, LAMBDA x : x.title)}
    \cup {Issue("duplicate_filename", g, <<KeyOfGroup(coll, g, LAMBDA x : x.fname)>>) : g \in FileGroups(coll, excl, V)}
=============================================================================
