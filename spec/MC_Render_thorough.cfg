SPECIFICATION Spec
CONSTANT MaxOps = 3
INVARIANT RenderedMeansTree
