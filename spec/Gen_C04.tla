----------------------------- MODULE Gen_C04 -----------------------------
(* Mode B generator for C04: payloads (all lengths mod 3 in bytes; ASCII, escaped
   wildcard, 2-, 3- and 4-byte characters, control and line-boundary characters) x
   encoding modifier chains.                                                       *)
EXTENDS SigmaStr, Json, IOUtils, Randomization, TLC
VARIABLE x
Tier == IOEnv.VERIF_TIER
Shard == atoi(IOEnv.VERIF_SHARD)
Alpha == {65, 98, 42, 233, 8364, 256, 128512, 92}
MaxLen == IF Tier = "quick" THEN 3 ELSE 4
\* characters that text functions single out (line feed: not matched by the regular expression dot; carriage return, NUL,
\* next line U+0085 and line separator U+2028: line boundaries of splitlines) beside a letter
Ctl == {10, 13, 0, 133, 8232, 65}
\* (the empty payload included: nothing to encode - but the byte order mark of utf16 is there all the same)
Payloads == SeqsUpTo(Alpha, MaxLen) \cup (SeqsUpTo(Ctl, 3) \ {<<>>}) \cup
            UNION {RandomSubset(IF Tier = "quick" THEN 40 ELSE 1500, [1..n -> Alpha]) : n \in {5, 6, 7, 9}}
Chains == <<
  <<"base64">>, <<"base64offset">>, <<"base64offset", "contains">>,
  <<"wide", "base64">>, <<"wide", "base64offset">>, <<"wide", "base64offset", "contains">>,
  <<"utf16", "base64">>, <<"utf16", "base64offset">>,
  <<"utf16be", "base64">>, <<"utf16be", "base64offset">>,
  <<"wide">>, <<"utf16">>, <<"utf16be">>,
  \* utf16le: the name the Sigma specification gives the wide modifier (a library that does not know it rejects it)
  <<"utf16le">>, <<"utf16le", "base64">>, <<"utf16le", "base64offset">> >>
\* payload p is a sequence of literal characters; its source text escapes what must be escaped
Cases == {[payload |-> p, src |-> RefPlain(p), chain |-> Chains[Shard]] : p \in Payloads}
ASSUME LET S == SetToSeq(Cases)
       IN  ndJsonSerialize(IOEnv.VERIF_OUT, [i \in 1..Len(S) |-> [id |-> Shard * 1000000 + i] @@ S[i]])
Init == x = 0
Next == UNCHANGED x
=============================================================================
