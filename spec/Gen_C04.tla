----------------------------- MODULE Gen_C04 -----------------------------
(* Mode B generator for C04: payloads (all lengths mod 3 in bytes; ASCII, escaped
   wildcard, 2-, 3- and 4-byte characters, control and line-boundary characters) x
   encoding modifier chains.                                                       *)
EXTENDS SigmaStr, Json, IOUtils, Randomization, TLC
VARIABLE x
Tier == IOEnv.VERIF_TIER
Shard == atoi(IOEnv.VERIF_SHARD)
Alpha == {65, 98, 42, 233, 8364, 256, 128512, 92}
MaxLen == IF Tier = "quick" THEN 3 ELSE 4
\* characters that text functions single out (line feed: not matched by the regular expression dot; carriage return, NUL,
\* next line U+0085 and line separator U+2028: line boundaries of splitlines) beside a letter
Ctl == {10, 13, 0, 133, 8232, 65}
\* (the empty payload included: nothing to encode - but the byte order mark of utf16 is there all the same)
Payloads == SeqsUpTo(Alpha, MaxLen) \cup (SeqsUpTo(Ctl, 3) \ {<<>>}) \cup
            UNION {RandomSubset(IF Tier = "quick" THEN 40 ELSE 1500, [1..n -> Alpha]) : n \in {5, 6, 7, 9}}
Chains == <<
  <<"base64">>, <<"base64offset">>, <<"base64offset", "contains">>,
  <<"wide", "base64">>, <<"wide", "base64offset">>, <<"wide", "base64offset", "contains">>,
  <<"utf16", "base64">>, <<"utf16", "base64offset">>,
  <<"utf16be", "base64">>, <<"utf16be", "base64offset">>,
  <<"wide">>, <<"utf16">>, <<"utf16be">>,
  \* utf16le: the name the Sigma specification gives the wide modifier (a library that does not know it rejects it)
  <<"utf16le">>, <<"utf16le", "base64">>, <<"utf16le", "base64offset">> >>
\* payload p is a sequence of literal characters; its source text escapes what must be escaped
\* a value that holds an UNESCAPED wildcard (wild = its code point) has no byte string: a Base64 chain must refuse it
\* (the backslash is left out of these payloads: before a wildcard it would escape it)
Min2(a, b) == IF a < b THEN a ELSE b
Pre(p, k) == [i \in 1..Min2(k, Len(p)) |-> p[i]]
Post(p, k) == [i \in 1..(Len(p) - Min2(k, Len(p))) |-> p[Min2(k, Len(p)) + i]]
WildPayloads == SeqsUpTo(Alpha \ {92}, 2)
HasB64 == \E i \in 1..Len(Chains[Shard]) : Chains[Shard][i] \in {"base64", "base64offset"}
WildCases == IF ~HasB64 THEN {} ELSE
             {[payload |-> p, src |-> RefPlain(Pre(p, k)) \o <<w>> \o RefPlain(Post(p, k)), chain |-> Chains[Shard], wild |-> w]
                : p \in WildPayloads, k \in 0..2, w \in {42, 63}}
Cases == {[payload |-> p, src |-> RefPlain(p), chain |-> Chains[Shard], wild |-> 0] : p \in Payloads}
         \cup WildCases
ASSUME LET S == SetToSeq(Cases)
       IN  ndJsonSerialize(IOEnv.VERIF_OUT, [i \in 1..Len(S) |-> [id |-> Shard * 1000000 + i] @@ S[i]])
Init == x = 0
Next == UNCHANGED x
=============================================================================
