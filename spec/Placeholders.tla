---------------------------- MODULE Placeholders ----------------------------
(***************************************************************************)
(* Placeholder handling by processing pipelines (C17).                     *)
(* A value after `expand` is a string whose parts contain PH marks; phs    *)
(* lists the names in order.  A pipeline is a sequence of placeholder      *)
(* items                                                                   *)
(*   [type |-> "value" | "wildcard" | "qexpr",                             *)
(*    mode |-> "all" | "include" | "exclude", names |-> Seq(name)]         *)
(* and a variable table vars == Seq(<<name, Seq(source value)>>).          *)
(*  value     every handled placeholder is replaced by each configured     *)
(*            value: all combinations, first placeholder outermost         *)
(*  wildcard  every handled placeholder becomes a multi-character wildcard *)
(*  qexpr     a value consisting of exactly one handled placeholder        *)
(*            becomes a query expression over its name                     *)
(* Placeholders no item handles stay; rendering such a value fails with an *)
(* error naming the placeholder.                                           *)
(***************************************************************************)
EXTENDS Detection

Handled(it, n) == CASE it.mode = "all" -> TRUE
                    [] it.mode = "include" -> \E j \in 1..Len(it.names) : it.names[j] = n
                    [] OTHER -> ~\E j \in 1..Len(it.names) : it.names[j] = n
VarLookup(vars, n) == LET J == {j \in 1..Len(vars) : vars[j][1] = n} IN
                      IF J = {} THEN [found |-> FALSE, vals |-> <<>>] ELSE [found |-> TRUE, vals |-> vars[CHOOSE j \in J : TRUE][2]]
\* text of a configured value as it is inserted: strings are parsed like rule values, numbers printed
ValParts(sv) == IF sv.t = "s" THEN ParseStr(sv.s)
                ELSE IF sv.num[1] >= 0 THEN NatText(sv.num[1]) ELSE <<45>> \o NatText(0 - sv.num[1])

\* one placeholder item on one string value -> [st, vals]
\* replace placeholders left to right; result = sequence of <<parts, phs>> in combination order
RECURSIVE Combos(_, _, _, _, _)
Combos(it, vars, parts, phs, k) ==      \* k = index of the next name in phs; returns [st, out |-> Seq([parts, phs])]
    LET I == {i \in 1..Len(parts) : parts[i] = PH} IN
    IF I = {} THEN [st |-> "ok", out |-> <<[parts |-> parts, phs |-> <<>>]>>]
    ELSE LET i == CHOOSE j \in I : \A j2 \in I : j <= j2
             pre == SubSeq(parts, 1, i - 1)
             rest == Combos(it, vars, SubSeq(parts, i + 1, Len(parts)), phs, k + 1)
             n == phs[k]
         IN  IF rest.st # "ok" THEN rest
             ELSE IF ~Handled(it, n) THEN
                 [st |-> "ok", out |-> [r \in 1..Len(rest.out) |->
                     [parts |-> pre \o <<PH>> \o rest.out[r].parts, phs |-> <<n>> \o rest.out[r].phs]]]
             ELSE IF it.type = "wildcard" THEN
                 [st |-> "ok", out |-> [r \in 1..Len(rest.out) |->
                     [parts |-> pre \o <<STAR>> \o rest.out[r].parts, phs |-> rest.out[r].phs]]]
             ELSE LET lk == VarLookup(vars, n) IN
                  \* a table without entries: the alternatives are OR-linked and there is none - nothing the item could be
                  \* replaced by stands for that (least of all a test for null), the conversion fails
                  IF lk.found /\ lk.vals = <<>> THEN [st |-> "fail", out |-> <<>>]
                  \* a boolean entry (a number for Python) is not covered by the documentation
                  ELSE IF lk.found /\ (\E j \in 1..Len(lk.vals) : lk.vals[j].t = "b") THEN [st |-> "unspec", out |-> <<>>]
                  ELSE IF ~lk.found \/ \E j \in 1..Len(lk.vals) : lk.vals[j].t \notin {"s", "n"} THEN [st |-> "fail", out |-> <<>>]
                  ELSE IF \E j \in 1..Len(lk.vals) : lk.vals[j].t = "n" /\ lk.vals[j].num[2] # 1 THEN [st |-> "unspec", out |-> <<>>]
                  ELSE [st |-> "ok", out |->
                        Concat([j \in 1..Len(lk.vals) |-> [r \in 1..Len(rest.out) |->
                            [parts |-> pre \o ValParts(lk.vals[j]) \o rest.out[r].parts, phs |-> rest.out[r].phs]]])]

\* the parts of an expanded regular expression, recovered from its text and its placeholder names
RePartsPH(t, phs) ==
    LET RECURSIVE Go(_, _)
        Go(i, k) ==
            IF i > Len(t) THEN <<>>
            ELSE IF /\ k <= Len(phs) /\ t[i] = CH_PCT /\ i + Len(phs[k]) + 1 <= Len(t)
                    /\ SubSeq(t, i + 1, i + Len(phs[k])) = phs[k] /\ t[i + Len(phs[k]) + 1] = CH_PCT
                 THEN <<PH>> \o Go(i + Len(phs[k]) + 2, k + 1)
            ELSE <<IF t[i] = CH_STAR THEN STAR ELSE IF t[i] = CH_QM THEN QM ELSE t[i]>> \o Go(i + 1, k)
    IN  Go(1, 1)
PHName(v) == v.phs
AnyHandled(it, v) == \E k \in 1..Len(v.phs) : Handled(it, v.phs[k])

ItemOnValue(it, vars, v) ==      \* [st, vals]
    IF v.t \in {"str", "cased"} /\ v.phs # <<>> THEN
        IF it.type = "qexpr" THEN
            (IF v.parts = <<PH>> THEN
                 (IF Handled(it, v.phs[1]) THEN [st |-> "ok", vals |-> <<[V("qexpr") EXCEPT !.s = v.phs[1]]>>]
                  ELSE [st |-> "ok", vals |-> <<v>>])
             \* a string mixing placeholders with other parts: an item that handles none of its placeholders leaves it
             \* alone; for one that does the documentation only says that placeholder-only strings are accepted
             ELSE IF ~AnyHandled(it, v) THEN [st |-> "ok", vals |-> <<v>>]
             ELSE [st |-> "unspec", vals |-> <<>>])
        ELSE IF ~AnyHandled(it, v) THEN [st |-> "ok", vals |-> <<v>>]
        ELSE LET c == Combos(it, vars, v.parts, v.phs, 1) IN
             [st |-> c.st, vals |-> [r \in 1..Len(c.out) |-> [v EXCEPT !.parts = c.out[r].parts, !.phs = c.out[r].phs]]]
    ELSE IF v.t = "re" /\ v.phs # <<>> THEN
        \* a regular expression: value lists splice their texts into the expression; what a wildcard
        \* or a query expression means inside a regular expression is not documented
        (IF ~AnyHandled(it, v) THEN [st |-> "ok", vals |-> <<v>>]
         ELSE IF it.type # "value" THEN [st |-> "unspec", vals |-> <<>>]
         ELSE LET c == Combos(it, vars, RePartsPH(v.s, v.phs), v.phs, 1) IN
              [st |-> c.st, vals |-> [r \in 1..Len(c.out) |->
                    [v EXCEPT !.s = ReText(c.out[r].parts, c.out[r].phs), !.phs = c.out[r].phs]]])
    ELSE [st |-> "ok", vals |-> <<v>>]

RECURSIVE PipeOnValues(_, _, _, _)
PipeOnValues(items, vars, vs, k) ==
    IF k > Len(items) THEN [st |-> "ok", vals |-> vs]
    ELSE LET rs == [j \in 1..Len(vs) |-> ItemOnValue(items[k], vars, vs[j])]
             st == Worst([j \in 1..Len(rs) |-> rs[j].st])
         IN  IF st # "ok" THEN [st |-> st, vals |-> <<>>]
             ELSE PipeOnValues(items, vars, Concat([j \in 1..Len(rs) |-> rs[j].vals]), k + 1)

\* names of the placeholders left in a value
RECURSIVE LeftOver(_)
LeftOver(v) == IF v.t = "exp" THEN UNION {LeftOver(v.vals[j]) : j \in 1..Len(v.vals)}
               ELSE {v.phs[j] : j \in 1..Len(v.phs)}
=============================================================================
