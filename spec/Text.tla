------------------------------- MODULE Text -------------------------------
(***************************************************************************)
(* Text as sequences of Unicode code points (TLC cannot index strings).    *)
(* Everything the suite says about characters is said here.                *)
(***************************************************************************)
EXTENDS Integers, Sequences, FiniteSets, SequencesExt, Folds

\* ---- character classes --------------------------------------------------
IsUpper(c) == c >= 65 /\ c <= 90
IsLower(c) == c >= 97 /\ c <= 122
IsDigit(c) == c >= 48 /\ c <= 57
IsAlpha(c) == IsUpper(c) \/ IsLower(c)
IsAlnum(c) == IsAlpha(c) \/ IsDigit(c)
IsSpace(c) == c \in {32, 9, 10, 13}
IsWordChar(c) == IsAlnum(c) \/ c = 95          \* [A-Za-z0-9_]

CH_BSL == 92    \* backslash
CH_STAR == 42
CH_QM == 63
CH_PCT == 37
CH_DQ == 34
CH_SQ == 39
CH_LP == 40
CH_RP == 41
CH_US == 95
CH_DASH == 45
CH_SLASH == 47
CH_SP == 32
CH_EQ == 61
CH_PIPE == 124

Lower(c) == IF IsUpper(c) THEN c + 32 ELSE c
LowerSeq(s) == [i \in 1..Len(s) |-> Lower(s[i])]

\* ---- slicing ------------------------------------------------------------
Slice(s, a, b) == IF a > b THEN <<>> ELSE SubSeq(s, a, b)     \* 1-based inclusive
Drop(s, n) == Slice(s, n + 1, Len(s))
Take(s, n) == Slice(s, 1, IF n < Len(s) THEN n ELSE Len(s))

StartsWithAt(s, i, p) ==   \* p occurs in s at position i
    /\ i + Len(p) - 1 <= Len(s)
    /\ \A j \in 1..Len(p) : s[i + j - 1] = p[j]
HasPrefix(s, p) == StartsWithAt(s, 1, p)
HasSuffix(s, p) == Len(p) <= Len(s) /\ StartsWithAt(s, Len(s) - Len(p) + 1, p)
IsSubstr(p, s) == \E i \in 1..(Len(s) + 1) : StartsWithAt(s, i, p)

Concat(ss) == FoldLeft(LAMBDA acc, x : acc \o x, <<>>, ss)   \* flatten a sequence of sequences
Join(ss, sep) ==
    IF Len(ss) = 0 THEN <<>>
    ELSE FoldLeft(LAMBDA acc, x : acc \o sep \o x, ss[1], Tail(ss))

\* split s at every occurrence of the single code point c
RECURSIVE SplitAt(_, _)
SplitAt(s, c) ==
    IF \A i \in 1..Len(s) : s[i] # c THEN <<s>>
    ELSE LET k == CHOOSE i \in 1..Len(s) : s[i] = c /\ \A j \in 1..(i - 1) : s[j] # c
         IN  <<Slice(s, 1, k - 1)>> \o SplitAt(Drop(s, k), c)

Trim(s) ==
    LET idx == {i \in 1..Len(s) : ~IsSpace(s[i])}
    IN  IF idx = {} THEN <<>>
        ELSE Slice(s, CHOOSE i \in idx : \A j \in idx : i <= j,
                      CHOOSE i \in idx : \A j \in idx : i >= j)

\* ---- glob matching ------------------------------------------------------
\* A pattern is a sequence of parts, all integers (TLC refuses to compare an integer
\* with a string): a code point >= 0 (literal), STAR (any run) or QM (exactly one char).
STAR == 0 - 1
QM == 0 - 2
IsWild(x) == x = STAR \/ x = QM
\* WildMatch is the dynamic-programming definition; WildMatchBrute (below) is the
\* independent declarative one used by MC_Text.
RECURSIVE WildFrom(_, _, _, _)
WildFrom(p, s, i, j) ==   \* does p[i..] match s[j..] ?
    IF i > Len(p) THEN j > Len(s)
    ELSE IF p[i] = STAR THEN \E k \in j..(Len(s) + 1) : WildFrom(p, s, i + 1, k)
    ELSE IF j > Len(s) THEN FALSE
    ELSE IF p[i] = QM THEN WildFrom(p, s, i + 1, j + 1)
    ELSE p[i] = s[j] /\ WildFrom(p, s, i + 1, j + 1)
WildMatch(p, s) == WildFrom(p, s, 1, 1)

\* case-insensitive variant (ASCII folding, as the Sigma specification's default)
WildMatchCI(p, s) ==
    WildMatch([i \in 1..Len(p) |-> IF IsWild(p[i]) THEN p[i] ELSE Lower(p[i])], LowerSeq(s))

\* Brute force: there is a way to cut s into Len(p) consecutive pieces, one per part.
WildMatchBrute(p, s) ==
    \E cut \in [0..Len(p) -> 0..Len(s)] :
        /\ cut[0] = 0 /\ cut[Len(p)] = Len(s)
        /\ \A i \in 1..Len(p) :
              /\ cut[i - 1] <= cut[i]
              /\ IF p[i] = STAR THEN TRUE
                 ELSE cut[i] = cut[i - 1] + 1 /\ (p[i] = QM \/ s[cut[i]] = p[i])

\* all sequences over alphabet A of length <= n
SeqsUpTo(A, n) == UNION {[1..k -> A] : k \in 0..n}

\* decimal text of a natural number
RECURSIVE NatText(_)
NatText(n) == IF n < 10 THEN <<48 + n>> ELSE NatText(n \div 10) \o <<48 + (n % 10)>>
=============================================================================
