------------------------------ MODULE MC_Serial ------------------------------
(* Mode A for C06: the in-sync state machine of a rule object and its metadata.

   Detection items: loaded objects are in sync with their source; a pipeline transformation that
   changes values or splits an item puts the item out of sync; ToDict is enabled only when every
   item is in sync, otherwise ToDictFails.  Invariant: whenever ToDict succeeded, reloading gives
   an object with the same items (round trip), and an out-of-sync object never produces a dict.

   Metadata: a rule carries attributes, each absent (its default) or set.  ToDict writes the set
   attributes it knows of (constant Written); Reload builds an object from the dict, an attribute
   the dict does not carry gets its default.  Invariant MetaRoundTrip: the reloaded object has the
   attributes of the one that was written.  It holds iff Written is the whole attribute set
   (MC_Serial.cfg); MC_Serial_negative.cfg leaves one attribute out and TLC must refute it.     *)
EXTENDS Integers, Sequences, FiniteSets, TLC
CONSTANT Written
VARIABLES items, insync, out, n, meta, re
vars == <<items, insync, out, n, meta, re>>
Vals == {"a", "b"}
Attrs == {"id", "taxonomy", "related", "license", "custom"}
Default(a) == IF a = "taxonomy" THEN "sigma" ELSE "absent"
AllAttrs == Attrs
AllButRelated == Attrs \ {"related"}
NoneOut == [k |-> "none", d |-> <<>>, m |-> <<>>]
NoRe == [k |-> "none", d |-> <<>>, m |-> <<>>]
Init == /\ items \in [1..2 -> Vals] /\ insync = [i \in 1..2 |-> TRUE] /\ out = NoneOut /\ n = 0
        /\ meta \in [Attrs -> {"dflt", "set"}] /\ re = NoRe
Val(a, m) == IF m[a] = "dflt" THEN Default(a) ELSE "v"
Touch == n < 3 /\ n' = n + 1 /\ out' = NoneOut /\ re' = NoRe /\ UNCHANGED meta
Rename(i) == Touch /\ UNCHANGED <<items, insync>>                                          \* field-only change keeps sync
Rewrite(i) == Touch /\ items' = [items EXCEPT ![i] = "b"] /\ insync' = [insync EXCEPT ![i] = FALSE]
ValueTransform(i) == Touch /\ items' = [items EXCEPT ![i] = "b"] /\ UNCHANGED insync       \* original_value re-synced
ToDict == /\ n < 4 /\ n' = n + 1 /\ UNCHANGED <<items, insync, meta>> /\ re' = NoRe
          /\ out' = IF \A i \in 1..2 : insync[i]
                    THEN [k |-> "dict", d |-> items, m |-> [a \in {b \in Written : meta[b] = "set"} |-> "v"]]
                    ELSE [k |-> "error", d |-> <<>>, m |-> <<>>]
Reload == /\ out.k = "dict" /\ re.k = "none" /\ UNCHANGED <<items, insync, out, n, meta>>
          /\ re' = [k |-> "obj", d |-> out.d, m |-> [a \in Attrs |-> IF a \in DOMAIN out.m THEN out.m[a] ELSE Default(a)]]
Next == (\E i \in 1..2 : Rename(i) \/ Rewrite(i) \/ ValueTransform(i)) \/ ToDict \/ Reload
Spec == Init /\ [][Next]_vars
FailsRatherThanLies == out.k # "none" => (out.k = "error" <=> \E i \in 1..2 : ~insync[i])
RoundTrip == (out.k = "dict" => out.d = items) /\ (re.k = "obj" => re.d = items)
MetaRoundTrip == re.k = "obj" => \A a \in Attrs : re.m[a] = Val(a, meta)
=============================================================================
