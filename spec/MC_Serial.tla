------------------------------ MODULE MC_Serial ------------------------------
(* Mode A for C06: the in-sync state machine of a rule object.  Loaded objects are in sync with
   their source; a pipeline transformation that changes values or splits an item puts the item out
   of sync; ToDict is enabled only when every item is in sync, otherwise ToDictFails.  Invariant:
   whenever ToDict succeeded, reloading gives an object with the same items (round trip), and an
   out-of-sync object never produces a dict.                                                   *)
EXTENDS Integers, Sequences, FiniteSets, TLC
VARIABLES items, insync, out, n
vars == <<items, insync, out, n>>
Vals == {"a", "b"}
Init == items \in [1..2 -> Vals] /\ insync = [i \in 1..2 |-> TRUE] /\ out = [k |-> "none", d |-> <<>>] /\ n = 0
Rename(i) == n < 3 /\ n' = n + 1 /\ UNCHANGED <<items, insync>> /\ out' = [k |-> "none", d |-> <<>>]                 \* field-only change keeps sync
Rewrite(i) == n < 3 /\ n' = n + 1 /\ items' = [items EXCEPT ![i] = "b"] /\ insync' = [insync EXCEPT ![i] = FALSE] /\ out' = [k |-> "none", d |-> <<>>]
ValueTransform(i) == n < 3 /\ n' = n + 1 /\ items' = [items EXCEPT ![i] = "b"] /\ UNCHANGED insync /\ out' = [k |-> "none", d |-> <<>>]   \* original_value re-synced
ToDict == n < 4 /\ n' = n + 1 /\ UNCHANGED <<items, insync>> /\ out' = IF \A i \in 1..2 : insync[i] THEN [k |-> "dict", d |-> items] ELSE [k |-> "error", d |-> <<>>]
Next == (\E i \in 1..2 : Rename(i) \/ Rewrite(i) \/ ValueTransform(i)) \/ ToDict
Spec == Init /\ [][Next]_vars
FailsRatherThanLies == out.k # "none" => (out.k = "error" <=> \E i \in 1..2 : ~insync[i])
RoundTrip == out.k = "dict" => out.d = items
=============================================================================
