---------------------------- MODULE Correlation ----------------------------
(***************************************************************************)
(* Correlation rules and the query a template backend must produce (C10).  *)
(*                                                                         *)
(* The /verif correlation templates are delimiter-structured (code points  *)
(* 30 RS, 31 US, 29 GS never occur in rule content):                       *)
(*   query      == search RS typing RS aggregate RS condition              *)
(*   search     == "SINGLE" GS ruleid GS query GS normalization            *)
(*               | "MULTI" US item (US item)*   item == ruleid GS query GS normalization *)
(*   normalization == alias=field (;alias=field)*                          *)
(*   typing     == "" | "TYPING" US ruleid GS query (US ...)*              *)
(*   aggregate  == type GS timespan GS groupby GS field GS percentile GS referenced rules *)
(*   condition  == op GS count GS field GS referenced rules | "EXT" GS expression *)
(* and the whole query is finalised like any other query (here: embedded   *)
(* in < >), the sub-queries only if the backend opts in.                   *)
(***************************************************************************)
EXTENDS QueryLang, CondLang

RS == <<30>> US == <<31>> GS == <<29>>
Tx(s) == s
T_SINGLE == <<83,73,78,71,76,69>>  T_MULTI == <<77,85,76,84,73>>  T_TYPING == <<84,89,80,73,78,71>>  T_EXT == <<69,88,84>>
T_DASH == <<45>>

UnitSeconds(u) == CASE u = 115 -> 1 [] u = 109 -> 60 [] u = 104 -> 3600 [] u = 100 -> 86400
                    [] u = 119 -> 604800 [] u = 77 -> 2629746 [] OTHER -> 31556952        \* s m h d w M y
\* timespan text for the three backend modes; mapping covers m -> "min", h -> "hr" only
Timespan(ts, mode) ==
    CASE mode = "sec" -> NatText(ts.count * UnitSeconds(ts.unit))
      [] mode = "map" /\ ts.unit = 109 -> NatText(ts.count) \o <<109,105,110>>
      [] mode = "map" /\ ts.unit = 104 -> NatText(ts.count) \o <<104,114>>
      [] OTHER -> NatText(ts.count) \o <<ts.unit>>
OpSymbol(op) == CASE op = "lt" -> <<60>> [] op = "lte" -> <<60,61>> [] op = "gt" -> <<62>> [] op = "gte" -> <<62,61>>
                  [] op = "eq" -> <<61,61>> [] OTHER -> <<33,61>>
Quoted(f) == <<96>> \o f \o <<96>>             \* field names of the seed family need no escaping

\* field renaming by the pipeline of the case (applied to group-by, alias targets, condition field)
Ren(map, f) == LET J == {j \in 1..Len(map) : map[j][1] = f} IN IF J = {} THEN f ELSE map[CHOOSE j \in J : TRUE][2]

RuleId(r) == IF r.name # <<>> THEN r.name ELSE r.uid

\* sub-queries of referenced rule k as they must be embedded: its own conversion, finalised only on opt-in
Unwrap(q) == IF Len(q) >= 2 /\ q[1] = 60 /\ q[Len(q)] = 62 THEN SubSeq(q, 2, Len(q) - 1) ELSE q
SubQueries(alone, k, optin) == [i \in 1..Len(alone[k]) |-> IF optin THEN alone[k][i] ELSE Unwrap(alone[k][i])]

Normalization(c, refidx, map) ==
    LET es == SelectSeq(Concat([a \in 1..Len(c.aliases) |->
                  [m \in 1..Len(c.aliases[a].map) |->
                      [ref |-> c.aliases[a].map[m][1], txt |-> c.aliases[a].alias \o <<61>> \o Ren(map, c.aliases[a].map[m][2])]]]),
                  LAMBDA e : e.ref = refidx)
    IN  Join([i \in 1..Len(es) |-> es[i].txt], <<59>>)
AliasNames(c) == {c.aliases[a].alias : a \in 1..Len(c.aliases)}
GroupBy(c, map) ==
    IF ~c.hasgroup \/ c.groupby = <<>> THEN T_DASH          \* (a group-by list without entries groups by nothing, like no list)
    ELSE Join([i \in 1..Len(c.groupby) |-> Quoted(IF c.groupby[i] \in AliasNames(c) THEN c.groupby[i] ELSE Ren(map, c.groupby[i]))], <<44>>)
RefList(c, rules) == Join([i \in 1..Len(c.refs) |-> RuleId(rules[c.refs[i]])], <<44>>)

Search(c, rules, alone, B, map) ==
    LET items == Concat([i \in 1..Len(c.refs) |->
                    LET k == c.refs[i] sq == SubQueries(alone, k, B.optin) IN
                    \* (a renaming conditioned on the log source renames the alias targets of exactly the rules it applies to)
                    [j \in 1..Len(sq) |-> [id |-> RuleId(rules[k]), q |-> sq[j],
                                            n |-> Normalization(c, k, IF B.pipe = "rename_win" /\ k # 1 THEN <<>> ELSE map)]]])
    IN  IF Len(c.refs) = 1 /\ Len(items) = 1
        THEN T_SINGLE \o GS \o items[1].id \o GS \o items[1].q \o GS \o items[1].n     \* tagged with its name or id as well
        ELSE T_MULTI \o US \o Join([i \in 1..Len(items) |-> items[i].id \o GS \o items[i].q \o GS \o items[i].n], US)
Typing(c, rules, alone, B) ==
    IF ~B.typing THEN <<>>
    ELSE LET items == Concat([i \in 1..Len(c.refs) |->
                    LET k == c.refs[i] sq == SubQueries(alone, k, B.optin) IN
                    [j \in 1..Len(sq) |-> RuleId(rules[k]) \o GS \o sq[j]]])
         IN  T_TYPING \o US \o Join(items, US)
\* the field of the condition: renamed like a field of the rules - unless it names an alias, which is a name of the
\* correlation rule's own (the normalisation defines it, the group-by keeps it)
CondField(c, map) == IF c.cond.field \in AliasNames(c) THEN c.cond.field ELSE Ren(map, c.cond.field)
NumOrEmpty(has, n) == IF has THEN NatText(n) ELSE <<>>
Aggregate(c, rules, B, map) ==
    c.type \o GS \o Timespan(c.ts, B.tsmode) \o GS \o GroupBy(c, map) \o GS
    \* the template receives the condition's field reference as given: absent prints as "None"
    \o (IF c.cond.kind # "basic" THEN <<>> ELSE IF c.cond.hasfield THEN CondField(c, map) ELSE <<78,111,110,101>>) \o GS
    \o NumOrEmpty(c.cond.kind = "basic" /\ c.cond.haspct, c.cond.pct) \o (IF c.cond.kind = "basic" /\ c.cond.haspct /\ c.cond.frac THEN <<46, 53>> ELSE <<>>)
    \o GS \o RefList(c, rules)
BasicCondition(c, rules, map) ==
    \* (a threshold may have a fractional part - an average, a percentile: frac = TRUE stands for count + 0.5)
    OpSymbol(c.cond.op) \o GS \o NatText(c.cond.count) \o (IF c.cond.frac THEN <<46, 53>> ELSE <<>>) \o GS
    \o (IF c.cond.hasfield THEN CondField(c, map) ELSE <<78,111,110,101>>) \o GS \o RefList(c, rules)   \* "None"

\* expected body for a basic condition (extended conditions are compared by truth table)
Body(c, rules, alone, B, map, condtext) ==
    Search(c, rules, alone, B, map) \o RS \o Typing(c, rules, alone, B) \o RS \o Aggregate(c, rules, B, map) \o RS \o condtext

\* meaning of an extended condition source text over rule ids: QExpr with one "exists" atom per rule id
RECURSIVE ExtQ(_)
ExtQ(a) == CASE a.k = "id" -> QLeaf(MkAtom(a.n, "exists", <<>>, <<>>))
             [] a.k = "cnot" -> QNot(ExtQ(a.a))
             [] a.k = "cand" -> QAnd(<<ExtQ(a.l), ExtQ(a.r)>>)
             [] OTHER -> QOr(<<ExtQ(a.l), ExtQ(a.r)>>)
=============================================================================
