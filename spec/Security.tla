------------------------------ MODULE Security ------------------------------
(***************************************************************************)
(* Capabilities of pipeline items (C16).                                   *)
(*                                                                         *)
(* Item kinds and the capability they need when first used:                *)
(*   "file" "http" "command"   external placeholder sources   -> "ext"     *)
(*   "ptemplate" "ftemplate"   template with a Python vars file -> "vars"  *)
(*   "ytag"                    a YAML tag that calls a Python function     *)
(*                             while the pipeline text is parsed           *)
(*   "jcmd" "jvars" "jfile"    a template whose TEXT reaches for a         *)
(*                             capability through the objects it is given  *)
(*                             (loads a pipeline with opt-in arguments of  *)
(*                             its own, calls methods of a path object):   *)
(*                             the template language is part of the        *)
(*                             document, so this is self-grant as well     *)
(* A capability may come from exactly two places: the CALLER's opt-in      *)
(* argument when the pipeline is loaded, or the documented environment     *)
(* variable (values 1 / true, case-insensitive).  Keys of the same names   *)
(* written INTO the pipeline document - at the top level, on the item, on  *)
(* any enclosing nest / nested level - must have no effect.                *)
(* When allowed base directories are in force (given by the caller or      *)
(* derived from the pipeline file's location) a vars file is executed only *)
(* if its real path lies under one of them.                                *)
(*                                                                         *)
(* System state machine:  Load(doc, caller) -> Loaded | LoadFails ;        *)
(*   Use(item) -> SideEffect(kind) | SecurityError | OtherError            *)
(***************************************************************************)
EXTENDS Integers, Sequences, FiniteSets

\* (jcmdf, jvarsf, jfilef: the same three with the template TEXT standing in a file the item names by path + template)
Kinds == {"file", "http", "command", "ptemplate", "ftemplate", "jcmd", "jvars", "jfile", "jcmdf", "jvarsf", "jfilef", "ytag"}
CapOf(k) == IF k \in {"file", "http", "command", "jcmd", "jfile", "jcmdf", "jfilef"} THEN "ext" ELSE "vars"
ViaTemplateText(k) == k \in {"jcmd", "jvars", "jfile", "jcmdf", "jvarsf", "jfilef"}
EnvValues == {"unset", "0", "1", "true", "TRUE", "yes"}
EnvTruthy(v) == v \in {"1", "true", "TRUE"}
PathClasses == {"inside", "outside", "symlink", "sibling"}     \* sibling: /base_evil next to /base
Contained(pc) == pc = "inside"
DirModes == {"none", "caller", "source", "resolver", "empty"}            \* where allowed base directories come from (source: the location of
                                                                \* the pipeline file, given by the caller; resolver: the same, derived by
                                                                \* the pipeline resolver from the file name it loads; empty: the caller
                                                                \* gives a collection of allowed directories WITHOUT entries - none is)

\* case == [kind, depth, inject (set of levels with truthy opt-in keys written into the document),
\*          caller (BOOLEAN: the opt-in argument for this kind's capability), env, pathclass, dirs]
\* (kind "ytag": the pipeline TEXT carries a YAML tag that constructs a Python object - calls a function - while the
\*  text is parsed; no opt-in covers that, it is never granted and the text is not a loadable document)
Granted(c) == c.kind # "ytag" /\ (c.caller \/ EnvTruthy(c.env))
Allowed(c) == c.dirs # "empty" /\ Contained(c.pathclass)        \* is the vars file inside a base directory in force?
MayRun(c) == /\ Granted(c)
             /\ (CapOf(c.kind) = "vars" /\ c.dirs # "none") => Allowed(c)

\* ---- the state machine -----------------------------------------------------------------
SInit == [phase |-> "start", bit |-> FALSE, effect |-> FALSE, error |-> "none"]
\* Loading: the item's capability bit is the CALLER's argument and nothing else; keys in the document
\* are dropped (a top-level key makes the document invalid).
SLoad(c, st) ==
    IF "top" \in c.inject \/ c.kind = "ytag" THEN [st EXCEPT !.phase = "loadfailed", !.error = "config"]
    ELSE [st EXCEPT !.phase = "loaded", !.bit = c.caller]
SUse(c, st) ==
    IF st.phase # "loaded" THEN st
    ELSE IF ~(st.bit \/ EnvTruthy(c.env)) THEN [st EXCEPT !.phase = "used", !.error = "security"]
    ELSE IF CapOf(c.kind) = "vars" /\ c.dirs # "none" /\ ~Allowed(c) THEN [st EXCEPT !.phase = "used", !.error = "security"]
    ELSE [st EXCEPT !.phase = "used", !.effect = TRUE]
=============================================================================
