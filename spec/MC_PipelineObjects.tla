------------------------ MODULE MC_PipelineObjects ------------------------
(* Mode A for C15 (and the ownership part of C14): every history of
   {initialise backend A/B, convert a windows/linux rule with A/B} up to MaxOps operations,
   with the two backends sharing one user pipeline object or not, on the Mechanism model.
   HistoryFree: every conversion yields what fresh objects would yield.  With
   ReownAtApply = FALSE (the code before the repair) TLC must find a counterexample
   (negative control: init A ; init B ; convert a windows rule with A).                 *)
EXTENDS PipelineObjects
CONSTANT MaxOps
VARIABLES st, n, hist
vars == <<st, n, hist>>
Init == /\ \E ua \in {2, 3}, ub \in {2, 3} : st = OInit(ua, ub)
        /\ n = 0 /\ hist = <<>>
InitB(b) == /\ n < MaxOps /\ st.npipes < MaxPipes - 2
            /\ st' = OInitBackend(st, b) /\ n' = n + 1 /\ hist' = Append(hist, <<"init", b>>)
Conv(b, r) == /\ n < MaxOps /\ OCanConvert(st, b)
              /\ st' = OApply(st, b, r) /\ n' = n + 1 /\ hist' = Append(hist, <<"convert", b, r>>)
Next == (\E b \in Backends : InitB(b)) \/ (\E b \in Backends, r \in Rules : Conv(b, r))
Spec == Init /\ [][Next]_vars

HistoryFree == [][\A b \in Backends, r \in Rules : Conv(b, r) => st'.out = FreshResult(st.user[b], b, r)]_vars
\* after the repair every item of the pipeline that was applied last points at it
OwnedByApplied ==
    (ReownAtApply /\ hist # <<>> /\ hist[Len(hist)][1] = "convert") =>
        LET p == st.last[hist[Len(hist)][2]] IN \A k \in 1..Len(st.items[p]) : st.owner[st.items[p][k]] = p
View == <<st, n>>
=============================================================================
