-------------------------- MODULE PipelineCompose --------------------------
(***************************************************************************)
(* Layer S, part 4 (Ideal): pipelines are SEQUENCES.                       *)
(*  def == [name, prio, items, post, fin, vars (Seq of <<key, value>>)]    *)
(*  p + q           concatenation of items / postprocessing / finalizers,  *)
(*                  variables of q override those of p                     *)
(*  Resolve(S)      the sum in the order of (priority, name)               *)
(*  backend         class pipeline, then the user's, then the format's     *)
(*  stages          transformations; then every emitted query through the  *)
(*                  postprocessing items in order; then the finalizers     *)
(*                  once over the whole list                               *)
(***************************************************************************)
EXTENDS Integers, Sequences, FiniteSets, SequencesExt

EmptyDef == [name |-> 0, prio |-> 0, items |-> <<>>, post |-> <<>>, fin |-> <<>>, vars |-> <<>>]
\* later definitions override earlier ones
Override(v1, v2) ==
    SelectSeq(v1, LAMBDA kv : ~\E j \in 1..Len(v2) : v2[j][1] = kv[1]) \o v2
Plus(p, q) == [name |-> 0, prio |-> 0, items |-> p.items \o q.items, post |-> p.post \o q.post,
               fin |-> p.fin \o q.fin, vars |-> Override(p.vars, q.vars)]
VarSet(v) == {v[j] : j \in 1..Len(v)}

\* a bracketing of '+' over operands 1..n: [k |-> "leaf", i] | [k |-> "plus", l, r]
Leaf(i) == [k |-> "leaf", i |-> i]
Node(l, r) == [k |-> "plus", l |-> l, r |-> r]
RECURSIVE Brackets(_, _)
Brackets(a, b) ==      \* all bracketings of operands a..b
    IF a = b THEN {Leaf(a)}
    ELSE UNION {{Node(l, r) : l \in Brackets(a, m), r \in Brackets(m + 1, b)} : m \in a..(b - 1)}
RECURSIVE EvalTree(_, _)
EvalTree(t, defs) == IF t.k = "leaf" THEN defs[t.i] ELSE Plus(EvalTree(t.l, defs), EvalTree(t.r, defs))
RECURSIVE SumSeq(_)
SumSeq(defs) == IF defs = <<>> THEN EmptyDef ELSE IF Len(defs) = 1 THEN defs[1]
                ELSE Plus(SumSeq(SubSeq(defs, 1, Len(defs) - 1)), defs[Len(defs)])

\* resolver order: (priority, name), stable
Before(p, q) == p.prio < q.prio \/ (p.prio = q.prio /\ p.name < q.name)
RECURSIVE InsertSorted(_, _)
InsertSorted(s, p) ==
    IF s = <<>> THEN <<p>>
    ELSE IF Before(p, s[1]) THEN <<p>> \o s ELSE <<s[1]>> \o InsertSorted(Tail(s), p)
RECURSIVE SortDefs(_)
SortDefs(s) == IF s = <<>> THEN <<>> ELSE InsertSorted(SortDefs(SubSeq(s, 1, Len(s) - 1)), s[Len(s)])
Resolve(defs) == SumSeq(SortDefs(defs))

\* ---- stages on query text (code points) ----------------------------------------------
\* post item == [pre, suf] (embed);  finalizer == [pre, sep, suf] (concatenate)
ApplyPost(posts, q) ==
    LET RECURSIVE Go(_, _)
        Go(k, t) == IF k > Len(posts) THEN t ELSE Go(k + 1, posts[k].pre \o t \o posts[k].suf)
    IN  Go(1, q)
JoinText(qs, sep) == IF qs = <<>> THEN <<>> ELSE FoldLeft(LAMBDA acc, q : acc \o sep \o q, qs[1], Tail(qs))
\* result: [list |-> BOOLEAN, qs |-> Seq(text)] - a concatenating finalizer turns the list into one text
ApplyFins(fins, qs) ==
    IF fins = <<>> THEN [list |-> TRUE, qs |-> qs]
    ELSE [list |-> FALSE, qs |-> <<fins[1].pre \o JoinText(qs, fins[1].sep) \o fins[1].suf>>]
Staged(posts, fins, raw) == ApplyFins(fins, [i \in 1..Len(raw) |-> ApplyPost(posts, raw[i])])
=============================================================================
