----------------------------- MODULE Gen_C05 -----------------------------
(* Mode B generator for C05: every source string up to a length bound over each
   configuration group's alphabet (plus seeded random longer ones), and every
   field name up to a bound.  Shards 1..3 = configuration groups, shard 4 = field
   names.  The configuration family itself is exported for the driver.         *)
EXTENDS StrConfigs, Json, IOUtils, Randomization, TLC
VARIABLE x

Tier == IOEnv.VERIF_TIER
Shard == atoi(IOEnv.VERIF_SHARD)
MaxLen == IF Tier = "quick" THEN 4 ELSE IF Shard = 1 THEN 5 ELSE 6
NRandom == IF Tier = "quick" THEN 300 ELSE 20000

Literals(p) == {p[i] : i \in {j \in 1..Len(p) : p[j] >= 0}}
\* subjects for the regex comparison: all strings <= 3 over (at most 4) literal chars + 'b'
SubjAlpha(src) ==
    LET L == Literals(ParseStr(src)) \cup {98}
        RECURSIVE Pick(_, _)
        Pick(S, n) == IF S = {} \/ n = 0 THEN {}
                      ELSE LET c == CHOOSE y \in S : \A z \in S : y <= z IN {c} \cup Pick(S \ {c}, n - 1)
    IN  Pick(L, 4)

\* subjects for the case-insensitive regular expressions of the regex transformation
SubjAlphaCI(src) ==
    LET L == Literals(ParseStr(src)) \ {97, 65, 98}
        RECURSIVE Pick(_, _)
        Pick(S, n) == IF S = {} \/ n = 0 THEN {}
                      ELSE LET c == CHOOSE y \in S : \A z \in S : y <= z IN {c} \cup Pick(S \ {c}, n - 1)
    IN  {97, 65, 98} \cup Pick(L, 2)

\* the delimiter of a regular-expression literal the value is rendered into a SECOND time: a punctuation character of
\* the source itself where there is one (so that it has to be escaped), else the slash
RegexSpecial == {46, 42, 43, 63, 94, 36, 91, 93, 40, 41, 123, 125, 92, 124}
RDelim(src) == LET L == {c \in Literals(ParseStr(src)) : ~IsAlnum(c) /\ c \notin RegexSpecial /\ c > 32 /\ c < 127}
               IN  IF L = {} THEN 47 ELSE CHOOSE c \in L : \A d \in L : c <= d
StrCases(g) ==
    LET G == Groups[g]
        Srcs == SeqsUpTo(G.alpha, MaxLen) \cup
                UNION {RandomSubset(NRandom \div 3, [1..n -> G.alpha]) : n \in {MaxLen + 1, MaxLen + 2, MaxLen + 4}}
    IN  {[kind |-> "str", g |-> g, ks |-> G.ks, src |-> s, subj |-> SetToSeq(SubjAlpha(s)), subjci |-> SetToSeq(SubjAlphaCI(s)), rdelim |-> RDelim(s)] : s \in Srcs}

FieldCases ==
    {[kind |-> "field", name |-> n] :
        n \in (SeqsUpTo(FieldAlpha, IF Tier = "quick" THEN 4 ELSE 5) \ {<<>>})}

\* shard 5: the texts the repository's own tests build Sigma strings from (harvested by the driver, one JSON record per
\* text), judged under the configurations of group 1 like the generated ones
Harvested == IF Shard = 5 THEN ndJsonDeserialize(IOEnv.VERIF_IN) ELSE <<>>
HarvestCases == {[kind |-> "str", g |-> 1, ks |-> Groups[1].ks, src |-> Harvested[i].src,
                  subj |-> SetToSeq(SubjAlpha(Harvested[i].src)), subjci |-> SetToSeq(SubjAlphaCI(Harvested[i].src)), rdelim |-> RDelim(Harvested[i].src)] : i \in 1..Len(Harvested)}
Cases == IF Shard = 4 THEN FieldCases ELSE IF Shard = 5 THEN HarvestCases ELSE StrCases(Shard)

SetJ(S) == SetToSeq(S)
ConfigJson == [i \in 1..Len(Configs) |->
    [esc |-> Configs[i].esc, wm |-> Configs[i].wm, ws |-> Configs[i].ws, add |-> SetJ(Configs[i].add),
     filt |-> SetJ(Configs[i].filt), quote |-> Configs[i].quote, cq |-> Configs[i].cq]]
FieldConfigJson == [i \in 1..Len(FieldConfigs) |->
    [quote |-> FieldConfigs[i].quote, esc |-> FieldConfigs[i].esc,
     escset |-> SetJ(FieldConfigs[i].escset), always |-> FieldConfigs[i].always]]

ASSUME LET S == SetToSeq(Cases)
       IN  /\ ndJsonSerialize(IOEnv.VERIF_OUT, [i \in 1..Len(S) |-> [id |-> Shard * 10000000 + i] @@ S[i]])
           /\ Shard = 4 => JsonSerialize(IOEnv.VERIF_OUT2, [str |-> ConfigJson, field |-> FieldConfigJson])
Init == x = 0
Next == UNCHANGED x
=============================================================================
