SPECIFICATION Spec
CONSTANT MaxOps = 2
INVARIANT AlwaysMeansTree
