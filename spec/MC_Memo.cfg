SPECIFICATION Spec
CONSTANTS KeyOf = "all"
          MaxCalls = 4
INVARIANT AnswersTheRequest
CHECK_DEADLOCK FALSE
