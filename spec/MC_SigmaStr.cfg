SPECIFICATION Spec
CONSTANT MaxLen = 4
INVARIANT StepwiseIsFold
INVARIANT PlainExists
INVARIANT Decodable
INVARIANT PartsTyped
INVARIANT NoBackslashIdentity
