---------------------------- MODULE CollShapes ----------------------------
(* Rule-set shapes for C09 (and C08/C15): plain rules, correlation rules referring to them
   by name or id, chains up to depth 3, unrelated rules, generate on/off, a missing reference. *)
EXTENDS Integers, Sequences
R(i) == [id |-> i, kind |-> "rule", name |-> i, uid |-> 100 + i, refs |-> <<>>, arefs |-> <<>>, generate |-> FALSE]
ByName(k) == [by |-> "name", key |-> k]
ById(k) == [by |-> "id", key |-> 100 + k]
Cr(i, refs, gen) == [id |-> i, kind |-> "corr", name |-> i, uid |-> 100 + i, refs |-> refs, arefs |-> <<>>, generate |-> gen]
\* arefs: rules the ALIAS definitions of the correlation rule refer to (references like those of the rule list)
CrA(i, refs, arefs, gen) == [Cr(i, refs, gen) EXCEPT !.arefs = arefs]
Shapes == <<
  <<R(1), R(2), Cr(3, <<ByName(1), ByName(2)>>, FALSE), R(4)>>,                                 \* 1
  <<R(1), Cr(2, <<ById(1)>>, TRUE), Cr(3, <<ByName(2)>>, FALSE), R(4)>>,                        \* 2 chain depth 2
  <<R(1), R(2), Cr(3, <<ByName(1)>>, FALSE), Cr(4, <<ById(2)>>, TRUE), Cr(5, <<ByName(3), ByName(4)>>, FALSE)>>,  \* 3
  <<R(1), Cr(2, <<ByName(1)>>, FALSE), Cr(3, <<ByName(2)>>, FALSE), Cr(4, <<ById(3)>>, FALSE), R(5)>>,            \* 4 depth 3
  <<R(1), R(2), R(3), Cr(4, <<ByName(1), ById(2), ByName(3)>>, FALSE), R(5)>>,                  \* 5
  <<R(1), Cr(2, <<ByName(1), ByName(9)>>, FALSE), R(3)>>,                                       \* 6 missing reference
  <<R(1), Cr(2, <<ByName(1)>>, FALSE), Cr(3, <<ById(1)>>, FALSE), R(4), R(5)>>,                 \* 7 shared rule
  <<R(1), R(2), R(3)>>,                                                                         \* 8 no correlation
  <<R(1), R(2), R(3), R(4), Cr(5, <<ByName(2), ByName(4)>>, FALSE)>>,                           \* 9
  <<R(1), R(2), Cr(3, <<ByName(1)>>, TRUE), Cr(4, <<ByName(2)>>, FALSE), Cr(5, <<ById(3), ById(4)>>, TRUE), R(6)>>, \* 10
  <<R(1), Cr(2, <<ByName(1)>>, TRUE), R(3)>>,                                                   \* 11 generate
  <<R(1), R(2), R(3), R(4), R(5), Cr(6, <<ByName(5), ByName(1)>>, FALSE)>>,                     \* 12
  <<R(1), R(2), CrA(3, <<ByName(1), ByName(2)>>, <<ById(1), ByName(2)>>, FALSE)>>,              \* 13 alias by the other identifier
  <<R(1), CrA(2, <<ByName(1)>>, <<ByName(9)>>, FALSE), R(3)>>,                                  \* 14 alias for a missing rule
  <<R(1), Cr(2, <<ByName(1)>>, TRUE), Cr(3, <<ById(1)>>, FALSE), R(4)>>                         \* 15 referrers that disagree on generation
>>
=============================================================================
