---------------------------- MODULE Judge_C08 ----------------------------
(* Mode C judge for C08.  One observation = one collection conversion (its output list and
   error records) plus what each rule yields alone on fresh objects.  The accounting
   relation of spec/Conversion.tla decides.                                            *)
EXTENDS Conversion, Json, IOUtils, TLC
VARIABLE x
Obs == ndJsonDeserialize(IOEnv.VERIF_OBS)

Clause(o) ==
    LET n == Len(o.kinds)
        Silent(i) == o.kinds[i] = "okdrop" /\ o.alone[i].ok /\ o.alone[i].out = <<>>
        hasCorr == o.corr # "none"
        corrFails == hasCorr /\ Fails(o.kinds[1])
        \* a feature the backend lacks is reported by NotImplementedError when errors are not collected (the repository's
        \* tests pin that), and as a Sigma error record when they are
        NIE == "NotImplementedError"
        aloneBad == {i \in 1..n :
                       IF o.kinds[i] = "failU" THEN o.alone[i].ok \/ o.alone[i].exc # NIE
                       ELSE IF Fails(o.kinds[i]) THEN o.alone[i].ok \/ ~o.alone[i].sigma
                       \* recorded deviation: an emptied rule yields nothing at all (neither a query nor a record)
                       ELSE IF Silent(i) THEN FALSE
                       ELSE ~o.alone[i].ok \/ Len(o.alone[i].out) # NQueries(o.kinds[i])}
        wantOut == Concat([i \in 1..n |-> IF Fails(o.kinds[i]) \/ (i = 1 /\ o.corr = "nogen") THEN <<>> ELSE o.alone[i].out])
                   \o (IF hasCorr /\ ~corrFails THEN <<o.corr_alone.out[Len(o.corr_alone.out)]>> ELSE <<>>)
        failing == SelectSeq([i \in 1..n |-> i], LAMBDA i : Fails(o.kinds[i]))
        wantErr == [j \in 1..Len(failing) |-> <<failing[j], IF o.kinds[failing[j]] = "failU" THEN "SigmaFeatureNotSupportedByBackendError"
                                                             ELSE o.alone[failing[j]].exc>>]
        anyFail == failing # <<>> \/ corrFails
    IN
    IF aloneBad # {} THEN "KindAsSpecified"
    ELSE IF hasCorr /\ ~corrFails /\ (~o.corr_alone.ok \/ Len(o.corr_alone.out) = 0) THEN "KindAsSpecified:correlation"
    ELSE IF ~o.coll.ok /\ ~o.coll.sigma /\ ~(~o.collect /\ failing # <<>> /\ o.kinds[failing[1]] = "failU" /\ o.coll.exc = NIE) THEN "NonSigmaException"
    ELSE IF o.collect THEN
        (IF ~o.coll.ok THEN "CollectingBackendRaised"
         ELSE IF o.coll.out # wantOut THEN
              (IF Len(o.coll.out) # Len(wantOut) THEN "OnePerConditionInOrder" ELSE "EqualsAlone")
         ELSE IF Len(o.coll.errors) # Len(wantErr) + (IF corrFails THEN 1 ELSE 0) THEN "FailingRuleNoQueryOneRecord"
         ELSE IF \E j \in 1..Len(wantErr) : o.coll.errors[j] # wantErr[j] THEN "FailingRuleNoQueryOneRecord:which"
         ELSE IF corrFails /\ o.coll.errors[Len(o.coll.errors)][1] # n + 1 THEN "FailingRuleNoQueryOneRecord:correlation"
         ELSE "")
    ELSE
        (IF anyFail THEN
            (IF o.coll.ok THEN "StrictRaisesFirst:no-error"
             ELSE IF failing # <<>> /\ o.coll.exc # o.alone[failing[1]].exc THEN "StrictRaisesFirst"
             ELSE "")
         ELSE IF ~o.coll.ok THEN "ValidCollectionFails"
         ELSE IF o.coll.out # wantOut THEN "EqualsAlone"
         ELSE "")

Verdict(o) == LET c == Clause(o)
                  silent == \E i \in 1..Len(o.kinds) : o.kinds[i] = "okdrop" /\ o.alone[i].ok /\ o.alone[i].out = <<>>
              IN  [id |-> o.id, v |-> IF c # "" THEN "violation:" \o c ELSE IF silent THEN "dev:Dev_EmptiedRuleYieldsNothing" ELSE "ok"]
ASSUME ndJsonSerialize(IOEnv.VERIF_OUT, [i \in 1..Len(Obs) |-> Verdict(Obs[i])])
Init == x = 0
Next == UNCHANGED x
=============================================================================
