---------------------------- MODULE MC_Deferred ----------------------------
(* Mode A for deferred query parts (C01, recorded deviation Dev_DeferredOutsideConjunction): the DESIGN of
   TextQueryBackend for predicates a backend defers, transcribed as a recursive renderer -
     a deferred predicate registers itself as a part and hands a marker up;
     NOT over a single predicate that came back as a marker toggles the part's negation;
     NOT over a group hands a marker up unchanged, drops nothing else;
     AND / OR join what is left of their arguments (markers and empty results are dropped);
     a condition of which nothing but parts is left renders as "*" (after the repair: before, as no query at all);
     the parts follow the main query after " | " and must all hold -
   for every tree up to MaxOps operators over two ordinary predicates and one deferrable one, every
   precedence order.  Decided on the design:
     ConjunctiveMeansTree   if every occurrence of the deferrable predicate has only ANDs above it (a NOT directly
                            above it excepted), the rendered text - read back with the target grammar - means the tree
     AlwaysAQuery           every tree renders into a query
   and, as negative control (MC_Deferred_negative.cfg), that WITHOUT that restriction the design is refuted: the
   input class of the recorded deviation is exactly where it goes wrong.                                        *)
EXTENDS QueryLang, TLC
CONSTANT MaxOps
VARIABLES tree, prec
vars == <<tree, prec>>
A1 == MkAtom(<<97>>, "null", <<>>, <<>>)
A2 == MkAtom(<<98>>, "null", <<>>, <<>>)
AD == MkAtom(<<99>>, "exists", <<>>, <<>>)        \* the predicate the backend defers
AtomText(a) == <<96>> \o a.f \o <<96, 58>> \o (IF a.k = "null" THEN O_null ELSE O_exists) \o <<58>>
LeafSet == {QLeaf(A1), QLeaf(A2), QLeaf(AD)}
RECURSIVE QTrees(_)
QTrees(n) ==
    IF n = 0 THEN LeafSet
    ELSE {QNot(a) : a \in QTrees(n - 1)} \cup
         UNION {{[k |-> op, args |-> <<l, r>>] : op \in {"and", "or"}, l \in QTrees(i), r \in QTrees(n - 1 - i)}
                : i \in 0..(n - 1)}
Perms == {<<"not", "and", "or">>, <<"not", "or", "and">>, <<"and", "not", "or">>,
          <<"and", "or", "not">>, <<"or", "not", "and">>, <<"or", "and", "not">>}
Idx(x) == CHOOSE j \in 1..3 : prec[j] = x
NoGroup(outer, inner) == inner.k = "leaf" \/ Idx(inner.k) <= Idx(outer)

\* result of rendering a subtree: [k |-> "txt", t] | [k |-> "def"] (a marker: the part was registered) | [k |-> "none"],
\* together with the parts registered so far: Seq([a, neg])
Txt(t, ps) == [k |-> "txt", t |-> t, ps |-> ps]
RECURSIVE R(_, _), Args(_, _, _, _)
Group(e, ps) == LET r == R(e, ps) IN IF r.k = "txt" THEN Txt(<<40>> \o r.t \o <<41>>, r.ps) ELSE r
R(e, ps) ==
    CASE e.k = "leaf" -> (IF e.a = AD THEN [k |-> "def", t |-> <<>>, ps |-> Append(ps, [a |-> e.a, neg |-> FALSE])]
                          ELSE Txt(AtomText(e.a), ps))
      [] e.k = "not" ->
           (IF e.a.k = "leaf" THEN
                LET r == R(e.a, ps) IN
                IF r.k = "def" THEN [r EXCEPT !.ps[Len(r.ps)].neg = ~@]           \* negate the deferred part
                ELSE Txt(W_NOT \o <<32>> \o r.t, r.ps)
            ELSE LET g == Group(e.a, ps) IN
                 IF g.k = "txt" THEN Txt(W_NOT \o <<32>> \o g.t, g.ps) ELSE g)    \* a marker passes through un-negated
      [] OTHER -> Args(e, 1, <<>>, ps)
Args(e, j, acc, ps) ==         \* acc: texts of the arguments kept so far
    IF j > Len(e.args) THEN
        (IF acc = <<>> THEN [k |-> "none", t |-> <<>>, ps |-> ps]
         ELSE Txt(FoldLeft(LAMBDA a, b : a \o <<32>> \o (IF e.k = "and" THEN W_AND ELSE W_OR) \o <<32>> \o b, acc[1], Tail(acc)), ps))
    ELSE LET r == IF NoGroup(e.k, e.args[j]) THEN R(e.args[j], ps) ELSE Group(e.args[j], ps)
         IN  Args(e, j + 1, IF r.k = "txt" THEN Append(acc, r.t) ELSE acc, r.ps)
W_DN == <<68,78,79,84,32>>
Query(e) ==
    LET r == R(e, <<>>)
        main == IF r.k = "txt" THEN r.t ELSE <<42>>
        part(p) == (IF p.neg THEN W_DN ELSE <<>>) \o AtomText(p.a)
    IN  IF r.ps = <<>> THEN main
        ELSE main \o FoldLeft(LAMBDA a, p : a \o <<32, 124, 32>> \o part(p), <<>>, r.ps)

\* the deferrable predicate in conjunctive position everywhere
RECURSIVE Outside(_, _)
Outside(e, conj) ==
    CASE e.k = "leaf" -> e.a = AD /\ ~conj
      [] e.k = "not" -> Outside(e.a, conj /\ e.a.k = "leaf")
      [] e.k = "and" -> \E j \in 1..Len(e.args) : Outside(e.args[j], conj)
      [] OTHER -> \E j \in 1..Len(e.args) : Outside(e.args[j], FALSE)
Init == tree \in UNION {QTrees(n) : n \in 0..MaxOps} /\ prec \in Perms
Next == UNCHANGED vars
Spec == Init /\ [][Next]_vars
Means == LET g == ParseQuery(Query(tree), prec) IN g.ok /\ QEquiv(g.e, tree)
ConjunctiveMeansTree == ~Outside(tree, TRUE) => Means
AlwaysAQuery == Query(tree) # <<>>
AlwaysMeansTree == Means            \* negative control
=============================================================================
