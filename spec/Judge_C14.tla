---------------------------- MODULE Judge_C14 ----------------------------
(* Mode C judge for C14.  For each operation on real pipeline objects the driver records
   the output of converting two probe rules through the composed pipeline (`got`), through
   ONE pipeline defined with the reference definition demanded by the spec (`ref`), and
   the raw queries of the reference's transformations alone (`raw`).                     *)
EXTENDS PipelineCompose, Json, IOUtils, TLC
VARIABLE x
Obs == ndJsonDeserialize(IOEnv.VERIF_OBS)
\* the text library of the driver (harness/props/c14.py): post 1 [..], 2 <..>, 3 {..}, 4 context; finalizer A( , )
\* post 4 prints " |k1=<value of variable k1> st=<state>" of the pipeline it runs in: the variables are those of the
\* reference definition, the state is index=win for the windows probe (probe 2) iff item 3 (set_state) is among its items
RECURSIVE Dec(_)
Dec(n) == IF n < 10 THEN <<48 + n>> ELSE Dec(n \div 10) \o <<48 + (n % 10)>>
VarVal(vars, k) == LET J == {j \in 1..Len(vars) : vars[j][1] = k} IN IF J = {} THEN 0 ELSE vars[CHOOSE j \in J : TRUE][2]
PostText(i, ref, p) ==
    CASE i = 1 -> [pre |-> <<91>>, suf |-> <<93>>] [] i = 2 -> [pre |-> <<60>>, suf |-> <<62>>]
      [] i = 4 -> [pre |-> <<>>,
                   suf |-> <<32,124,107,49,61>> \o Dec(VarVal(ref.vars, 1)) \o <<32,115,116,61>> \o
                           (IF p = 2 /\ (\E j \in 1..Len(ref.items) : ref.items[j] = 3)
                            THEN <<123,39,105,110,100,101,120,39,58,32,39,119,105,110,39,125>> ELSE <<123,125>>)]
      [] OTHER -> [pre |-> <<123>>, suf |-> <<125>>]
\* finalizer 1: concat "A(" , ")" ; finalizer 2: a template finalizer INSIDE a nested finalizer that prints variable k1 of
\* the pipeline it runs in ("k1=<value> :: " q1 " ; " q2 ...; nothing for the value where the variable is not defined)
HasVar(vars, k) == \E j \in 1..Len(vars) : vars[j][1] = k
FinText(i, ref) == IF i = 2 THEN [pre |-> <<107,49,61>> \o (IF HasVar(ref.vars, 1) THEN Dec(VarVal(ref.vars, 1)) ELSE <<>>) \o <<32,58,58,32>>,
                                  sep |-> <<32,59,32>>, suf |-> <<>>]
                   ELSE [pre |-> <<65, 40>>, sep |-> <<32, 44, 32>>, suf |-> <<41>>]

Clause(o) ==
    IF ~o.got.ok \/ ~o.ref.ok \/ ~o.raw.ok THEN
        (IF (~o.got.ok /\ ~o.got.sigma) \/ (~o.ref.ok /\ ~o.ref.sigma) THEN "NonSigmaException" ELSE "CompositionFails")
    ELSE LET ref == o.case.ref
             staged == [p \in 1..Len(o.raw.out) |->
                          Staged([j \in 1..Len(ref.post) |-> PostText(ref.post[j], ref, p)],
                                 \* (convert_rule() yields the queries of one rule: output finalizers do not run)
                                 IF o.case.op \in {"backend_switch", "backend_switch_back"} THEN <<>> ELSE [j \in 1..Len(ref.fin) |-> FinText(ref.fin[j], ref)], o.raw.out[p])]
         IN
         IF \E p \in 1..Len(o.ref.out) : o.ref.out[p] # staged[p].qs THEN "StageOrder"
         ELSE IF o.got.out # o.ref.out THEN
              (CASE o.case.op = "sum" -> "AddIsConcat"
                 [] o.case.op = "resolve" -> "ResolveOrderFree"
                 [] o.case.op = "resolve_cwd" -> "ResolveNamesMeanRegisteredPipelines"
                 [] o.case.op \in {"backend", "backend_default", "backend_switch_back"} -> "BackendThenUserThenFormat"
                 [] OTHER -> "ReusedObjects")
         ELSE IF o.case.op \in {"sum", "resolve", "resolve_cwd"} /\ {<<o.vars[j][1], o.vars[j][2]>> : j \in 1..Len(o.vars)} # VarSet(ref.vars)
              THEN "LaterVarsOverride"
         \* the placeholder probe where the reference does not define its variable: it fails, as with the single pipeline
         ELSE IF o.ph[1] # o.ph[2] THEN "PlaceholderProbeAsSinglePipeline"
         ELSE IF o.applied # o.ref_applied THEN "AppliedAndStateAsSinglePipeline"
         ELSE ""
Verdict(o) == LET c == Clause(o) IN [id |-> o.id, v |-> IF c = "" THEN "ok" ELSE "violation:" \o c]
ASSUME ndJsonSerialize(IOEnv.VERIF_OUT, [i \in 1..Len(Obs) |-> Verdict(Obs[i])])
Init == x = 0
Next == UNCHANGED x
=============================================================================
