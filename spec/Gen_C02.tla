----------------------------- MODULE Gen_C02 -----------------------------
(* Mode B generator for C02: every condition AST up to a size bound over each
   detection-name family, printed in every style.  A case is SOURCE TEXT + the
   detection names only; its meaning is re-derived by Judge_C02 from the text. *)
EXTENDS CondLang, CondNames, Json, IOUtils, Randomization
VARIABLE x

Tier == IOEnv.VERIF_TIER
Out == IOEnv.VERIF_OUT

Ids(f) == {CId(f.names[i]) : i \in 1..Len(f.names)}
Sels(f) == {CSel(q, f.pats[i]) : q \in {"1", "any", "all"}, i \in 1..Len(f.pats)}
\* reduced leaf set: every identifier + one selector
Reduced(f) == Ids(f) \cup {CSel("1", f.pats[1])}

\* random tree with exactly n operators (beyond the exhaustive bound)
RECURSIVE RandTree(_, _)
RandTree(n, L) ==
    IF n = 0 THEN RandomElement(L)
    ELSE LET kind == RandomElement({"cnot", "cand", "cor"}) IN
         IF kind = "cnot" THEN CNot(RandTree(n - 1, L))
         ELSE LET i == RandomElement(0..(n - 1))
              IN  CBin(kind, RandTree(i, L), RandTree(n - 1 - i, L))
Deep(f, k) == {RandTree(3 + (j % 4), Ids(f) \cup Sels(f)) : j \in 1..k}

NQuick == 250
NThorough == 6000
TreesFor(fi) ==
    LET f == Families[fi] IN
    IF Tier = "quick"
    THEN TreesUpTo(1, Ids(f) \cup Sels(f)) \cup TreesUpTo(2, Reduced(f)) \cup Deep(f, NQuick)
    ELSE TreesUpTo(1, Ids(f) \cup Sels(f)) \cup TreesUpTo(2, Reduced(f))
         \cup (IF fi \in {1, 2} THEN Trees(3, Reduced(f)) ELSE {})
         \cup {RandTree(2, Ids(f) \cup Sels(f)) : j \in 1..2000} \cup Deep(f, NThorough)

StylesFor(fi, a) ==
    IF APrec(a) = 4 THEN {"min", "wide"}
    ELSE IF Tier = "quick" THEN Styles
    ELSE IF fi \in {1, 2} THEN {"min", "tight"} ELSE Styles

CasesOf(fi) ==
    LET f == Families[fi] IN
    UNION {{[fam |-> fi, names |-> f.names, text |-> CPrint(a, st), style |-> st]
              : st \in StylesFor(fi, a)} : a \in TreesFor(fi)}

\* one TLC process per family (VERIF_SHARD = family index), run in parallel by the harness
Shard == atoi(IOEnv.VERIF_SHARD)
\* shard 11: conditions nested deeply (valid by the grammar; a recursive parser may run out of stack and say so with a
\* Sigma error - never with anything else): k parentheses around a name, k times `not`, both alternating
Rep(t, k) == IF k = 0 THEN <<>> ELSE [i \in 1..(k * Len(t)) |-> t[((i - 1) % Len(t)) + 1]]
DeepDepths == {3, 8, 12, 16, 19, 20, 21, 30, 60}
DeepCases ==
    LET f == Families[1]
        nm == f.names[1]
    IN  {[fam |-> 11, names |-> f.names, text |-> Rep(<<40>>, k) \o nm \o Rep(<<41>>, k), style |-> "deep"] : k \in DeepDepths}
        \cup {[fam |-> 11, names |-> f.names, text |-> Rep(<<110,111,116,32>>, k) \o nm, style |-> "deep"] : k \in DeepDepths}
        \cup {[fam |-> 11, names |-> f.names, text |-> Rep(<<110,111,116,32,40>>, k) \o nm \o Rep(<<41>>, k), style |-> "deep"] : k \in DeepDepths}
\* (shard = family number up to 10; 11 = the deep nestings; 12 = family 11)
AllCases == IF Shard = 11 THEN DeepCases ELSE CasesOf(IF Shard = 12 THEN 11 ELSE Shard)

ASSUME LET S == SetToSeq(AllCases)
       IN  ndJsonSerialize(Out, [i \in 1..Len(S) |-> [id |-> Shard * 1000000 + i] @@ S[i]])
Init == x = 0
Next == UNCHANGED x
=============================================================================
