----------------------------- MODULE CondLang -----------------------------
(***************************************************************************)
(* The Sigma condition language (rules' `condition:` strings).             *)
(*                                                                         *)
(*   cond  ::= cond "or" cond | cond "and" cond | "not" cond | "(" cond ")"*)
(*           | quant "of" pattern | name                                   *)
(*   quant ::= "1" | "any" | "all"        pattern ::= "them" | glob        *)
(*                                                                         *)
(* not > and > or, binary operators associate to the left, names and       *)
(* keywords are WHOLE WORDS (maximal runs of name characters).             *)
(*                                                                         *)
(* Contents: lexer, printer (4 styles), reference parser written as an     *)
(* explicit operator-precedence STATE MACHINE (PInit/PStep, model-checked  *)
(* in MC_CondLang and iterated by Parse), selector resolution and the      *)
(* denotation Den over a list of detection names.                          *)
(***************************************************************************)
EXTENDS Text, BoolExpr, TLC

\* ---- constants as code points -------------------------------------------
S_and == <<97, 110, 100>>
S_or == <<111, 114>>
S_not == <<110, 111, 116>>
S_of == <<111, 102>>
S_1 == <<49>>
S_any == <<97, 110, 121>>
S_all == <<97, 108, 108>>
S_them == <<116, 104, 101, 109>>

\* ---- abstract syntax ----------------------------------------------------
CId(n) == [k |-> "id", n |-> n]
CSel(q, p) == [k |-> "sel", q |-> q, p |-> p]        \* q \in {"1","any","all"}
CNot(a) == [k |-> "cnot", a |-> a]
CBin(op, l, r) == [k |-> op, l |-> l, r |-> r]       \* op \in {"cand","cor"}

QuantText(q) == CASE q = "1" -> S_1 [] q = "any" -> S_any [] q = "all" -> S_all

\* ---- lexer --------------------------------------------------------------
IsNameChar(c) == IsAlnum(c) \/ c = CH_US \/ c = CH_DASH \/ c = CH_STAR

Tok(t, s) == [t |-> t, s |-> s]     \* t \in {"w", "(", ")", "bad"}

RECURSIVE LexFrom(_, _)
LexFrom(s, i) ==
    IF i > Len(s) THEN <<>>
    ELSE IF IsSpace(s[i]) THEN LexFrom(s, i + 1)
    ELSE IF s[i] = CH_LP THEN <<Tok("(", <<>>)>> \o LexFrom(s, i + 1)
    ELSE IF s[i] = CH_RP THEN <<Tok(")", <<>>)>> \o LexFrom(s, i + 1)
    ELSE IF IsNameChar(s[i]) THEN
        LET stop == {j \in i..Len(s) : ~IsNameChar(s[j])}
            e == IF stop = {} THEN Len(s) ELSE (CHOOSE j \in stop : \A j2 \in stop : j <= j2) - 1
        IN  <<Tok("w", Slice(s, i, e))>> \o LexFrom(s, e + 1)
    ELSE <<Tok("bad", <<s[i]>>)>> \o LexFrom(s, i + 1)
Lex(s) == LexFrom(s, 1)

IsWordTok(t, w) == t.t = "w" /\ t.s = w
IsKeyword(w) == w \in {S_and, S_or, S_not, S_of}
HasStar(w) == \E i \in 1..Len(w) : w[i] = CH_STAR
HasDash(w) == \E i \in 1..Len(w) : w[i] = CH_DASH

\* ---- reference parser as a state machine --------------------------------
\* Configuration: tokens, position, operator stack, output stack, mode, status.
\* ops entries: "(" | "cnot" | "cand" | "cor"
Prec(op) == CASE op = "cor" -> 1 [] op = "cand" -> 2 [] op = "cnot" -> 3 [] op = "(" -> 0

PInit(toks) == [toks |-> toks, pos |-> 1, ops |-> <<>>, out |-> <<>>,
                operand |-> TRUE, status |-> "run"]

Top(st) == st[Len(st)]
Pop(st) == SubSeq(st, 1, Len(st) - 1)
Err(c) == [c EXCEPT !.status = "err"]

\* reduce the operator on top of the operator stack
Reduce(c) ==
    LET op == Top(c.ops) IN
    IF op = "cnot" THEN
        IF Len(c.out) < 1 THEN Err(c)
        ELSE [c EXCEPT !.ops = Pop(c.ops), !.out = Pop(c.out) \o <<CNot(Top(c.out))>>]
    ELSE IF Len(c.out) < 2 THEN Err(c)
    ELSE [c EXCEPT !.ops = Pop(c.ops),
                   !.out = Pop(Pop(c.out)) \o <<CBin(op, Top(Pop(c.out)), Top(c.out))>>]

PStep(c) ==
    IF c.pos > Len(c.toks) THEN              \* end of input
        IF c.operand THEN Err(c)
        ELSE IF c.ops = <<>> THEN
            (IF Len(c.out) = 1 THEN [c EXCEPT !.status = "ok"] ELSE Err(c))
        ELSE IF Top(c.ops) = "(" THEN Err(c)
        ELSE Reduce(c)
    ELSE
    LET t == c.toks[c.pos] IN
    IF c.operand THEN
        IF t.t = "(" THEN [c EXCEPT !.ops = @ \o <<"(">>, !.pos = @ + 1]
        ELSE IF t.t # "w" THEN Err(c)
        ELSE IF t.s = S_not THEN [c EXCEPT !.ops = @ \o <<"cnot">>, !.pos = @ + 1]
        ELSE IF /\ t.s \in {S_1, S_any, S_all}
                /\ c.pos + 2 <= Len(c.toks)
                /\ IsWordTok(c.toks[c.pos + 1], S_of)
                /\ c.toks[c.pos + 2].t = "w"
                /\ ~HasDash(c.toks[c.pos + 2].s)
             THEN [c EXCEPT !.out = @ \o <<CSel(IF t.s = S_1 THEN "1" ELSE IF t.s = S_any THEN "any" ELSE "all",
                                                c.toks[c.pos + 2].s)>>,
                            !.pos = @ + 3, !.operand = FALSE]
        ELSE IF IsKeyword(t.s) \/ HasStar(t.s) THEN Err(c)
        ELSE [c EXCEPT !.out = @ \o <<CId(t.s)>>, !.pos = @ + 1, !.operand = FALSE]
    ELSE
        IF t.t = ")" THEN
            IF c.ops = <<>> THEN Err(c)
            ELSE IF Top(c.ops) = "(" THEN [c EXCEPT !.ops = Pop(c.ops), !.pos = @ + 1]
            ELSE Reduce(c)
        ELSE IF t.t = "w" /\ t.s \in {S_and, S_or} THEN
            LET op == IF t.s = S_and THEN "cand" ELSE "cor" IN
            IF c.ops # <<>> /\ Top(c.ops) # "(" /\ Prec(Top(c.ops)) >= Prec(op)
            THEN Reduce(c)                                       \* left associativity
            ELSE [c EXCEPT !.ops = @ \o <<op>>, !.pos = @ + 1, !.operand = TRUE]
        ELSE Err(c)

RECURSIVE PRun(_)
PRun(c) == IF c.status = "run" THEN PRun(PStep(c)) ELSE c

\* Parse: [ok |-> BOOLEAN, ast |-> ...]
Parse(text) ==
    LET toks == Lex(text)
        c == PRun(PInit(toks))
    IN  IF (\E i \in 1..Len(toks) : toks[i].t = "bad") \/ c.status = "err"
        THEN [ok |-> FALSE, ast |-> CId(<<>>)]
        ELSE [ok |-> TRUE, ast |-> c.out[1]]

\* ---- selector resolution and denotation ---------------------------------
GlobParts(p) == [i \in 1..Len(p) |-> IF p[i] = CH_STAR THEN STAR ELSE p[i]]

\* A selector pattern refers to a detection name iff it matches it and (the underscore rule) a name that starts with an
\* underscore is named by a pattern that starts with one.
PatNames(p, n) == /\ (p = S_them \/ WildMatch(GlobParts(p), n))
                  /\ (n # <<>> /\ n[1] = CH_US => (p # <<>> /\ p[1] = CH_US))
\* Names the LIBRARY adds to a rule live in name spaces of their own: the detections of an applied filter are called
\* _filt_<letters>_<name>, the detection of an added condition _cond_<letters>.  Such a name is referred to only by a
\* pattern that begins with the same generated prefix (the rewritten patterns of that filter do), and the underscore
\* rule is applied to what follows the prefix - as it was inside the filter.  A pattern of the rule itself ("1 of _*")
\* does not reach them, and which letters were drawn makes no difference.
S_filt == <<95,102,105,108,116,95>>  S_cond == <<95,99,111,110,100,95>>
RECURSIVE LettersEnd(_, _)
LettersEnd(t, i) == IF i <= Len(t) /\ IsLower(t[i]) THEN LettersEnd(t, i + 1) ELSE i
GenLetters == 10      \* a generated name carries exactly this many drawn letters - nothing else is reserved
GenPrefix(n) ==       \* <<>>: not a generated name
    IF HasPrefix(n, S_filt) THEN
        LET e == LettersEnd(n, 7) IN IF e = 7 + GenLetters /\ e <= Len(n) /\ n[e] = CH_US THEN SubSeq(n, 1, e) ELSE <<>>
    ELSE IF HasPrefix(n, S_cond) /\ Len(n) = 6 + GenLetters /\ LettersEnd(n, 7) = Len(n) + 1 THEN n
    ELSE <<>>
\* indices of the detection names a selector pattern refers to (ns = FALSE: without name spaces - the mechanism before
\* the repair, kept for the negative control of MC_Filter)
SelMatchesM(p, names, ns) ==
    {i \in 1..Len(names) :
        LET g == IF ns THEN GenPrefix(names[i]) ELSE <<>> IN
        IF g = <<>> THEN PatNames(p, names[i])
        ELSE HasPrefix(p, g) /\ PatNames(SubSeq(p, Len(g) + 1, Len(p)), SubSeq(names[i], Len(g) + 1, Len(names[i])))}
SelMatches(p, names) == SelMatchesM(p, names, TRUE)

IndexOf(n, names) ==
    LET I == {i \in 1..Len(names) : names[i] = n}
    IN  IF I = {} THEN 0 ELSE CHOOSE i \in I : TRUE

SetToSortedSeq(S) ==   \* ascending sequence of a finite set of integers
    LET RECURSIVE Build(_)
        Build(T) == IF T = {} THEN <<>>
                    ELSE LET x == CHOOSE y \in T : \A z \in T : y <= z
                         IN  <<x>> \o Build(T \ {x})
    IN  Build(S)

\* Resolve an AST against detection names: BoolExpr over atoms 1..Len(names),
\* or a status that is not "ok":
\*   "undefined"  - names a detection that does not exist (an error is required)
\*   "unspec"     - a selector that matches nothing (the Sigma specification is silent)
RECURSIVE ResolveM(_, _, _)
Resolve(a, names) == ResolveM(a, names, TRUE)
ResolveM(a, names, ns) ==
    CASE a.k = "id" ->
           (IF IndexOf(a.n, names) = 0 THEN [st |-> "undefined", e |-> Const(FALSE)]
            ELSE [st |-> "ok", e |-> Atom(IndexOf(a.n, names))])
      [] a.k = "sel" ->
           (LET M == SetToSortedSeq(SelMatchesM(a.p, names, ns))
                args == [j \in 1..Len(M) |-> Atom(M[j])]
            IN  IF Len(M) = 0 THEN [st |-> "unspec", e |-> Const(FALSE)]
                ELSE [st |-> "ok", e |-> IF a.q = "all" THEN And(args) ELSE Or(args)])
      [] a.k = "cnot" ->
           (LET r == ResolveM(a.a, names, ns) IN [st |-> r.st, e |-> Not(r.e)])
      [] OTHER ->
           (LET l == ResolveM(a.l, names, ns)
                r == ResolveM(a.r, names, ns)
                st == IF l.st = "undefined" \/ r.st = "undefined" THEN "undefined"
                      ELSE IF l.st = "unspec" \/ r.st = "unspec" THEN "unspec" ELSE "ok"
            IN  [st |-> st, e |-> IF a.k = "cand" THEN And(<<l.e, r.e>>) ELSE Or(<<l.e, r.e>>)])

\* Denotation of condition text over a list of detection names
\*   [st |-> "ok" | "syntax" | "undefined" | "unspec", e |-> BoolExpr]
DenM(text, names, ns) ==
    LET p == Parse(text) IN
    IF ~p.ok THEN [st |-> "syntax", e |-> Const(FALSE)] ELSE ResolveM(p.ast, names, ns)
Den(text, names) == DenM(text, names, TRUE)

\* ---- printer ------------------------------------------------------------
APrec(a) == CASE a.k = "cor" -> 1 [] a.k = "cand" -> 2 [] a.k = "cnot" -> 3 [] OTHER -> 4
OpText(k) == IF k = "cand" THEN S_and ELSE S_or
SP == <<CH_SP>>
Paren(s) == <<CH_LP>> \o s \o <<CH_RP>>

RECURSIVE CPrint(_, _)
CPrint(a, style) ==
    CASE a.k = "id" -> (IF style = "wide" THEN Paren(Paren(a.n)) ELSE a.n)
      [] a.k = "sel" -> (LET s == QuantText(a.q) \o SP \o S_of \o SP \o a.p
                         IN  IF style = "wide" THEN <<CH_LP, CH_SP>> \o s \o <<CH_SP, CH_RP>> ELSE s)
      [] a.k = "cnot" ->
           (LET inner == CPrint(a.a, style) IN
            CASE style = "min" -> S_not \o SP \o (IF APrec(a.a) < 3 THEN Paren(inner) ELSE inner)
              [] style = "wide" -> S_not \o SP \o SP \o (IF APrec(a.a) < 3 THEN Paren(inner) ELSE inner)
              [] style = "full" -> Paren(S_not \o SP \o inner)
              [] style = "tight" -> S_not \o Paren(inner))
      [] OTHER ->
           (LET l == CPrint(a.l, style)
                r == CPrint(a.r, style)
                pl == IF APrec(a.l) < APrec(a) THEN Paren(l) ELSE l
                pr == IF APrec(a.r) <= APrec(a) THEN Paren(r) ELSE r
            IN
            CASE style = "min" -> pl \o SP \o OpText(a.k) \o SP \o pr
              [] style = "wide" -> pl \o SP \o SP \o OpText(a.k) \o <<9>> \o pr
              [] style = "full" -> Paren(l \o SP \o OpText(a.k) \o SP \o r)
              [] style = "tight" -> Paren(l) \o OpText(a.k) \o Paren(r))

Styles == {"min", "wide", "full", "tight"}

\* all ASTs with exactly n operators over a set of leaves
RECURSIVE Trees(_, _)
Trees(n, L) ==
    IF n = 0 THEN L
    ELSE {CNot(a) : a \in Trees(n - 1, L)} \cup
         UNION {{CBin(op, l, r) : op \in {"cand", "cor"}, l \in Trees(i, L), r \in Trees(n - 1 - i, L)}
                : i \in 0..(n - 1)}
TreesUpTo(n, L) == UNION {Trees(i, L) : i \in 0..n}
=============================================================================
