------------------------------- MODULE Filter -------------------------------
(***************************************************************************)
(* Sigma filters (C11).                                                    *)
(*  Ideal:  a filter applies to a detection rule iff its log source covers *)
(*          the rule's and its rule list names the rule (or is `any`);     *)
(*          every condition of such a rule then means                      *)
(*              (rule condition) AND (filter condition)                    *)
(*          with the two conditions evaluated over their OWN detections.   *)
(*  Mechanism (as the code does it): the filter's detections are copied    *)
(*          into the rule under PREFIX_<name>, the filter condition is     *)
(*          rewritten token by token (names and patterns get the prefix,   *)
(*          `them` becomes PREFIX_ + star), and the rule condition becomes   *)
(*          "(rule) and (filter)".  MC_Filter checks that this mechanism   *)
(*          implements the Ideal - i.e. is free of capture in both         *)
(*          directions - and where it is not.                              *)
(***************************************************************************)
EXTENDS Detection

\* ---- applicability --------------------------------------------------------------------
\* log source == [cat, prod, svc] with <<>> = not given ; rule ref == name or id text
LsCovers(fls, rls) == /\ (fls.cat = <<>> \/ fls.cat = rls.cat)
                    /\ (fls.prod = <<>> \/ fls.prod = rls.prod)
                    /\ (fls.svc = <<>> \/ fls.svc = rls.svc)
\* an entry of the rule list names a rule by its name or by its identifier; an identifier is a UUID, whose hexadecimal
\* digits mean the same in either case
IsHexDigit(c) == (c >= 48 /\ c <= 57) \/ (c >= 97 /\ c <= 102) \/ (c >= 65 /\ c <= 70)
IsUuidText(t) == Len(t) = 36 /\ \A i \in 1..36 : IF i \in {9, 14, 19, 24} THEN t[i] = 45 ELSE IsHexDigit(t[i])
SameId(a, b) == a = b \/ (IsUuidText(a) /\ IsUuidText(b) /\ LowerSeq(a) = LowerSeq(b))
Named(f, r) == f.any \/ f.rules = <<>> \/ \E k \in 1..Len(f.rules) : f.rules[k] = r.name \/ SameId(f.rules[k], r.uid)
Applies(f, r) == LsCovers(f.ls, r.ls) /\ Named(f, r)

\* ---- Ideal meaning ----------------------------------------------------------------------
FilteredDen(ruledoc, c, filterdocs) ==     \* filterdocs: the docs of the filters that apply, in order
    LET r == RuleDen(ruledoc, c, FALSE)
        fs == [k \in 1..Len(filterdocs) |-> RuleDen(filterdocs[k], 1, FALSE)]
    IN  [st |-> Worst(<<r.st>> \o [k \in 1..Len(fs) |-> fs[k].st]),
         e |-> IF Len(fs) = 0 THEN r.e ELSE QAnd(<<r.e>> \o [k \in 1..Len(fs) |-> fs[k].e])]

\* ---- Mechanism: prefix renaming at the level of condition text ---------------------------
QuantifierAt(toks, i) == /\ toks[i].t = "w" /\ toks[i].s \in {S_1, S_any, S_all}
                         /\ i + 1 <= Len(toks) /\ IsWordTok(toks[i + 1], S_of)
RewriteCond(text, prefix) ==
    LET toks == Lex(text)
        out(i) == LET t == toks[i] IN
                  IF t.t = "(" THEN <<CH_LP>> ELSE IF t.t = ")" THEN <<CH_RP>>
                  ELSE IF t.s \in {S_and, S_or, S_not, S_of} \/ QuantifierAt(toks, i) THEN t.s
                  ELSE IF t.s = S_them THEN prefix \o <<CH_US, CH_STAR>>
                  ELSE prefix \o <<CH_US>> \o t.s
    IN  Join([i \in 1..Len(toks) |-> out(i)], <<CH_SP>>)
CombinedCond(rulecond, filtercond, prefix) ==
    <<CH_LP>> \o rulecond \o <<CH_RP, CH_SP>> \o S_and \o <<CH_SP, CH_LP>> \o RewriteCond(filtercond, prefix) \o <<CH_RP>>
CombinedNames(rulenames, filternames, prefix) ==
    rulenames \o [k \in 1..Len(filternames) |-> prefix \o <<CH_US>> \o filternames[k]]
=============================================================================
