SPECIFICATION Spec
INVARIANT NoInvention
INVARIANT FirstOutermost
PROPERTY AllCombinations
PROPERTY UnhandledSurvive
PROPERTY HandledGone
