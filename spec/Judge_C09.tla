---------------------------- MODULE Judge_C09 ----------------------------
(* Mode C judge for C09: each recorded run (one load path, one document order) is a trace
   Load ; Resolve(order) ; Convert(d)* ; Output(queries).  It is replayed through the
   conversion state machine of spec/Collection.tla; all runs of one rule set must agree. *)
EXTENDS Collection, Json, IOUtils, TLC
VARIABLE x
Obs == ndJsonDeserialize(IOEnv.VERIF_OBS)

\* replay the Convert events through CStep; TRUE iff every event is the enabled next step
RECURSIVE Replay(_, _, _)
Replay(docs, st, evs) ==
    IF evs = <<>> THEN st
    ELSE IF st.status # "run" \/ st.pos > Len(st.order) \/ st.order[st.pos] # Head(evs)
         THEN [st EXCEPT !.status = "mismatch"]
    ELSE Replay(docs, CStep(docs, st), Tail(evs))

Mixed(docs) == \E d \in 1..Len(docs) : MixedGenerate(docs, d)
RunClause(docs, r) ==      \* "" or the failing clause of one run
    IF MissingRef(docs) THEN
        (IF r.ok \/ r.stage # "load" THEN "MissingRefAtLoad"
         ELSE IF ~r.sigma THEN "MissingRefAtLoad:NonSigmaException" ELSE "")
    ELSE IF ~r.ok THEN (IF r.sigma THEN "ValidRuleSetFails:" \o r.stage ELSE "NonSigmaException")
    \* SigmaCollection.rules as the loader left it: referenced rules first, whatever the load path
    ELSE IF ~IsPermutationOf(r.order0, Len(docs)) THEN "OrderIsPermutation:at-load"
    ELSE IF ~RefsFirst(docs, r.order0) THEN "RefsFirst:at-load"
    ELSE IF ~IsPermutationOf(r.order, Len(docs)) THEN "OrderIsPermutation"
    ELSE IF ~RefsFirst(docs, r.order) THEN "RefsFirst"
    ELSE LET fin == Replay(docs, CInit(r.order), r.events) IN
         IF fin.status = "mismatch" \/ fin.status = "unavailable" \/ fin.pos # Len(docs) + 1 THEN "ConvertedInOrderAfterRefs"
         \* (referrers that disagree on generation: the property does not say who wins - only that every order agrees)
         ELSE IF ~Mixed(docs) /\ Len(r.out) # Len(fin.emitted) THEN "OutputSuppression"
         ELSE ""
\* (document, query) pairs of a successful run
Pairs(docs, r) ==
    LET fin == Replay(docs, CInit(r.order), r.events)
    IN  {<<fin.emitted[i], r.out[i]>> : i \in 1..Len(r.out)}

Verdict(o) ==
    LET cl == [k \in 1..Len(o.runs) |-> RunClause(o.docs, o.runs[k])]
        bad == {k \in 1..Len(o.runs) : cl[k] # ""}
        OutBag(r) == [q \in {r.out[i] : i \in 1..Len(r.out)} |-> Cardinality({i \in 1..Len(r.out) : r.out[i] = q})]
        \* (runs of one group write the rule names alike; queries quote the names, so groups are compared within themselves)
        First(k) == CHOOSE j \in 1..Len(o.runs) : o.runs[j].grp = o.runs[k].grp /\ \A j2 \in 1..Len(o.runs) : o.runs[j2].grp = o.runs[k].grp => j <= j2
        same == \/ MissingRef(o.docs)
                \/ IF Mixed(o.docs) THEN \A k \in 1..Len(o.runs) : OutBag(o.runs[k]) = OutBag(o.runs[First(k)])
                   ELSE \A k \in 1..Len(o.runs) : Pairs(o.docs, o.runs[k]) = Pairs(o.docs, o.runs[First(k)])
    IN  IF bad # {} THEN
            LET k == CHOOSE j \in bad : \A j2 \in bad : j <= j2
            IN  [id |-> o.id, v |-> "violation:" \o cl[k], run |-> k, nbad |-> Cardinality(bad)]
        ELSE IF ~same THEN [id |-> o.id, v |-> "violation:SameOutcomeEveryOrder", run |-> 0, nbad |-> 0]
        ELSE [id |-> o.id, v |-> "ok", run |-> 0, nbad |-> 0]
ASSUME ndJsonSerialize(IOEnv.VERIF_OUT, [i \in 1..Len(Obs) |-> Verdict(Obs[i])])
Init == x = 0
Next == UNCHANGED x
=============================================================================
