----------------------------- MODULE Gen_C16 -----------------------------
(* Mode B generator for C16: pipeline documents with the opt-in keys injected (truthy) at every
   subset of levels x item kind x nesting depth x caller opt-in x environment value; for the
   template kinds additionally vars path class x source of allowed base directories.        *)
EXTENDS Security, SequencesExt, Json, IOUtils, Randomization, TLC
VARIABLE x
Quick == IOEnv.VERIF_TIER = "quick"
LevelsFor(depth) == {"top", "item"} \cup (IF depth >= 1 THEN {"wrap1"} ELSE {}) \cup (IF depth >= 2 THEN {"wrap2"} ELSE {})
Injects(depth) == {{}, {"item"}, {"top"}, LevelsFor(depth) \ {"top"}} \cup {{l} : l \in LevelsFor(depth) \ {"top"}}
ExtCases == UNION {{[kind |-> k, depth |-> d, inject |-> SetToSeq(i), caller |-> c, env |-> e, pathclass |-> "inside", dirs |-> "none"] :
               k \in {"file", "http", "command"}, i \in Injects(d), c \in BOOLEAN, e \in EnvValues} : d \in 0..2}
VarCases == UNION {{[kind |-> k, depth |-> d, inject |-> SetToSeq(i), caller |-> c, env |-> e, pathclass |-> pc, dirs |-> dm] :
               k \in {"ptemplate", "ftemplate"}, i \in Injects(d), c \in BOOLEAN,
               e \in (IF Quick THEN {"unset", "1", "yes"} ELSE EnvValues), pc \in PathClasses, dm \in DirModes} : d \in 0..2}
\* the pipeline file loaded by NAME through the pipeline resolver (which takes no opt-in argument: the environment decides)
ResolverCases == UNION {{[kind |-> k, depth |-> d, inject |-> SetToSeq(i), caller |-> FALSE, env |-> e, pathclass |-> pc, dirs |-> "resolver"] :
               k \in {"ptemplate", "ftemplate"}, i \in {{}, {"item"}}, e \in {"unset", "1", "yes"}, pc \in PathClasses} : d \in 0..1}
\* the caller opts in (argument or environment) and gives a collection of allowed directories WITHOUT entries
EmptyCases == UNION {{[kind |-> k, depth |-> d, inject |-> SetToSeq(i), caller |-> c, env |-> e, pathclass |-> pc, dirs |-> "empty"] :
               k \in {"ptemplate", "ftemplate"}, i \in {{}, {"item"}}, c \in BOOLEAN, e \in {"unset", "1"}, pc \in {"inside", "outside"}} : d \in 0..2}
\* capabilities reached for from inside the template text (no opt-in key is written anywhere)
JCases == {[kind |-> k, depth |-> 0, inject |-> <<>>, caller |-> c, env |-> e, pathclass |-> "outside", dirs |-> dm] :
               k \in {"jcmd", "jvars", "jfile", "jcmdf", "jvarsf", "jfilef"}, c \in BOOLEAN, e \in {"unset", "1"}, dm \in {"none", "source"}}
\* a Python-object tag in the pipeline text, at four places of the document (depth = place), whatever the caller and the environment grant
YCases == {[kind |-> "ytag", depth |-> d, inject |-> <<>>, caller |-> c, env |-> e, pathclass |-> "outside", dirs |-> "none"] :
               d \in 0..3, c \in BOOLEAN, e \in {"unset", "1"}}
ASSUME LET S == SetToSeq(EmptyCases \cup ResolverCases \cup ExtCases \cup VarCases \cup JCases \cup YCases) IN ndJsonSerialize(IOEnv.VERIF_OUT, [i \in 1..Len(S) |-> [id |-> i] @@ S[i]])
Init == x = 0
Next == UNCHANGED x
=============================================================================
