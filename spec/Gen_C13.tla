----------------------------- MODULE Gen_C13 -----------------------------
(* Mode B generator for C13: gate configurations for one marker item behind two preceding
   items (set_state k=v; field_name_mapping fieldA->fieldB with id "ren").  Each group draws
   conditions from a pool of every built-in type (true and false instances), in list or
   map form, with default / and / or linking or an expression, negated or not - including
   EMPTY groups under every linking/negation setting.                                    *)
EXTENDS Gating, ModSeeds, Json, IOUtils, Randomization, TLC
VARIABLE x
Quick == IOEnv.VERIF_TIER = "quick"
t_k == <<107>> t_v == <<118>> t_w == <<119>> t_ren == <<114,101,110>> t_nope == <<110,111,112,101>>
fA == <<102,105,101,108,100,65>> fB == <<102,105,101,108,100,66>> fC == <<102,105,101,108,100,67>>
fD == <<102,105,101,108,100,68>> fE == <<102,105,101,108,100,69>> fG == <<102,105,101,108,100,71>> fH == <<102,105,101,108,100,72>>
t_win == <<119,105,110,100,111,119,115>> t_lin == <<108,105,110,117,120>> t_c == <<99>>
t_tag == <<97,116,116,97,99,107,46,116,49,48,48,48>> t_tagx == <<97,116,116,97,99,107,46,120>>
t_foo == <<102,111,111>> t_bar == <<98,97,114>> t_zz == <<122,122>>

RC(t, s) == [t |-> t, s |-> s, cat |-> <<>>, prod |-> <<>>, svc |-> <<>>, k |-> <<>>, v |-> <<>>, op |-> "eq", num |-> FALSE, n |-> 0]
LS(prod) == [RC("logsource", <<>>) EXCEPT !.prod = prod]
ST(k, v) == [RC("state", <<>>) EXCEPT !.k = k, !.v = v]
STN(op, n) == [RC("state", <<>>) EXCEPT !.k = <<110>>, !.op = op, !.num = TRUE, !.n = n]
AT(name, op, v) == [RC("attr", op) EXCEPT !.k = name, !.v = v]
CI(f, v) == [RC("contains_item", <<>>) EXCEPT !.k = f, !.v = v]
a_score == <<115,101,118,101,114,105,116,121,95,115,99,111,114,101>>   \* severity_score (custom attribute, integer 5)
a_level == <<108,101,118,101,108>>  a_author == <<97,117,116,104,111,114>>  a_none == <<110,111,95,115,117,99,104>>
t_high == <<104,105,103,104>> t_crit == <<99,114,105,116,105,99,97,108>> t_med == <<109,101,100,105,117,109>>
AttrPool == <<AT(a_score, "eq", <<53>>), AT(a_score, "eq", <<54>>), AT(a_score, "ne", <<53>>), AT(a_score, "gt", <<52>>), AT(a_score, "gt", <<53>>),
              AT(a_score, "lt", <<53>>), AT(a_score, "lte", <<53>>), AT(a_score, "gte", <<54>>),
              AT(a_level, "gte", t_high), AT(a_level, "gte", t_crit), AT(a_level, "lt", t_med), AT(a_level, "eq", t_high),
              AT(a_author, "eq", <<109,101>>), AT(a_author, "ne", <<109,101>>), AT(a_none, "eq", <<53>>),
              CI(fD, <<53>>), CI(fD, <<54>>), CI(fB, t_bar), CI(fC, t_bar), CI(fA, t_bar)>>
RulePool == AttrPool \o <<LS(t_win), LS(t_lin), RC("contains_field", fB), RC("contains_field", fA), RC("is_sigma_rule", <<>>),
              \* fieldK was mapped onto the TWO fields fieldK1 and fieldK2 (two items below the one that was there)
              RC("contains_field", <<102,105,101,108,100,75,49>>), RC("contains_field", <<102,105,101,108,100,75>>),
              RC("is_sigma_correlation_rule", <<>>), RC("tag", t_tag), RC("tag", t_tagx), RC("applied", t_ren),
              RC("applied", t_nope), RC("applied", <<112,114,101>>), ST(t_k, t_v), ST(t_k, t_w),
              \* the state variable z holds the empty string
              ST(<<122>>, <<>>), ST(<<122>>, t_v), RC("applied", <<115,116,48>>),
              \* the state variable n holds the number 5: order operators, number against text
              STN("gte", 5), STN("gt", 5), STN("lt", 6), STN("lte", 4), STN("ne", 5), STN("ne", 6), STN("eq", 5),
              [ST(<<110>>, <<53>>) EXCEPT !.op = "eq"],                         \* n eq "5" (a text)
              [ST(t_k, <<117>>) EXCEPT !.op = "gte"], [ST(t_k, t_v) EXCEPT !.op = "lt"], [ST(t_k, t_w) EXCEPT !.op = "lte"],     \* texts by code points
              [STN("gte", 5) EXCEPT !.k = t_k], [ST(<<110>>, <<97>>) EXCEPT !.op = "lt"],      \* a text against a number
              \* (appended at the end: other definitions pick conditions of this pool by their position)
              \* membership operators on attributes that are no lists: an error of the configuration (raised when the
              \* condition is evaluated - if it is)
              AT(a_score, "in", <<53>>), AT(a_level, "not_in", t_high)>>
IC(t, all, s) == [t |-> t, all |-> all, s |-> s, k |-> <<>>, v |-> <<>>, op |-> "eq", num |-> FALSE, n |-> 0]
ItemPool == <<IC("match_string", FALSE, t_foo), IC("match_string", TRUE, t_foo), IC("match_value", FALSE, t_bar),
              IC("match_value", TRUE, t_zz), IC("contains_wildcard", FALSE, <<>>), IC("contains_wildcard", TRUE, <<>>),
              IC("is_null", FALSE, <<>>), IC("is_null", TRUE, <<>>), IC("applied", FALSE, t_ren), IC("applied", FALSE, <<112,114,101>>), IC("applied", FALSE, <<111,110,108,121,49>>), IC("applied", FALSE, <<104,112,114,101>>),
              [IC("state", FALSE, <<>>) EXCEPT !.k = t_k, !.v = t_v], [IC("state", FALSE, <<>>) EXCEPT !.k = t_k, !.v = t_w],
              [IC("state", FALSE, <<>>) EXCEPT !.k = <<122>>, !.v = <<>>],
              [IC("state", FALSE, <<>>) EXCEPT !.k = <<110>>, !.op = "gt", !.num = TRUE, !.n = 4],
              [IC("state", FALSE, <<>>) EXCEPT !.k = t_k, !.op = "gt", !.num = TRUE, !.n = 4],
              \* (appended: other definitions pick conditions of this pool by position) the value of the case-sensitive item
              IC("match_value", FALSE, <<65,100,109>>), IC("match_value", TRUE, <<65,100,109>>), IC("match_string", FALSE, <<65,100>>)>>
FC(t, names, s) == [t |-> t, names |-> names, s |-> s, k |-> <<>>, v |-> <<>>, op |-> "eq", num |-> FALSE, n |-> 0, pats |-> <<>>]
RP(ci, text, end) == [ci |-> ci, text |-> text, end |-> end]
FCR(t, pats) == [FC(t, <<>>, <<>>) EXCEPT !.pats = pats]
\* fieldh (any case) | FIELDB exactly ; fieldc... (any case) | fieldD exactly   - the flag of the first expression is the first one's alone
RePats1 == <<RP(TRUE, <<102,105,101,108,100,104>>, FALSE), RP(FALSE, <<70,73,69,76,68,66>>, TRUE)>>
RePats2 == <<RP(TRUE, <<70,73,69,76,68,67>>, FALSE), RP(FALSE, fD, TRUE)>>
FieldPool == <<FCR("include_re", RePats1), FCR("exclude_re", RePats1), FCR("include_re", RePats2), FC("include", <<fH>>, <<>>), FC("exclude", <<fG>>, <<>>), FC("include", <<fB>>, <<>>), FC("include", <<fC, fD>>, <<>>), FC("exclude", <<fB>>, <<>>), FC("include", <<fA>>, <<>>),
               FC("exclude", <<fE, fC>>, <<>>), FC("applied", <<>>, t_ren),
               [FC("state", <<>>, <<>>) EXCEPT !.k = t_k, !.v = t_v], [FC("state", <<>>, <<>>) EXCEPT !.k = t_k, !.v = t_w],
               [FC("state", <<>>, <<>>) EXCEPT !.k = <<122>>, !.v = <<>>],
               [FC("state", <<>>, <<>>) EXCEPT !.k = <<110>>, !.op = "lte", !.num = TRUE, !.n = 5],
               [FC("state", <<>>, <<>>) EXCEPT !.k = <<110>>, !.op = "lte", !.v = <<53>>]>>

Exprs1 == {EId(1), ENot(EId(1))}
Exprs2 == {EBin("and", EId(1), EId(2)), EBin("or", EId(1), EId(2)), EBin("and", EId(1), ENot(EId(2))),
           ENot(EBin("or", EId(1), EId(2))), EBin("or", ENot(EId(1)), EId(2))}
Grp(conds, link, expr, neg) == [conds |-> conds, link |-> link, expr |-> expr, neg |-> neg]
Pairs(pool, picks) ==
    {Grp(<<pool[i], pool[j]>>, l, EId(1), n) : i \in picks, j \in picks, l \in {"and", "or"}, n \in BOOLEAN}
    \cup {Grp(<<pool[i], pool[j]>>, "expr", e, FALSE) : i \in picks, j \in picks, e \in Exprs2}
Groups(pool, picks) ==
    {Grp(<<>>, l, EId(1), n) : l \in {"default", "and", "or"}, n \in BOOLEAN}
    \cup {Grp(<<pool[i]>>, l, EId(1), n) : i \in picks, l \in {"default", "or"}, n \in BOOLEAN}
    \cup {Grp(<<pool[i]>>, "expr", e, FALSE) : i \in picks, e \in Exprs1}
    \* (quick: every single condition in every setting, a sample of the pairs)
    \cup (IF Quick /\ Cardinality(Pairs(pool, picks)) > 4000 THEN RandomSubset(4000, Pairs(pool, picks)) ELSE Pairs(pool, picks))
Empty == Grp(<<>>, "default", EId(1), FALSE)
RuleGroups == Groups(RulePool, 1..Len(RulePool))
ItemGroups == Groups(ItemPool, 1..Len(ItemPool))
FieldGroups == Groups(FieldPool, 1..Len(FieldPool))
Gate(r, i, f) == [rule |-> r, item |-> i, field |-> f]
N == IF Quick THEN 1500 ELSE 20000
\* (pairs over the whole rule pool would be large: attribute conditions are paired among themselves and with the first six others)
Cases == {Gate(r, Empty, Empty) : r \in RuleGroups} \cup {Gate(Empty, i, Empty) : i \in ItemGroups}
         \cup {Gate(Empty, Empty, f) : f \in FieldGroups}
         \cup {Gate(r, i, f) : r \in RandomSubset(12, RuleGroups), i \in RandomSubset(12, ItemGroups), f \in RandomSubset(10, FieldGroups)}
\* post-processing items are pipeline items too: a marker (embed) behind a first post-processing item of
\* each kind, gated on that item's application (and on everything else a rule group may say)
t_first == <<102,105,114,115,116>>
PPKinds == {"embed", "simple_template", "template", "replace", "none"}
PPGroups == {Grp(<<RC("applied", t_first)>>, l, EId(1), n) : l \in {"default", "or"}, n \in BOOLEAN}
            \cup {Grp(<<RC("applied", t_first)>>, "expr", e, FALSE) : e \in Exprs1}
            \cup {Grp(<<RC("applied", t_first), RulePool[i]>>, "expr", e, FALSE) : i \in {1, 9, 21, 22, 25}, e \in Exprs2}
PPGroupsState == {Grp(<<RC("applied", t_first), c>>, "expr", e, FALSE) : e \in Exprs2,
                    c \in {ST(t_k, t_v), ST(t_k, t_w), STN("gte", 5), RC("applied", t_ren), RC("applied", t_nope)}}
PPCases == {[G |-> Gate(r, Empty, Empty), pp |-> k] : r \in PPGroups \cup PPGroupsState, k \in PPKinds}
\* nest{T} = T: the same gates with marker items wrapped in a nested pipeline (they must see the state, the
\* applied items and the field tracking of the enclosing pipeline)
NestCases == {Gate(r, Empty, Empty) : r \in RuleGroups} \cup {Gate(Empty, i, Empty) : i \in ItemGroups}
             \cup {Gate(Empty, Empty, f) : f \in FieldGroups}
\* words that are NOT linking words where one is expected (upper case, another operator, the empty word)
BadWords == {"OR", "And", "xor", "any", ""}
BadLinkCases == {Gate(Grp(<<RulePool[21], RulePool[22]>>, w, EId(1), FALSE), Empty, Empty) : w \in BadWords}
                \cup {Gate(Empty, Grp(<<ItemPool[1], ItemPool[3]>>, w, EId(1), FALSE), Empty) : w \in BadWords}
                \cup {Gate(Empty, Empty, Grp(<<FieldPool[1], FieldPool[3]>>, w, EId(1), FALSE)) : w \in BadWords}
ASSUME LET S == SetToSeq(Cases \cup BadLinkCases)
           P == SetToSeq(PPCases)
           Nn == SetToSeq(IF Quick THEN RandomSubset(1500, NestCases) ELSE NestCases)
       IN  ndJsonSerialize(IOEnv.VERIF_OUT, [i \in 1..Len(S) |-> [id |-> i, G |-> S[i], pp |-> "-", nest |-> FALSE]]
                                            \o [i \in 1..Len(P) |-> [id |-> Len(S) + i, nest |-> FALSE] @@ P[i]]
                                            \o [i \in 1..Len(P) |-> [id |-> 5000000 + i, nest |-> TRUE] @@ P[i]]
                                            \o [i \in 1..Len(Nn) |-> [id |-> Len(S) + Len(P) + i, G |-> Nn[i], pp |-> "-", nest |-> TRUE]])
Init == x = 0
Next == UNCHANGED x
=============================================================================
