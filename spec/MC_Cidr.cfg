INIT Init
NEXT Next
INVARIANT RefIsExact
INVARIANT DetectsMissing
INVARIANT DetectsOutside
INVARIANT DetectsOverlap
INVARIANT BruteForce
INVARIANT PatternTextRoundTrip
