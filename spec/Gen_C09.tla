----------------------------- MODULE Gen_C09 -----------------------------
(* Mode B generator for C09: every rule-set shape with the permutations of its documents
   (all of them up to 5 documents - thorough 6 - and a seeded sample beyond).           *)
EXTENDS Collection, CollShapes, Json, IOUtils, Randomization, TLC
VARIABLE x
Tier == IOEnv.VERIF_TIER
Quick == Tier = "quick"
Perms(n) == {p \in [1..n -> 1..n] : \A i, j \in 1..n : i # j => p[i] # p[j]}
PermsFor(n) == IF n <= (IF Quick THEN 4 ELSE 6) THEN Perms(n)
               ELSE RandomSubset(IF Quick THEN 60 ELSE 400, Perms(n))
Case(s) == [id |-> s, docs |-> Shapes[s], perms |-> SetToSeq(PermsFor(Len(Shapes[s])))]
ASSUME ndJsonSerialize(IOEnv.VERIF_OUT, [s \in 1..Len(Shapes) |-> Case(s)])
Init == x = 0
Next == UNCHANGED x
=============================================================================
