----------------------------- MODULE Gen_C18 -----------------------------
(* Mode B generator for C18: IPv4 networks for every prefix length 0..32, IPv6 networks
   for prefix lengths 0..128, both over boundary / structured / random base addresses
   (masked here, so every case is a valid network), written as text by the spec (canonical form, and for a
   subset netmask notation / no prefix length / upper-case / uncompressed IPv6), plus
   invalid CIDR strings.  Shard 1 = IPv4, 2 = IPv6, 3 = invalid.                     *)
EXTENDS Cidr, Json, IOUtils, Randomization, TLC
VARIABLE x
Tier == IOEnv.VERIF_TIER
Shard == atoi(IOEnv.VERIF_SHARD)
Quick == Tier = "quick"

V4Bases == {<<0, 0, 0, 0>>, <<255, 255, 255, 255>>, <<10, 1, 2, 3>>, <<192, 168, 129, 77>>,
            <<127, 128, 63, 64>>, <<1, 0, 0, 1>>, <<100, 200, 0, 255>>, <<9, 99, 199, 249>>}
           \cup RandomSubset(IF Quick THEN 4 ELSE 120, [1..4 -> 0..255])
V4Cases == {[kind |-> "v4", net |-> MaskV4(b, p), p |-> p,
             text |-> V4Text(MaskV4(b, p)) \o <<47>> \o NatText(p)] : b \in V4Bases, p \in 0..32}

V6Bases == {[i \in 1..8 |-> 0], [i \in 1..8 |-> 65535],
            <<8193, 3512, 0, 0, 0, 0, 0, 0>>,          \* 2001:db8::
            <<8193, 3512, 0, 1, 0, 0, 1, 0>>,
            <<65152, 0, 0, 0, 513, 45055, 65034, 1>>,   \* fe80::...
            <<0, 0, 0, 1, 0, 0, 0, 0>>,
            <<1, 0, 0, 0, 0, 0, 0, 1>>,
            <<4660, 22136, 39612, 57072, 4660, 22136, 39612, 57072>>,
            <<0, 0, 65535, 0, 0, 65535, 0, 0>>}
           \cup RandomSubset(IF Quick THEN 2 ELSE 40, [1..8 -> {0, 0, 0, 1, 255, 4096, 65535, 43981}])
V6Prefixes == IF Quick THEN {p \in 0..128 : p % 4 = 0} \cup {1, 2, 3, 63, 65, 113, 118, 119, 121, 122, 123, 125, 126, 127}
              ELSE 0..128
V6Cases == {[kind |-> "v6", net |-> MaskV6(b, p), p |-> p,
             text |-> (IF full THEN FullV6(MaskV6(b, p)) ELSE Canonical(MaskV6(b, p))) \o <<47>> \o NatText(p)]
              : b \in V6Bases, p \in V6Prefixes, full \in (IF Quick THEN {FALSE} ELSE BOOLEAN)}

\* valid networks in spellings other than the canonical one: dotted netmask, no prefix length
\* (a single address), upper-case and uncompressed IPv6 - the meaning (net, p) is the same
Upper(t) == [i \in 1..Len(t) |-> IF t[i] >= 97 /\ t[i] <= 102 THEN t[i] - 32 ELSE t[i]]
AltBases4 == {<<10, 1, 2, 3>>, <<192, 168, 129, 77>>, <<255, 255, 255, 255>>}
V4Alt == {[kind |-> "v4", net |-> MaskV4(b, p), p |-> p,
           text |-> V4Text(MaskV4(b, p)) \o <<47>> \o V4Text(V4MaskOctets(p))] : b \in AltBases4, p \in 0..32}
         \cup {[kind |-> "v4", net |-> b, p |-> 32, text |-> V4Text(b)] : b \in AltBases4}
AltBases6 == {<<8193, 3512, 0, 1, 0, 0, 1, 0>>, <<65152, 0, 0, 0, 513, 45055, 65034, 1>>,
              <<4660, 22136, 39612, 57072, 4660, 22136, 39612, 57072>>, <<0, 0, 0, 0, 0, 0, 0, 1>>}
\* the low 32 bits written as a dotted quad (x:x:x:x:x:x:d.d.d.d, and the compressed ::ffff:d.d.d.d of mapped addresses)
DottedV6(g) == Join([i \in 1..6 |-> HexText(g[i])], <<58>>) \o <<58>> \o V4Text(<<g[7] \div 256, g[7] % 256, g[8] \div 256, g[8] % 256>>)
MappedV6(g) == <<58,58,102,102,102,102,58>> \o V4Text(<<g[7] \div 256, g[7] % 256, g[8] \div 256, g[8] % 256>>)
Mapped == <<0, 0, 0, 0, 0, 65535, 49320, 33101>>      \* ::ffff:192.168.129.77
V6Alt == {[kind |-> "v6", net |-> MaskV6(b, p), p |-> p,
           text |-> (CASE f = "upper" -> Upper(Canonical(MaskV6(b, p))) [] f = "dotted" -> DottedV6(MaskV6(b, p)) [] OTHER -> FullV6(MaskV6(b, p)))
                    \o <<47>> \o NatText(p)]
            : b \in AltBases6, p \in {0, 10, 56, 64, 100, 127, 128}, f \in {"upper", "full", "dotted"}}
         \cup {[kind |-> "v6", net |-> b, p |-> 128, text |-> Canonical(b)] : b \in AltBases6}
         \cup {[kind |-> "v6", net |-> MaskV6(Mapped, p), p |-> p, text |-> MappedV6(MaskV6(Mapped, p)) \o <<47>> \o NatText(p)] : p \in {96, 104, 112, 120, 127, 128}}

BadTexts == {
  <<49,46,50,46,51,46,52,47,51,51>>,            \* 1.2.3.4/33
  <<49,46,50,46,51,47,50,52>>,                  \* 1.2.3/24
  <<50,53,54,46,48,46,48,46,48,47,56>>,         \* 256.0.0.0/8
  <<>>,                                         \* empty
  <<97,98,99>>,                                 \* abc
  <<49,46,50,46,51,46,52,47,45,49>>,            \* 1.2.3.4/-1
  <<58,58,47,49,50,57>>,                        \* ::/129
  <<58,58,58,47,54,52>>,                        \* :::/64
  <<49,46,50,46,51,46,52,47,50,52,47,50>>,      \* 1.2.3.4/24/2
  <<103,58,58,47,49,54>>,                       \* g::/16
  <<49,48,46,48,46,48,46,48,47,56,32,120>>,     \* "10.0.0.0/8 x"
  \* white space around a network (a quoted scalar with a blank, the line feed of a block scalar, a tab)
  <<32,49,48,46,48,46,48,46,48,47,56>>, <<49,48,46,48,46,48,46,48,47,56,32>>, <<49,48,46,48,46,48,46,48,47,56,10>>,
  <<9,49,48,46,48,46,48,46,48,47,56>>, <<32,58,58,49,47,49,50,56,32>>, <<49,48,46,48,46,48,46,48,32,47,56>>,
  \* an IPv6 address with a zone identifier (fe80::1%1/128, fe80::%eth0/64): no network of addresses as they stand in logs
  <<102,101,56,48,58,58,49,37,49,47,49,50,56>>, <<102,101,56,48,58,58,37,101,116,104,48,47,54,52>>
}
BadCases == {[kind |-> "bad", net |-> <<>>, p |-> 0, text |-> t] : t \in BadTexts}

Cases == CASE Shard = 1 -> V4Cases \cup V4Alt [] Shard = 2 -> V6Cases \cup V6Alt [] OTHER -> BadCases
ASSUME LET S == SetToSeq(Cases)
       IN  ndJsonSerialize(IOEnv.VERIF_OUT, [i \in 1..Len(S) |-> [id |-> Shard * 1000000 + i] @@ S[i]])
Init == x = 0
Next == UNCHANGED x
=============================================================================
