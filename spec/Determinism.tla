---------------------------- MODULE Determinism ----------------------------
(***************************************************************************)
(* Output determinism (C20).  The statement is relational: the digest of   *)
(* everything a run emits (queries in order, error records) is a function  *)
(* of the corpus alone - not of the interpreter's hash seed nor of the     *)
(* library's random draws - and internal identifiers never reach output.   *)
(*                                                                         *)
(* Mechanism view: a container that is a SET hands out its elements in an  *)
(* order chosen by the run (modelled as a nondeterministic permutation).   *)
(* An output built by iterating a set depends on that choice unless it is  *)
(* sorted first, or unless the set has at most one element.                *)
(***************************************************************************)
EXTENDS Integers, Sequences, FiniteSets, SequencesExt

Perms(S) == {p \in [1..Cardinality(S) -> S] : \A i, j \in 1..Cardinality(S) : i # j => p[i] # p[j]}
SortSeqNat(S) == LET RECURSIVE B(_)
                     B(T) == IF T = {} THEN <<>> ELSE LET m == CHOOSE y \in T : \A z \in T : y <= z IN <<m>> \o B(T \ {m})
                 IN  B(S)
\* rendering of a set-valued attribute into output, with or without sorting
Render(S, order, sorted) == IF sorted THEN SortSeqNat(S) ELSE order
=============================================================================
