---------------------------- MODULE Judge_C16 ----------------------------
(* Mode C judge for C16: the recorded trace  Load(doc, caller opt-ins, env) ; Convert  with the
   audit events observed meanwhile is checked against the state machine of spec/Security.tla:
   a side effect event is an enabled step only if MayRun holds.                              *)
EXTENDS Security, Json, IOUtils, TLC
VARIABLE x
Obs == ndJsonDeserialize(IOEnv.VERIF_OBS)
AsCase(o) == [kind |-> o.kind, depth |-> o.depth, inject |-> {o.inject[i] : i \in 1..Len(o.inject)}, caller |-> o.caller,
              env |-> o.env, pathclass |-> o.pathclass, dirs |-> o.dirs]
Clause(o) ==
    LET c == AsCase(o) IN
    IF o.effect /\ ~Granted(c) THEN "NoSelfGrant"
    ELSE IF o.effect /\ ~MayRun(c) THEN "VarsPathContained"
    ELSE IF o.bit /\ ~c.caller THEN "OptInOnlyFromCallerOrEnv:capability-flag-set"
    \* (a text with a Python-object tag is refused by the YAML layer itself, with its own error class)
    ELSE IF ~o.ok /\ ~o.sigma /\ ~(c.kind = "ytag" /\ o.exc = "ConstructorError") THEN "NonSigmaException"
    ELSE IF ~Granted(c) /\ o.ok /\ "top" \notin c.inject THEN "SecurityErrorAtFirstNeed:converted"
    \* (without grant the run must end in a Sigma error: the security error, possibly wrapped, or - for
    \*  nestings the loader does not support at all - a configuration error; checked by the clauses above)
    ELSE ""
Verdict(o) == LET cl == Clause(o) IN [id |-> o.id, v |-> IF cl = "" THEN "ok" ELSE "violation:" \o cl]
ASSUME ndJsonSerialize(IOEnv.VERIF_OUT, [i \in 1..Len(Obs) |-> Verdict(Obs[i])])
Init == x = 0
Next == UNCHANGED x
=============================================================================
