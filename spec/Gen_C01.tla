----------------------------- MODULE Gen_C01 -----------------------------
(* Mode B generator for C01: rules (detection bodies from the item library x condition
   trees) x backend configurations K.  Shard s of N takes every N-th case.           *)
EXTENDS Detection, RuleItems, Json, IOUtils, Randomization, TLC
VARIABLE x
Tier == IOEnv.VERIF_TIER
Shard == atoi(IOEnv.VERIF_SHARD)
NShards == atoi(IOEnv.VERIF_NSHARDS)
Quick == Tier = "quick"

\* ---- bodies ---------------------------------------------------------------
MapBody(is) == [kind |-> "map", items |-> [k \in 1..Len(is) |-> Items[is[k]]], maps |-> <<>>, vals |-> <<>>]
MapsBody(ms) == [kind |-> "maps", items |-> <<>>,
                 maps |-> [k \in 1..Len(ms) |-> [j \in 1..Len(ms[k]) |-> Items[ms[k][j]]]], vals |-> <<>>]
KwBody(k) == [kind |-> "kw", items |-> <<>>, maps |-> <<>>, vals |-> KwLists[k]]
Singles == [i \in 1..Len(Items) |-> MapBody(<<i>>)]
Combos == <<MapBody(<<1, 5>>), MapBody(<<2, 3>>), MapBody(<<4, 17>>), MapBody(<<9, 10>>), MapBody(<<13, 24>>),
            MapBody(<<19, 27>>), MapBody(<<22, 36>>), MapBody(<<6, 34>>), MapBody(<<7, 8>>), MapBody(<<12, 18>>),
            MapBody(<<1, 3, 7>>), MapBody(<<2, 19, 22>>), MapBody(<<21, 32>>), MapBody(<<23, 30, 31>>),
            MapsBody(<<<<1>>, <<5, 7>>>>), MapsBody(<<<<19>>, <<2>>>>), MapsBody(<<<<17, 4>>, <<22>>>>),
            MapsBody(<<<<16>>, <<36>>>>), MapsBody(<<<<41>>, <<42, 43>>>>), MapBody(<<1, 47>>), MapsBody(<<<<47>>, <<5>>>>),
            \* one field, values of different kinds, OR-linked (list of maps) and AND-linked (one map per detection, see Cases4)
            MapsBody(<<<<60>>, <<58>>>>), MapsBody(<<<<58>>, <<60>>>>), MapsBody(<<<<17>>, <<58>>>>), MapsBody(<<<<18>>, <<59>>>>), MapsBody(<<<<59>>, <<18>>, <<58>>>>),
            KwBody(1), KwBody(2), KwBody(3), KwBody(4)>>
Pool == Singles \o Combos
NP == Len(Pool)
Weight(b) == Cardinality(QAtoms(BodyQE(b, TRUE).e))

\* ---- names and conditions --------------------------------------------------
N_sel1 == <<115, 101, 108, 49>>
N_sel2 == <<115, 101, 108, 50>>
N_flt == <<102, 108, 116>>
P_selstar == <<115, 101, 108, 42>>
CLeaves == {CId(N_sel1), CId(N_sel2), CId(N_flt), CSel("1", P_selstar), CSel("all", P_selstar), CSel("any", S_them)}
TreeSeq == SetToSeq(TreesUpTo(IF Quick THEN 2 ELSE 3, {CId(N_sel1), CId(N_sel2), CId(N_flt)})
                    \cup TreesUpTo(1, CLeaves)
                    \cup (IF Quick THEN {} ELSE RandomSubset(400, Trees(2, CLeaves))))
Doc3(a, b, c, conds) == [dets |-> <<[name |-> N_sel1, body |-> Pool[a]], [name |-> N_sel2, body |-> Pool[b]],
                                    [name |-> N_flt, body |-> Pool[c]]>>, conds |-> conds]
Doc1(a, conds) == [dets |-> <<[name |-> N_sel1, body |-> Pool[a]]>>, conds |-> conds]
C_sel1 == N_sel1
C_notsel1 == S_not \o <<32>> \o N_sel1
C_notnotsel1 == S_not \o <<32>> \o S_not \o <<32>> \o N_sel1

\* ---- backend configurations -----------------------------------------------
Perms == {<<"not", "and", "or">>, <<"not", "or", "and">>, <<"and", "not", "or">>,
          <<"and", "or", "not">>, <<"or", "not", "and">>, <<"or", "and", "not">>}
MkCfg(prec, paren, sep, orin, andin, inwild, sw, ew, ct, wm, cs, nexists, cidr, noteq, special) ==
    [ts |-> TRUE, prec |-> prec, paren |-> paren, sep |-> sep, orin |-> orin, andin |-> andin, inwild |-> inwild,
     sw |-> sw, ew |-> ew, ct |-> ct, wm |-> wm, cs |-> cs, nexists |-> nexists, cidr |-> cidr,
     noteq |-> noteq, allowspecial |-> special, defer |-> FALSE]
FullK == [ts : BOOLEAN, prec : Perms, paren : BOOLEAN, sep : {1, 2}, orin : BOOLEAN, andin : BOOLEAN, inwild : BOOLEAN,
          sw : BOOLEAN, ew : BOOLEAN, ct : BOOLEAN, wm : BOOLEAN, cs : {"none", "match", "full"},
          nexists : BOOLEAN, cidr : BOOLEAN, noteq : BOOLEAN, allowspecial : BOOLEAN, defer : {FALSE}]
Std == <<"not", "and", "or">>
BaseK == {MkCfg(Std, FALSE, 1, FALSE, FALSE, FALSE, FALSE, FALSE, FALSE, FALSE, "none", FALSE, FALSE, FALSE, FALSE),
          MkCfg(Std, FALSE, 1, TRUE, TRUE, TRUE, TRUE, TRUE, TRUE, TRUE, "full", TRUE, TRUE, FALSE, FALSE),
          MkCfg(Std, TRUE, 2, TRUE, TRUE, FALSE, TRUE, TRUE, TRUE, FALSE, "match", TRUE, FALSE, FALSE, TRUE),
          MkCfg(<<"and", "or", "not">>, FALSE, 1, TRUE, FALSE, FALSE, TRUE, FALSE, TRUE, TRUE, "full", FALSE, TRUE, FALSE, FALSE),
          MkCfg(<<"or", "and", "not">>, FALSE, 1, FALSE, TRUE, TRUE, FALSE, TRUE, FALSE, FALSE, "full", TRUE, TRUE, FALSE, TRUE),
          MkCfg(Std, FALSE, 1, TRUE, TRUE, TRUE, TRUE, TRUE, TRUE, TRUE, "full", TRUE, TRUE, TRUE, FALSE),
          MkCfg(<<"not", "or", "and">>, FALSE, 1, FALSE, FALSE, FALSE, TRUE, TRUE, TRUE, FALSE, "match", TRUE, FALSE, TRUE, FALSE)}
KSeq == SetToSeq(BaseK \cup RandomSubset(IF Quick THEN 17 ELSE 120, FullK))
NK == Len(KSeq)

\* ---- cases ----------------------------------------------------------------
\* (1) every body alone, plain / negated / doubly negated, under every configuration
Cases1 == {[doc |-> Doc1(a, <<c>>), K |-> KSeq[k]] :
             a \in 1..NP, c \in {C_sel1, C_notsel1, C_notnotsel1}, k \in 1..NK}
\* (2) every condition tree over three detections, bodies and configurations chosen by index
\*     arithmetic (total number of atoms bounded, so that truth tables stay small)
Pick(i, j) == ((i * 7 + j * 13) % NP) + 1
Cases2 == {[doc |-> Doc3(Pick(i, 1 + r), Pick(i, 2 + r), Pick(i, 3 + r), <<CPrint(TreeSeq[i], "min")>>),
            K |-> KSeq[((i + k) % NK) + 1]] :
             i \in 1..Len(TreeSeq), k \in (IF Quick THEN {0, 5} ELSE {0, 3, 5, 11}), r \in (IF Quick THEN {0} ELSE {0, 17})}
\* (3) two conditions in one rule
Cases3 == {[doc |-> Doc3(Pick(i, 1), Pick(i, 2), Pick(i, 3), <<C_sel1, CPrint(TreeSeq[i], "min")>>),
            K |-> KSeq[(i % NK) + 1]] : i \in {j \in 1..Len(TreeSeq) : j % 9 = 0}}
\* (a CIDR network is one atom for a backend with a native CIDR expression, one per text block otherwise)
\* (4) the same field in two detections, linked by the condition (the in-list shortcut must keep the kinds apart)
IdxOf(b) == CHOOSE i \in 1..NP : Pool[i] = b
SameField == <<(<<60, 58>>), (<<58, 60>>), (<<17, 58>>), (<<18, 59>>), (<<59, 18>>)>>
Cases4 == {[doc |-> Doc3(IdxOf(MapBody(<<SameField[p][1]>>)), IdxOf(MapBody(<<SameField[p][2]>>)), 1, <<c>>), K |-> KSeq[k]] :
             p \in 1..Len(SameField), k \in 1..NK,
             c \in {N_sel1 \o <<32,111,114,32>> \o N_sel2, N_sel1 \o <<32,97,110,100,32>> \o N_sel2, <<49,32,111,102,32>> \o P_selstar, <<97,108,108,32,111,102,32>> \o P_selstar}}
\* (5) regular expressions as DEFERRED query parts (K.defer): regex-bearing bodies alone and in every condition tree
ReBodies == {6, 34, 39, 48}       \* fE|re|i, f7|re, g3|re|m|s, h3|re: [two expressions]
Cases5 == {[doc |-> Doc1(r, <<c>>), K |-> [KSeq[k] EXCEPT !.defer = TRUE]] :
             r \in ReBodies, c \in {C_sel1, C_notsel1, C_notnotsel1}, k \in 1..NK}
          \cup {[doc |-> Doc3(r, Pick(i, 1), Pick(i, 2), <<CPrint(TreeSeq[i], "min")>>), K |-> [KSeq[((i + r) % NK) + 1] EXCEPT !.defer = TRUE]] :
             r \in {6, 34, 48}, i \in 1..Len(TreeSeq)}
          \* (two regular expressions in one map, Combos[8])
          \cup {[doc |-> Doc3(Len(Items) + 8, Pick(i, 1), Pick(i, 2), <<CPrint(TreeSeq[i], "min")>>), K |-> [KSeq[(i % NK) + 1] EXCEPT !.defer = TRUE]] :
             i \in {j \in 1..Len(TreeSeq) : j % 3 = 0}}
Small(c) == Cardinality(UNION {QAtoms(BodyQE(c.doc.dets[d].body, c.K.cidr).e) : d \in 1..Len(c.doc.dets)}) <= 9
ASSUME LET A == SetToSeq({c \in Cases1 \cup Cases2 \cup Cases3 \cup Cases4 \cup Cases5 : Small(c)})
           mine == SelectSeq([i \in 1..Len(A) |-> [id |-> i] @@ A[i]], LAMBDA c : c.id % NShards = Shard)
       IN  ndJsonSerialize(IOEnv.VERIF_OUT, mine)
Init == x = 0
Next == UNCHANGED x
=============================================================================
