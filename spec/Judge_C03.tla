---------------------------- MODULE Judge_C03 ----------------------------
(* Mode C judge for C03: the recorded values / linking / negation of
   SigmaDetectionItem.from_mapping(key, value) against the chain machine.      *)
EXTENDS Modifiers, Json, IOUtils, TLC
VARIABLE x
Obs == ndJsonDeserialize(IOEnv.VERIF_OBS)
C(name) == [dev |-> FALSE, name |-> name]
D(name) == [dev |-> TRUE, name |-> name]

Clauses(o) ==
    LET want == Apply(o.vals, o.chain, o.field)
        got == o.ret
    IN
    IF ~got.ok /\ ~got.sigma THEN <<C("NonSigmaException")>>
    ELSE IF want.status = "unspec" THEN <<D("__unspec")>>
    ELSE IF want.status = "reject" THEN (IF got.ok THEN <<C("InadmissibleRejected")>> ELSE <<>>)
    ELSE IF ~got.ok THEN <<C("AdmissibleChainRejected")>>
    ELSE IF got.out.linking # want.linking THEN <<C("AllSetsAnd")>>
    ELSE IF got.out.negated # want.negated THEN <<C("NeqNegatesItem")>>
    ELSE IF ~ValsEq(want.vals, got.out.value) THEN <<C("ValuesAsSpecified")>>
    ELSE <<>>

Verdict(o) ==
    LET cs == Clauses(o)
        viol == SelectSeq(cs, LAMBDA c : ~c.dev)
    IN  [id |-> o.id,
         v |-> IF viol # <<>> THEN "violation:" \o viol[1].name
               ELSE IF cs # <<>> THEN (IF cs[1].name = "__unspec" THEN "unspec" ELSE "dev:" \o cs[1].name) ELSE "ok",
         st |-> Apply(o.vals, o.chain, o.field).status]
ASSUME ndJsonSerialize(IOEnv.VERIF_OUT, [i \in 1..Len(Obs) |-> Verdict(Obs[i])])
Init == x = 0
Next == UNCHANGED x
=============================================================================
