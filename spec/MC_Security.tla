----------------------------- MODULE MC_Security -----------------------------
(* Mode A for C16: every case (item kind x nesting depth x injection sites x caller opt-in x
   environment value x vars path class x source of allowed directories) is run through
   Load ; Use.  NoSelfGrant: a side effect happens only if the caller or the environment
   granted the capability, whatever the document injects; VarsPathContained: with base
   directories in force nothing outside them is executed; without grant the first use ends
   in a security error.                                                                   *)
EXTENDS Security, TLC
VARIABLES c, st
vars == <<c, st>>
Levels == {"top", "item", "wrap1", "wrap2"}
Init == /\ c \in [kind : Kinds, depth : 0..2, inject : SUBSET Levels, caller : BOOLEAN, env : EnvValues,
                  pathclass : PathClasses, dirs : DirModes]
        /\ st = SInit
Load == st.phase = "start" /\ st' = SLoad(c, st) /\ UNCHANGED c
Use == st.phase = "loaded" /\ st' = SUse(c, st) /\ UNCHANGED c
Next == Load \/ Use
Spec == Init /\ [][Next]_vars
NoSelfGrant == st.effect => Granted(c)
InjectionIrrelevant == st.effect => MayRun(c)
VarsPathContained == (st.effect /\ CapOf(c.kind) = "vars" /\ c.dirs # "none") => Allowed(c)
SecurityErrorAtFirstNeed == (st.phase = "used" /\ ~Granted(c)) => st.error = "security" /\ ~st.effect
=============================================================================
