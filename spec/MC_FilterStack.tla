--------------------------- MODULE MC_FilterStack ---------------------------
(* Mode A for C11, stacked filters: two filters are applied to one rule, one after the other, each
   drawing its prefix.  The rule's detections are a table from names to detections: copying a filter's
   detections under names that are already there REPLACES what was there.  The property quantifies over
   every draw - also the one in which the second application draws the prefix of the first.  One
   transition = one step of the procedure (pick the conditions, draw, look at the names in use, draw
   again, apply); the invariant is evaluated once both filters are applied:
       Den(final condition over the final table) = rule AND filter 1 AND filter 2, each over its OWN detections.
   FreshDraw = TRUE: a draw whose names are in use is thrown away and repeated (the repaired
   procedure); FALSE: the first draw is used whatever it is (negative control, must be refuted).      *)
EXTENDS Filter, TLC
CONSTANT FreshDraw
VARIABLES rc, f1, f2, d1, d2, stage
vars == <<rc, f1, f2, d1, d2, stage>>
RuleNames == <<(<<115,101,108>>), (<<102,105,108,116,101,114>>), (<<95,120>>)>>      \* sel filter _x
FilterNames == <<(<<115,101,108>>), (<<49,120>>), (<<97,120>>)>>                      \* sel 1x ax   (both filters use the same names)
Draws == {<<95,102,105,108,116,95,97,98,97,98,97,98,97,98,97,98>>, <<95,102,105,108,116,95,99,100,99,100,99,100,99,100,99,100>>}          \* _filt_ababababab  _filt_cdcdcdcdcd
RuleConds == {CId(RuleNames[1]), CSel("all", S_them), CSel("1", <<95,42>>), CBin("cand", CId(RuleNames[1]), CNot(CId(RuleNames[2])))}
FilterConds == {CNot(CId(FilterNames[1])), CSel("1", S_them), CSel("any", <<42,120>>), CBin("cand", CId(FilterNames[3]), CNot(CId(FilterNames[2])))}
nr == Len(RuleNames)
nf == Len(FilterNames)
Some(S) == CHOOSE v \in S : TRUE
Init == stage = 0 /\ rc = Some(RuleConds) /\ f1 = Some(FilterConds) /\ f2 = Some(FilterConds) /\ d1 = Some(Draws) /\ d2 = Some(Draws)
Pick == stage = 0 /\ rc' \in RuleConds /\ f1' \in FilterConds /\ f2' \in FilterConds /\ stage' = 1 /\ UNCHANGED <<d1, d2>>
\* the first application: nothing generated is in the table yet, any draw will do
DrawFirst == stage = 1 /\ d1' \in Draws /\ stage' = 2 /\ UNCHANGED <<rc, f1, f2, d2>>
DrawSecond == stage = 2 /\ d2' \in Draws /\ stage' = 3 /\ UNCHANGED <<rc, f1, f2, d1>>
InUse(d) == d = d1                      \* names beginning with this prefix are in the rule's table
Redraw == stage = 3 /\ FreshDraw /\ InUse(d2) /\ d2' \in Draws /\ UNCHANGED <<rc, f1, f2, d1, stage>>
ApplySecond == stage = 3 /\ (FreshDraw => ~InUse(d2)) /\ stage' = 4 /\ UNCHANGED <<rc, f1, f2, d1, d2>>
Next == Pick \/ DrawFirst \/ DrawSecond \/ Redraw \/ ApplySecond
Spec == Init /\ [][Next]_vars

\* ---- the table after both applications, and which detection each of its entries holds -------------------------
\* ideal atoms: 1..nr the rule's detections, nr+1..nr+nf those of filter 1, nr+nf+1..nr+2nf those of filter 2
Names1 == CombinedNames(RuleNames, FilterNames, d1)
Same == d2 = d1
FinalNames == IF Same THEN Names1 ELSE CombinedNames(Names1, FilterNames, d2)
Holds == IF Same THEN [i \in 1..(nr + nf) |-> IF i <= nr THEN i ELSE i + nf]          \* filter 2's copies REPLACED filter 1's
         ELSE [i \in 1..(nr + 2 * nf) |-> i]
FinalCond == CombinedCond(CombinedCond(CPrint(rc, "min"), CPrint(f1, "min"), d1), CPrint(f2, "min"), d2)
Final == DenM(FinalCond, FinalNames, TRUE)
RuleAlone == Den(CPrint(rc, "min"), RuleNames)
F1Alone == Den(CPrint(f1, "min"), FilterNames)
F2Alone == Den(CPrint(f2, "min"), FilterNames)
Shift(e, by) == MapAtoms(e, [i \in 1..nf |-> by + i])
BothFiltersMean ==
    (stage = 4 /\ RuleAlone.st = "ok" /\ F1Alone.st = "ok" /\ F2Alone.st = "ok") =>
        /\ Final.st = "ok"
        /\ TT(MapAtoms(Final.e, Holds), nr + 2 * nf) = TT(And(<<RuleAlone.e, Shift(F1Alone.e, nr), Shift(F2Alone.e, nr + nf)>>), nr + 2 * nf)
\* the procedure ends: a second application is always reached (checked as reachability of stage 4 by the harness through coverage)
=============================================================================
