SPECIFICATION Spec
CONSTANT NameSpaces = FALSE
INVARIANT NoCaptureEitherWay
