---------------------------- MODULE Judge_C11 ----------------------------
(* Mode C judge for C11: per rule and condition, the filtered collection's query must mean
   (rule) AND (filter) over separate detection namespaces iff the filter applies; otherwise it
   must be byte-identical to the unfiltered conversion.                                      *)
EXTENDS Filter, Json, IOUtils, TLC
VARIABLE x
Obs == ndJsonDeserialize(IOEnv.VERIF_OBS)
C(name) == [dev |-> FALSE, name |-> name]
D(name) == [dev |-> TRUE, name |-> name]
PREC == <<"not", "and", "or">>

\* the pipeline of the cases with pipe = TRUE appends _x to every field name
RECURSIVE SufQ(_, _)
SufQ(e, suf) == CASE e.k = "leaf" -> [e EXCEPT !.a.f = IF @ = <<>> THEN @ ELSE @ \o suf]
                  [] e.k = "not" -> [e EXCEPT !.a = SufQ(@, suf)]
                  [] OTHER -> [e EXCEPT !.args = [j \in 1..Len(@) |-> SufQ(@[j], suf)]]
RuleClauses(o, r) ==
    LET rule == o.rules[r]
        app == SelectSeq(o.filters, LAMBDA f : Applies(f, rule))
        fdocs == [k \in 1..Len(app) |-> app[k].doc]
        n == Len(rule.doc.conds)
    IN  [s \in 1..Len(o.filtered) |->
        IF ~o.plain.ok THEN <<C("UnfilteredConversionFails")>>
        ELSE IF ~o.filtered[s].ok THEN (IF o.filtered[s].sigma THEN <<C("FilteredRuleFails")>> ELSE <<C("NonSigmaException")>>)
        ELSE LET got == o.filtered[s].out[r] IN
             IF Len(got) # n THEN <<C("OneQueryPerCondition")>>
             ELSE IF Len(app) = 0 THEN (IF got # o.plain.out[r] THEN <<C("OthersByteIdentical")>> ELSE <<>>)
             ELSE SelectSeq([c \in 1..n |->
                    LET want0 == FilteredDen(rule.doc, c, fdocs)
                        want == IF o.pipe /\ want0.st = "ok" THEN [want0 EXCEPT !.e = SufQ(@, <<95,120>>)] ELSE want0
                        g == ParseQuery(got[c], PREC)
                    IN  IF want.st # "ok" THEN C("")
                        ELSE IF ~g.ok THEN C("QueryUnreadable")
                        ELSE IF QEquiv(want.e, g.e) THEN C("")
                        ELSE IF got[c] = o.plain.out[r][c] THEN C("AppliesIff")
                        ELSE C("MeansRuleAndFilter")], LAMBDA cl : cl.name # "")]
Clauses(o) == Concat([r \in 1..Len(o.rules) |-> Concat(RuleClauses(o, r))])
Verdict(o) ==
    LET cs == Clauses(o)
        viol == SelectSeq(cs, LAMBDA c : ~c.dev)
    IN  [id |-> o.id,
         v |-> IF viol # <<>> THEN "violation:" \o viol[1].name
               ELSE IF cs # <<>> THEN "dev:" \o cs[1].name ELSE "ok"]
ASSUME ndJsonSerialize(IOEnv.VERIF_OUT, [i \in 1..Len(Obs) |-> Verdict(Obs[i])])
Init == x = 0
Next == UNCHANGED x
=============================================================================
