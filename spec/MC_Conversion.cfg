SPECIFICATION FairSpec
CONSTANT Restore = TRUE
CONSTANT MaxRules = 3
INVARIANT NoLeak
INVARIANT Accounting
INVARIANT OutIsPrefix
INVARIANT StrictNeverPastFailure
INVARIANT EveryQueryFromOwnState
PROPERTY Terminates
