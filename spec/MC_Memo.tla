------------------------------- MODULE MC_Memo -------------------------------
(* Mode A for C05 / C14 / C15 (and the seeded changes of rounds 5 - 7 that put a memo in front of a function):
   results remembered on an object between calls.

   A value object is asked for a RENDERING several times, each time with the parameters of the target it is rendered
   for (the characters to escape, the variable table of the pipeline in force, the Python type of a value).  The
   library may remember results; a remembered result may only be handed out for a request it is the result of.

     Ask(o, p)   render object o with parameters p - from the memo if the memo's key says so, else computed and stored

   KeyOf = "all":     the memo is keyed by the object AND the parameters (or there is no memo: same observable behaviour)
   KeyOf = "object":  keyed by the object alone - what SigmaString.to_regex (escaped characters), value_placeholders
                      (variable table), sigma_type (bool / float of one numeric value) were changed into by the seeded
                      changes C05e, C14e / C12f, C03f; TLC must refute AnswersTheRequest for it.
   The rendering function itself is abstract: Render(o, p) is injective in p here (the worst case: every parameter
   matters).                                                                                               *)
EXTENDS Integers, Sequences, FiniteSets, TLC
CONSTANTS KeyOf, MaxCalls
Objects == {1, 2}
Params == {"a", "b"}
Render(o, p) == <<o, p>>
VARIABLES memo, last, calls
vars == <<memo, last, calls>>
\* memo: a partial function key -> result ; last: the request just served and the answer given
Key(o, p) == IF KeyOf = "all" THEN <<o, p>> ELSE <<o>>
Init == memo = <<>> /\ last = <<>> /\ calls = 0
Ask(o, p) ==
    /\ calls < MaxCalls
    /\ LET k == Key(o, p)
           hit == \E i \in 1..Len(memo) : memo[i][1] = k
           ans == IF hit THEN (CHOOSE i \in 1..Len(memo) : memo[i][1] = k) ELSE 0
       IN  /\ memo' = IF hit THEN memo ELSE Append(memo, <<k, Render(o, p)>>)
           /\ last' = <<o, p, IF hit THEN memo[ans][2] ELSE Render(o, p)>>
    /\ calls' = calls + 1
Next == \E o \in Objects, p \in Params : Ask(o, p)
Spec == Init /\ [][Next]_vars
AnswersTheRequest == last # <<>> => last[3] = Render(last[1], last[2])
=============================================================================
