---------------------------- MODULE MC_Conversion ----------------------------
(* Mode A for C08: every collection of 1..MaxRules rule kinds, collecting or strict, is
   converted step by step (apply / convert / emit / fail transitions).  Invariants: the
   per-rule pipeline state and the class templates never carry over into the next rule,
   every emitted query equals what the rule yields alone, a failing rule contributes no
   query and exactly one error record, strict mode stops at the first failing rule.     *)
EXTENDS Conversion, TLC
CONSTANTS MaxRules, Restore      \* Restore = FALSE: the not-equals context is left without try/finally (negative control)
VARIABLES kinds, collect, st
vars == <<kinds, collect, st>>
Init == /\ kinds \in UNION {[1..n -> Kinds] : n \in 1..MaxRules}
        /\ collect \in BOOLEAN
        /\ st = VInit
Next == st.status = "run" /\ st' = VStepR(kinds, collect, st, Restore) /\ UNCHANGED <<kinds, collect>>
Spec == Init /\ [][Next]_vars

NoLeak == (st.status = "run" /\ st.stage = "apply") => st.templates = "normal" /\ st.pending = <<>>
Accounting ==
    /\ st.status = "done" =>
          /\ st.out = ExpectedOut(kinds)
          /\ st.errors = (IF collect THEN ExpectedErrors(kinds) ELSE <<>>)
    /\ st.status = "raised" => ~collect /\ st.errors = <<FirstFailing(kinds)>>
OutIsPrefix == IsPrefix(st.out, ExpectedOut(kinds))
StrictNeverPastFailure == (~collect /\ FirstFailing(kinds) # 0) => st.pos <= FirstFailing(kinds)
EveryQueryFromOwnState == \A i \in 1..Len(st.out) : st.out[i][3] = StateOf(kinds[st.out[i][1]])
Terminates == <>(st.status \in {"done", "raised"})
FairSpec == Spec /\ WF_vars(Next)
=============================================================================
