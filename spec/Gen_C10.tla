----------------------------- MODULE Gen_C10 -----------------------------
(* Mode B generator for C10: correlation rules over a pool of four detection rules
   (one / two conditions, with and without name) x backend template sets.            *)
EXTENDS Correlation, Json, IOUtils, Randomization, TLC
VARIABLE x
Quick == IOEnv.VERIF_TIER = "quick"
Types == <<(<<101,118,101,110,116,95,99,111,117,110,116>>), (<<118,97,108,117,101,95,99,111,117,110,116>>),
           (<<116,101,109,112,111,114,97,108>>), (<<116,101,109,112,111,114,97,108,95,111,114,100,101,114,101,100>>),
           (<<118,97,108,117,101,95,115,117,109>>), (<<118,97,108,117,101,95,97,118,103>>),
           (<<118,97,108,117,101,95,112,101,114,99,101,110,116,105,108,101>>), (<<118,97,108,117,101,95,109,101,100,105,97,110>>)>>
\* event_count value_count temporal temporal_ordered value_sum value_avg value_percentile value_median
NeedsField(t) == t \in {2, 5, 6, 7, 8}
Ops == <<"lt", "lte", "gt", "gte", "eq", "neq">>
Units == <<115, 109, 104, 100, 119, 77, 121>>
Counts == <<1, 2, 59>>
RefSets == <<(<<1>>), (<<2>>), (<<1, 2>>), (<<3, 1>>), (<<1, 2, 4>>), (<<4, 3, 2, 1>>), (<<5>>), (<<5, 2>>)>>     \* rule 5 is a correlation rule
g1 == <<103,49>> al == <<97,108>> fA == <<102,105,101,108,100,65>> fX == <<102,105,101,108,100,88>> ff == <<102>>
GroupVariants == <<[has |-> FALSE, gb |-> <<>>, aliases |-> <<>>],
                   [has |-> TRUE, gb |-> <<g1>>, aliases |-> <<>>],
                   [has |-> TRUE, gb |-> <<g1, al>>, aliases |-> <<[alias |-> al, map |-> <<(<<1, fA>>), (<<2, fX>>)>>]>>],
                   \* aliases without any group-by: the normalisation is emitted all the same
                   [has |-> FALSE, gb |-> <<>>, aliases |-> <<[alias |-> al, map |-> <<(<<1, fA>>), (<<2, fX>>)>>]>>],
                   \* an alias whose NAME the field mapping would rename (g1 -> G1), defined for rule 2 only, in the group-by:
                   \* an alias name is kept whatever the item's conditions make of the rules it is defined for
                   [has |-> TRUE, gb |-> <<g1>>, aliases |-> <<[alias |-> g1, map |-> <<(<<2, fX>>)>>]>>],
                   \* a group-by list WITHOUT entries
                   [has |-> TRUE, gb |-> <<>>, aliases |-> <<>>]>>
Cond(kind, op, count, hasfield, haspct, expr) ==
    [kind |-> kind, op |-> op, count |-> count, hasfield |-> hasfield, field |-> ff, haspct |-> haspct, pct |-> 75, expr |-> expr, frac |-> FALSE]
MkB(ts, ty, no, op, pi) == [tsmode |-> ts, typing |-> ty, norm |-> no, optin |-> op, pipe |-> pi]
BAll == {MkB(ts, ty, no, op, pi) : ts \in {"map", "sec", "pass"}, ty \in BOOLEAN, no \in BOOLEAN, op \in BOOLEAN, pi \in {"none", "rename"}}
BSeq == SetToSeq(BAll)
Corr(t, refs, gv, ts, cond, gen) ==
    [type |-> Types[t], refs |-> refs, hasgroup |-> GroupVariants[gv].has, groupby |-> GroupVariants[gv].gb,
     aliases |-> (IF \A a \in 1..Len(GroupVariants[gv].aliases) : \A m \in 1..Len(GroupVariants[gv].aliases[a].map) :
                        \E i \in 1..Len(refs) : refs[i] = GroupVariants[gv].aliases[a].map[m][1]
                  THEN GroupVariants[gv].aliases ELSE <<>>),
     ts |-> ts, cond |-> cond, generate |-> gen, explicit |-> FALSE]
\* (A) every type x operator x unit, the other dimensions chosen by index
CasesA == {[c |-> Corr(t, RefSets[((t + o + u) % 8) + 1], ((t + u) % 4) + 1, [count |-> Counts[((o + u) % 3) + 1], unit |-> Units[u]],
                       Cond("basic", Ops[o], Counts[((t + o) % 3) + 1], NeedsField(t), t = 7, <<>>), (t + o) % 2 = 0),
            B |-> BSeq[((t * 7 + o * 3 + u) % Len(BSeq)) + 1]] : t \in 1..8, o \in 1..6, u \in 1..7}
\* (A') thresholds with a fractional part, for the value aggregations
CasesF == {[c |-> Corr(t, RefSets[r], 2, [count |-> 5, unit |-> 109], [Cond("basic", Ops[o], 2, TRUE, t = 7, <<>>) EXCEPT !.frac = TRUE], FALSE),
            B |-> BSeq[((t + o) % Len(BSeq)) + 1]] : t \in {5, 6, 7, 8}, o \in 1..6, r \in {1, 3}}
\* (A'') a renaming conditioned on the log source (rule 1 is a windows rule, the others are not): aliases, no group-by,
\*      no condition field - what is left is the renaming of the alias targets, rule by rule
CasesW == {[c |-> Corr(t, RefSets[r], 4, [count |-> 5, unit |-> 109], Cond("basic", "gte", 2, FALSE, FALSE, <<>>), FALSE),
            B |-> MkB("map", ty, TRUE, op, "rename_win")] : t \in {1, 3}, r \in {3, 5}, ty \in BOOLEAN, op \in BOOLEAN}
CasesW2 == {[c |-> Corr(t, RefSets[3], 5, [count |-> 5, unit |-> 109], Cond("basic", "gte", 2, FALSE, FALSE, <<>>), FALSE),
             B |-> MkB("map", ty, TRUE, FALSE, pi)] : t \in {1, 3}, ty \in BOOLEAN, pi \in {"rename_win", "rename", "none"}}
\* the condition field names that alias as well (value_count over an alias)
CasesW3 == {[c |-> Corr(2, RefSets[3], 5, [count |-> 5, unit |-> 109], [Cond("basic", "gte", 2, TRUE, FALSE, <<>>) EXCEPT !.field = g1], FALSE),
             B |-> MkB("map", ty, TRUE, FALSE, pi)] : ty \in BOOLEAN, pi \in {"rename_win", "rename", "none"}}
\* the conditioned renaming over rules of which none / one only through another correlation rule is of the log source:
\* group-by and condition field are renamed iff the item applies to the correlation rule
CasesW4 == {[c |-> Corr(t, refs, 2, [count |-> 5, unit |-> 109], Cond("basic", "gte", 2, t = 2, FALSE, <<>>), FALSE),
             B |-> MkB("map", ty, TRUE, FALSE, "rename_win")] : t \in {1, 2}, refs \in {<<5>>, <<5, 2>>, <<2>>, <<2, 4>>, <<1>>}, ty \in BOOLEAN}
\* (B) every backend template set x reference set x group-by variant
CasesB == {[c |-> Corr(t, RefSets[r], gv, [count |-> 5, unit |-> 109], Cond("basic", "gte", 2, FALSE, FALSE, <<>>), gen), B |-> BSeq[b]] :
             t \in {1, 3}, r \in 1..8, gv \in 1..4, b \in 1..Len(BSeq), gen \in (IF Quick THEN {FALSE} ELSE BOOLEAN)}
\* (C) extended conditions over rule names r1 r2 r4
r1 == <<114,49>> r2 == <<114,50>> r4 == <<114,52>>
ExtAsts == {CBin("cand", CId(r1), CId(r2)), CBin("cor", CId(r1), CId(r2)), CBin("cand", CId(r1), CNot(CId(r2))),
            CNot(CBin("cor", CId(r1), CId(r2))), CBin("cor", CBin("cand", CId(r1), CId(r2)), CId(r4)),
            CBin("cand", CBin("cor", CId(r1), CId(r2)), CNot(CId(r4))), CBin("cor", CId(r4), CBin("cand", CNot(CId(r2)), CId(r1))),
            CNot(CNot(CId(r1)))}
RefsOf(a) == IF \E i \in 1..1 : a = CNot(CNot(CId(r1))) THEN <<1>>
             ELSE IF a \in {CBin("cor", CBin("cand", CId(r1), CId(r2)), CId(r4)), CBin("cand", CBin("cor", CId(r1), CId(r2)), CNot(CId(r4)))} THEN <<1, 2, 4>>
             ELSE IF a = CBin("cor", CId(r4), CBin("cand", CNot(CId(r2)), CId(r1))) THEN <<4, 2, 1>> ELSE <<1, 2>>
CasesC == {[c |-> Corr(t, RefsOf(a), 2, [count |-> 5, unit |-> 109], Cond("ext", "gte", 1, FALSE, FALSE, CPrint(a, st)), FALSE), B |-> BSeq[b]] :
             t \in {3, 4}, a \in ExtAsts, st \in {"min", "full"}, b \in {1, 7, 20, 33}}
          \* ... and certainly on backends WITH a typing phase (the references come from the condition alone here)
          \cup {[c |-> Corr(t, RefsOf(a), 2, [count |-> 5, unit |-> 109], Cond("ext", "gte", 1, FALSE, FALSE, CPrint(a, "min")), FALSE), B |-> B] :
             t \in {3, 4}, a \in ExtAsts, B \in {MkB("map", TRUE, TRUE, FALSE, "none"), MkB("sec", TRUE, FALSE, TRUE, "rename")}}
\* (C') an extended condition AND an explicit rules list that names the rules in another order than the condition
\*      mentions them: the list is what orders the embedded queries
Rev(q) == [i \in 1..Len(q) |-> q[Len(q) + 1 - i]]
CasesC2 == {[c |-> [Corr(t, Rev(RefsOf(a)), 2, [count |-> 5, unit |-> 109], Cond("ext", "gte", 1, FALSE, FALSE, CPrint(a, "min")), FALSE) EXCEPT !.explicit = TRUE],
             B |-> BSeq[b]] : t \in {3, 4}, a \in ExtAsts, b \in {1, 20}}
CasesG == {[c |-> Corr(t, RefSets[r], 6, [count |-> 5, unit |-> 109], Cond("basic", "gte", 2, NeedsField(t), t = 7, <<>>), FALSE), B |-> BSeq[b]] :
             t \in {1, 2, 3}, r \in {1, 3}, b \in {1, 7, 20, 33}}
ASSUME LET S == SetToSeq(CasesG \cup CasesC2 \cup CasesA \cup CasesF \cup CasesW \cup CasesW2 \cup CasesW3 \cup CasesW4 \cup CasesB \cup CasesC)
       IN  ndJsonSerialize(IOEnv.VERIF_OUT, [i \in 1..Len(S) |-> [id |-> i] @@ S[i]])
Init == x = 0
Next == UNCHANGED x
=============================================================================
