----------------------------- MODULE Gen_System -----------------------------
(* Mode B generator for the integrated layer: behaviours of spec/System.tla - sequences of public calls every prefix
   of which is enabled - to be stepped through the real objects by the driver:
     A  load one document list (every order of every document set) ; new backend ; convert
     B  two lists loaded the way load_ruleset loads files (unresolved, filters collected) ; merge ; backend ; convert
     C  load ; backend ; convert ; validate ; convert again (the same objects)
     D  two collections, ONE backend: convert 1, convert 2, convert 1 again
     E  two fully loaded collections merged (their filters are applied once more)
     R  pseudo-random walks along enabled calls (seeded, reproducible)                                          *)
EXTENDS System, Json, IOUtils
VARIABLE x
Quick == IOEnv.VERIF_TIER = "quick"
Seed == atoi(IOEnv.VERIF_SEED)
Perms(S) == {p \in [1..Cardinality(S) -> S] : \A i, j \in 1..Cardinality(S) : i # j => p[i] # p[j]}
DocSets == {{1}, {1, 5}, {1, 2, 4}, {1, 2, 4, 5}, {3, 6}, {2, 3}, {1, 2, 3, 4}, {1, 3, 5, 6}, {2, 3, 4, 1, 6}, {1, 2, 4, 7}, {2, 8}, {1, 2, 8}, {1, 5, 2, 4, 7}}
LoadLists == UNION {Perms(S) : S \in {T \in DocSets : Cardinality(T) <= 4}} \cup {<<6, 4, 3, 2, 1>>, <<1, 2, 3, 4, 6>>, <<4, 6, 1, 3, 2>>, <<7, 5, 4, 2, 1>>, <<1, 5, 2, 4, 7>>, <<4, 7, 5, 1, 2>>}
O(op, k, ds, c) == [op |-> op, k |-> k, ds |-> ds, collect |-> c]
Bk(c) == O("backend", 1, <<>>, c)
Conv(k) == O("convert", k, <<>>, FALSE)
SeqA == {<<O("load", 1, ds, FALSE), Bk(c), Conv(1)>> : ds \in LoadLists, c \in BOOLEAN}
\* a document set split into two files, each in some order
Splits == {<<a, b>> \in LoadLists \X LoadLists :
             /\ {a[i] : i \in 1..Len(a)} \cap {b[i] : i \in 1..Len(b)} = {}
             /\ ({a[i] : i \in 1..Len(a)} \cup {b[i] : i \in 1..Len(b)}) \in DocSets \cup {{1, 2, 3, 4, 5}, {1, 2, 4, 5, 6, 3}, {1, 2, 4, 5, 7}}}
SplitSeq == SetToSeq(Splits)
SomeSplits == IF Quick THEN {SplitSeq[i] : i \in {j \in 1..Len(SplitSeq) : j % 5 = Seed % 5}} ELSE Splits
SeqB == {<<O("loadu", 1, s[1], FALSE), O("loadu", 2, s[2], FALSE), O("merge", 1, <<>>, FALSE), Bk(c), Conv(1)>> : s \in SomeSplits, c \in BOOLEAN}
SeqC == {<<O("load", 1, ds, FALSE), Bk(c), Conv(1), O("validate", 1, <<>>, FALSE), Conv(1)>> : ds \in LoadLists, c \in BOOLEAN}
Pairs == {<<a, b>> \in LoadLists \X LoadLists : Len(a) <= 3 /\ Len(b) <= 3}
PairSeq == SetToSeq(Pairs)
SomePairs == {PairSeq[i] : i \in {j \in 1..Len(PairSeq) : j % (IF Quick THEN 11 ELSE 2) = Seed % 2}}
SeqD == {<<O("load", 1, p[1], FALSE), O("load", 2, p[2], FALSE), Bk(c), Conv(1), Conv(2), Conv(1)>> : p \in SomePairs, c \in BOOLEAN}
SeqE == {<<O("load", 1, s[1], FALSE), O("load", 2, s[2], FALSE), O("merge", 1, <<>>, FALSE), Bk(c), Conv(1)>> : s \in SomeSplits, c \in BOOLEAN}
\* pseudo-random walks
Ops == {O(o, k, ds, FALSE) : o \in {"load", "loadu"}, k \in 1..2, ds \in LoadLists}
       \cup {O("merge", 1, <<>>, FALSE), Bk(TRUE), Bk(FALSE)} \cup {O(o, k, <<>>, FALSE) : o \in {"convert", "validate"}, k \in 1..2}
OpSeq == SetToSeq(Ops)
\* (loads are many: the walk prefers the other calls when they are enabled)
RECURSIVE Walk(_, _, _)
Walk(st, n, r) ==
    IF n = 0 THEN <<>>
    ELSE LET E == SelectSeq(OpSeq, LAMBDA o : Enabled(st, o) /\ (o.op \in {"load", "loadu"} => r % 3 = 0))
             F == IF E = <<>> THEN SelectSeq(OpSeq, LAMBDA o : Enabled(st, o)) ELSE E
             o == F[(((r % 9973) * 211 + n * 10007) % Len(F)) + 1]
         IN  <<o>> \o Walk(SysStep(st, o), n - 1, ((r % 30011) * 31 + 17) % 30011)
SeqR == {Walk(SysInit, 7, Seed * 1000 + i) : i \in 1..(IF Quick THEN 150 ELSE 3000)}
AllEnabled(s) == LET RECURSIVE Ok(_, _)
                     Ok(st, k) == k > Len(s) \/ (Enabled(st, s[k]) /\ Ok(SysStep(st, s[k]), k + 1))
                 IN  Ok(SysInit, 1)
Cases == {s \in SeqA \cup SeqB \cup SeqC \cup SeqD \cup SeqE \cup SeqR : AllEnabled(s)}
ASSUME LET S == SetToSeq(Cases) IN ndJsonSerialize(IOEnv.VERIF_OUT, [i \in 1..Len(S) |-> [id |-> i, ops |-> S[i]]])
Init == x = 0
Next == UNCHANGED x
=============================================================================
