---------------------------- MODULE MC_Encoding ----------------------------
(* Mode A for encodings.  For every payload (1..MaxLen code points over an alphabet with
   1-, 2-, 3- and 4-byte UTF-8 characters): Base64 decoding inverts encoding, the maximal
   offset triple covers every alignment and each element is implied by the payload alone
   (the alignment theorem C04 rests on), no element contains padding, and the locality
   lemma: the verdict of Implied does not change when neighbour bytes range over a larger
   set.  The payload is built one code point per transition.                             *)
EXTENDS Encoding, TLC
CONSTANT MaxLen
VARIABLE p
Alpha == {65, 98, 42, 233, 8364, 128512}
Init == p = <<>>
Next == Len(p) < MaxLen /\ \E c \in Alpha : p' = Append(p, c)

Bytes == Utf8Seq(p)
B64RoundTrip == B64Dec(B64(Bytes)) = Bytes /\ B64Dec(B64(Utf16LESeq(p))) = Utf16LESeq(p)
AlignmentTheorem == p # <<>> =>
    /\ Covers(RefOffset3(Bytes), Bytes)
    /\ \A a \in 0..2 : ImpliedAt(RefOffset3(Bytes)[a + 1], Bytes, a)
NoPadding == \A a \in 1..3 : \A i \in 1..Len(RefOffset3(Bytes)[a]) : RefOffset3(Bytes)[a][i] # PAD
\* maximality: one more character on either side is no longer implied
Maximal == p # <<>> => \A a \in 0..2 :
    LET enc == B64(Zeros(a) \o Bytes \o <<0>>)
        v == RefOffset3(Bytes)[a + 1]
        start == IF a = 0 THEN 0 ELSE a + 1
    IN  /\ ~ImpliedAt(Slice(enc, start + 1, start + Len(v) + 1), Bytes, a)
        /\ (start > 0 => ~ImpliedAt(Slice(enc, start, start + Len(v)), Bytes, a))
Locality == p # <<>> /\ Len(p) <= 2 => \A a \in 0..2 :
    LET v == RefOffset3(Bytes)[a + 1]
        Wide == {0, 1, 127, 128, 255}
    IN  \A pre \in [1..a -> Wide], suf \in UNION {[1..k -> Wide] : k \in 0..2} :
            IsSubstr(v, B64(pre \o Bytes \o suf))
Utf16Facts == /\ Utf16LE(65) = <<65, 0>> /\ Utf16BE(8364) = <<32, 172>>
              /\ Utf16LE(128512) = <<61, 216, 0, 222>> /\ Utf8(8364) = <<226, 130, 172>>
              /\ B64(<<77, 97, 110>>) = <<84, 87, 70, 117>> /\ B64(<<77>>) = <<84, 81, 61, 61>>
=============================================================================
