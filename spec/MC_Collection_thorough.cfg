SPECIFICATION Spec
CONSTANT Sorter = "dfs"
CONSTANT MaxDocs = 6
INVARIANT OrderIsPermutation
INVARIANT RefsFirstInv
INVARIANT OrderRefsFirst
INVARIANT SameOutcome
INVARIANT EmittedOnce
INVARIANT StableForPlainRules
