SPECIFICATION Spec
CONSTANT MaxLen = 5
INVARIANT StepwiseIsFold
INVARIANT PlainExists
INVARIANT Decodable
INVARIANT PartsTyped
INVARIANT NoBackslashIdentity
