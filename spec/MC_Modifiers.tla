---------------------------- MODULE MC_Modifiers ----------------------------
(* Mode A for the modifier chain machine: every chain up to MaxChain over the full
   table from every seed value is explored as real transitions (one per modifier).   *)
EXTENDS Modifiers, ModSeeds, TLC
CONSTANT MaxChain
VARIABLES st, src, n
vars == <<st, src, n>>
Seeds == {<<StrSeeds[i]>> : i \in 1..Len(StrSeeds)} \cup {<<OtherSeeds[i]>> : i \in 1..Len(OtherSeeds)}
Init == /\ src \in Seeds
        /\ st = MInit([k \in 1..Len(src) |-> InitVal(src[k], FALSE)])
        /\ n = 0
Step(m) == /\ n < MaxChain /\ st.status = "ok" /\ m # N_re
           /\ st' = MStep(st, m, TRUE, [k \in 1..Len(src) |-> RawText(src[k])])
           /\ n' = n + 1 /\ UNCHANGED src
Next == \E m \in AllModifiers : Step(m)
Spec == Init /\ [][Next]_vars

\* once the list modifiers acted, their effect stays
Monotone == [][(st.linking = "and" => st'.linking = "and") /\ (st.negated => st'.negated)]_vars
\* value modifiers never touch linking / negation, list modifiers never touch values
Separation == [][\A m \in AllModifiers : Step(m) =>
                    IF m \in ListModifiers THEN st'.vals = st.vals
                    ELSE st'.linking = st.linking /\ st'.negated = st.negated]_vars
\* contains/startswith/endswith add only missing wildcards: applying them twice changes nothing more
WildIdempotent ==
    st.status = "ok" => \A m \in {N_contains, N_startswith, N_endswith} :
        LET a == MStep(st, m, TRUE, <<>>) IN
        a.status = "ok" => MStep(a, m, TRUE, <<>>).vals = a.vals
\* ... and nothing but wildcards at the two ends is added
WildOnlyEnds ==
    st.status = "ok" => \A k \in 1..Len(st.vals) : IsStrLike(st.vals[k]) =>
        LET p == st.vals[k].parts
            q == WildMod(N_contains, st.vals[k]).out[1].parts
            core(s) == SelectSeq(s, LAMBDA c : TRUE)
        IN  /\ q[1] = STAR /\ q[Len(q)] = STAR
            /\ (Len(q) > 1 => IsSubstr(p, q) /\ Len(q) <= Len(p) + 2)
\* type changes keep the content
CasedKeepsContent ==
    st.status = "ok" => \A k \in 1..Len(st.vals) : IsStrLike(st.vals[k]) =>
        LET c == ValueMod(N_cased, st.vals[k], st.applied, TRUE, <<>>)
        IN  c.out[1].parts = st.vals[k].parts /\ c.out[1].phs = st.vals[k].phs /\ c.out[1].t = "cased"
\* windash: 5^k distinct variants that differ from the value only at its parameter dashes
WindashExact ==
    st.status = "ok" => \A k \in 1..Len(st.vals) : (IsStrLike(st.vals[k]) /\ ~HasPH(st.vals[k])) =>
        LET p == st.vals[k].parts
            pos == DashPos(p)
            vs == DashExpand(p, pos)
            RECURSIVE P5(_)
            P5(j) == IF j = 0 THEN 1 ELSE 5 * P5(j - 1)
        IN  /\ Len(vs) = P5(Cardinality(pos))
            /\ Cardinality({vs[j] : j \in 1..Len(vs)}) = Len(vs)
            /\ \A j \in 1..Len(vs) : \A i \in 1..Len(p) :
                  IF i \in pos THEN vs[j][i] \in {45, 47, 8211, 8212, 8213} ELSE vs[j][i] = p[i]
\* expand keeps every character that is not part of a placeholder or an escaped percent sign
ExpandConserves ==
    st.status = "ok" => \A k \in 1..Len(st.vals) : (st.vals[k].t = "str" /\ ~HasPH(st.vals[k])) =>
        LET p == st.vals[k].parts
            r == ExpandFrom(p, 1)
            back == ReText(r.parts, r.phs)      \* placeholders written out again (wildcards as chars)
            orig == ReText(p, <<>>)
        IN  /\ Cardinality({i \in 1..Len(r.parts) : r.parts[i] = PH}) = Len(r.phs)
            /\ \A i \in 1..Len(r.phs) : r.phs[i] # <<>> /\ \A j \in 1..Len(r.phs[i]) : r.phs[i][j] # CH_PCT
            /\ Len(back) <= Len(orig)
Total == st.status \in {"ok", "reject", "unspec"}
=============================================================================
