---------------------------- MODULE Judge_C10 ----------------------------
(* Mode C judge for C10: the correlation query is split at its delimiters and compared,
   component by component, with what spec/Correlation.tla requires; the embedded sub-queries
   are the referenced rules' own (observed) conversions.                                  *)
EXTENDS Correlation, Json, IOUtils, TLC
VARIABLE x
Obs == ndJsonDeserialize(IOEnv.VERIF_OBS)
PREC == <<"not", "and", "or">>
Rules == <<[name |-> <<114,49>>, uid |-> <<>>], [name |-> <<114,50>>, uid |-> <<>>], [name |-> <<>>, uid |-> <<>>], [name |-> <<114,52>>, uid |-> <<>>],
          [name |-> <<114,53>>, uid |-> <<>>]>>      \* r5: a correlation rule over r1
RuleTable(o) == [k \in 1..5 |-> [name |-> Rules[k].name, uid |-> o.uids[k]]]
RenMap(B) == IF B.pipe \in {"rename", "rename_win"}
             THEN <<(<<(<<103,49>>), (<<71,49>>)>>), (<<(<<102,105,101,108,100,65>>), (<<70,65>>)>>),
                    (<<(<<102,105,101,108,100,88>>), (<<70,88>>)>>), (<<(<<102>>), (<<70>>)>>)>>
             ELSE <<>>
Clause(o) ==
    LET c == o.c
        B == o.B
        needsNorm == c.aliases # <<>>
    IN
    IF ~o.ret.ok THEN
        (IF o.ret.exc = "NotImplementedError" /\ needsNorm /\ ~B.norm THEN ""
         ELSE IF o.ret.sigma THEN "ValidCorrelationRejected" ELSE "NonSigmaException")
    ELSE IF needsNorm /\ ~B.norm THEN "AliasesSilentlyDropped"
    ELSE LET q == o.ret.out[Len(o.ret.out)] IN
    IF ~(Len(q) >= 2 /\ q[1] = 60 /\ q[Len(q)] = 62) THEN "CorrelationQueryFinalised"
    ELSE LET body == SubSeq(q, 2, Len(q) - 1)
             rules == RuleTable(o)
             \* a renaming conditioned on the log source applies to a correlation rule iff one of the rules it refers to -
             \* directly or through a correlation rule - is of that log source (rule 1 is; rule 5 is a correlation rule over it)
             map == IF B.pipe = "rename_win" /\ ~(\E i \in 1..Len(c.refs) : c.refs[i] \in {1, 5}) THEN <<>> ELSE RenMap(B)
             \* the search part may itself contain a whole correlation query (a referred correlation rule) with
             \* record separators of its own: it is taken off by its expected text, the rest is split
             S == Search(c, rules, o.alone, B, map)
             Ty == Typing(c, rules, o.alone, B)
             sOk == HasPrefix(body, S \o <<30>>)
             tOk == sOk /\ HasPrefix(Drop(body, Len(S) + 1), Ty \o <<30>>)
             parts == IF tOk THEN <<S, Ty>> \o SplitAt(Drop(body, Len(S) + Len(Ty) + 2), 30)
                      ELSE IF sOk THEN <<S>> \o SplitAt(Drop(body, Len(S) + 1), 30) ELSE SplitAt(body, 30)
         IN
         IF ~sOk THEN
              (IF \E k \in 1..Len(c.refs) : ~IsSubstr(RuleId(rules[c.refs[k]]), parts[1]) /\ Len(c.refs) > 1 THEN "TaggedWithNameOrId"
               ELSE "SubqueriesInRefOrder")
         ELSE IF ~tOk THEN "TypingPhase"
         ELSE IF Len(parts) # 4 THEN "QueryUnreadable"
         ELSE IF parts[3] # Aggregate(c, rules, B, map) THEN
              (LET a == SplitAt(parts[3], 29) w == SplitAt(Aggregate(c, rules, B, map), 29) IN
               IF Len(a) # 6 THEN "QueryUnreadable"
               ELSE IF a[2] # w[2] THEN "TimespanExact" ELSE IF a[3] # w[3] THEN "GroupByAliasesAsGiven"
               ELSE IF a[4] # w[4] \/ a[5] # w[5] THEN "OpCountFieldPercentile" ELSE "AggregationPhase")
         ELSE IF c.cond.kind = "basic" THEN
              (IF parts[4] # BasicCondition(c, rules, map) THEN "OpCountFieldPercentile" ELSE "")
         ELSE LET cp == SplitAt(parts[4], 29) IN
              IF Len(cp) # 2 \/ cp[1] # T_EXT THEN "QueryUnreadable"
              ELSE LET g == ParseQuery(cp[2], PREC)
                       src == Parse(c.cond.expr)
                   IN  IF ~g.ok \/ ~src.ok THEN "ExtendedStructure:unreadable"
                       ELSE IF ~QEquiv(ExtQ(src.ast), g.e) THEN "ExtendedStructure" ELSE ""
Verdict(o) == LET cl == Clause(o) IN [id |-> o.id, v |-> IF cl = "" THEN "ok" ELSE "violation:" \o cl]
ASSUME ndJsonSerialize(IOEnv.VERIF_OUT, [i \in 1..Len(Obs) |-> Verdict(Obs[i])])
Init == x = 0
Next == UNCHANGED x
=============================================================================
