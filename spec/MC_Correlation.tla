--------------------------- MODULE MC_Correlation ---------------------------
(* Mode A for C10: timespan arithmetic (count x unit length, stepping the count) and the
   extended-condition print/parse round trip used by the judge.                        *)
EXTENDS Correlation, TLC
VARIABLES n, u
Units == {115, 109, 104, 100, 119, 77, 121}
Init == n = 1 /\ u \in Units
Next == n < 59 /\ n' = n + 1 /\ UNCHANGED u
Ts == [count |-> n, unit |-> u]
SecondsLinear == DecOf(Timespan(Ts, "sec")) = n * UnitSeconds(u)
NoOverflow == n * UnitSeconds(u) < 2147483647
MappedOrPass == /\ Timespan(Ts, "pass") = NatText(n) \o <<u>>
                /\ (u \notin {109, 104} => Timespan(Ts, "map") = Timespan(Ts, "pass"))
                /\ (u = 109 => Timespan(Ts, "map") = NatText(n) \o <<109,105,110>>)
UnitTable == /\ UnitSeconds(115) = 1 /\ UnitSeconds(109) = 60 /\ UnitSeconds(104) = 3600 /\ UnitSeconds(100) = 86400
             /\ UnitSeconds(119) = 7 * 86400 /\ UnitSeconds(121) = 31556952 /\ UnitSeconds(77) * 12 = UnitSeconds(121)
r1 == <<114,49>> r2 == <<114,50>>
ExtRoundTrip == \A a \in TreesUpTo(2, {CId(r1), CId(r2)}) : \A st \in {"min", "full"} :
                   LET p == Parse(CPrint(a, st)) IN p.ok /\ QEquiv(ExtQ(p.ast), ExtQ(a))
=============================================================================
