---------------------------- MODULE Judge_C05 ----------------------------
(* Mode C judge for C05: decodes every recorded rendering with the TARGET's own
   rules and compares with the parts the SOURCE denotes.                      *)
EXTENDS StrConfigs, Json, IOUtils, TLC
VARIABLE x

Obs == ndJsonDeserialize(IOEnv.VERIF_OBS)

Ok(r) == r.ok
Rejected(r) == ~r.ok /\ r.sigma
Crashed(r) == ~r.ok /\ ~r.sigma

\* ---- recorded deviation (known_findings.json): -------------------------------------
\* to_plain() escapes only plain '*' and '?'; a plain backslash directly in front of a
\* wildcard, of a plain '*'/'?' or of another backslash is written as is, so the plain form
\* re-parses with that backslash acting as an escape.
NaivePlain(p) ==
    Concat([i \in 1..Len(p) |->
        CASE p[i] = STAR -> <<CH_STAR>> [] p[i] = QM -> <<CH_QM>>
          [] p[i] = CH_STAR -> <<CH_BSL, CH_STAR>> [] p[i] = CH_QM -> <<CH_BSL, CH_QM>>
          [] OTHER -> <<p[i]>>])
Dev_PlainBackslashBeforeSpecial(P, got) ==
    /\ \E i \in 1..(Len(P) - 1) : P[i] = CH_BSL /\ NeedsGuard(P[i + 1])
    /\ got = ParseStr(NaivePlain(P))

\* ---- recorded deviation: the escape character itself is escaped only if the configuration lists it --
\* In a configuration whose additionally escaped characters do not include the escape character, a source
\* backslash is written as it is: it then escapes whatever follows (also the closing quote).  The
\* deviation is: such a configuration, a source containing the escape character, and the output being
\* exactly the rendering that escapes everything else correctly.
RenderNoEsc(K, p) ==
    Concat([i \in 1..Len(p) |->
        CASE p[i] = STAR -> K.wm [] p[i] = QM -> K.ws [] p[i] \in K.filt -> <<>>
          [] p[i] \in Meta(K) -> <<K.esc, p[i]>> [] OTHER -> <<p[i]>>])
EscDev(K, P, out, quoted) ==
    /\ ~WellFormed(K) /\ K.esc # NONE /\ \E i \in 1..Len(P) : P[i] = K.esc
    /\ out = IF quoted /\ K.quote # NONE THEN <<K.quote>> \o RenderNoEsc(K, P) \o <<K.quote>> ELSE RenderNoEsc(K, P)

C(name) == [dev |-> FALSE, name |-> name]
D(name) == [dev |-> TRUE, name |-> name]
NoC == C("")

\* position i of text t is preceded by an odd number of backslashes
RECURSIVE BackslashesBefore(_, _)
BackslashesBefore(t, i) == IF i > 1 /\ t[i - 1] = 92 THEN 1 + BackslashesBefore(t, i - 1) ELSE 0
EscapedAt(t, i) == BackslashesBefore(t, i) % 2 = 1
RECURSIVE UnescapePairs(_)
UnescapePairs(t) == IF t = <<>> THEN <<>>
                    ELSE IF t[1] = 92 /\ Len(t) >= 2 THEN <<t[2]>> \o UnescapePairs(SubSeq(t, 3, Len(t)))
                    ELSE <<t[1]>> \o UnescapePairs(Tail(t))
\* all failing clauses of a string observation
StrClauses(o) ==
    LET P == ParseStr(o.src)
        ConvBad(j) ==      \* SigmaString.convert under configuration ks[j]
            LET K == Configs[o.ks[j]]
                r == o.conv[j]
            IN  IF ~Supported(K, P) THEN ~Rejected(r)
                ELSE ~Ok(r) \/ (DecodeBody(K, r.out) # FilterParts(K, P) /\ ~EscDev(K, P, r.out, FALSE))
        ValBad(j) ==       \* TextQueryBackend.convert_value_str (quoted literal)
            LET K == Configs[o.ks[j]]
                r == o.val[j]
            IN  IF ~Supported(K, P) THEN ~Rejected(r)
                ELSE ~Ok(r) \/ (DecodeLiteral(K, r.out) # FilterParts(K, P) /\ ~EscDev(K, P, r.out, TRUE))
                     \/ (K.quote # NONE /\ QuotedForm(K, r.out) # MustQuote(K, P))
        EscDevSeen ==
            \E j \in 1..Len(o.ks) : LET K == Configs[o.ks[j]] IN
                Supported(K, P) /\ Ok(o.conv[j]) /\ Ok(o.val[j]) /\
                ((DecodeBody(K, o.conv[j].out) # FilterParts(K, P) /\ EscDev(K, P, o.conv[j].out, FALSE))
                 \/ (DecodeLiteral(K, o.val[j].out) # FilterParts(K, P) /\ EscDev(K, P, o.val[j].out, TRUE)))
        Subjects == SeqsUpTo({o.subj[j] : j \in 1..Len(o.subj)}, 3)
        n == Len(P)
        SliceBad(j, a, b) ==
            LET r == o.slices[j] IN ~Ok(r) \/ r.out # SliceParts(P, a, b)
    IN
    IF o.parts # P THEN <<C("ParseExact")>>      \* nothing else is meaningful then
    ELSE SelectSeq(<<
      IF o.len # Len(P) THEN C("LengthCountsUnits") ELSE NoC,
      IF ~Ok(o.plain) \/ ~Ok(o.plain_parts) THEN C("PlainRoundTrip:exception")
      ELSE IF o.plain_parts.out = P THEN NoC
      ELSE IF Dev_PlainBackslashBeforeSpecial(P, o.plain_parts.out) THEN D("Dev_PlainBackslashBeforeSpecial")
      ELSE C("PlainRoundTrip"),
      IF \E j \in 1..Len(o.ks) : Crashed(o.conv[j]) \/ Crashed(o.val[j]) THEN C("NonSigmaException")
      ELSE IF \E j \in 1..Len(o.ks) : ConvBad(j) THEN C("TargetDecodes:convert")
      \* a string object derived from others (concatenation, slice) with the same parts is the same value
      ELSE IF \E j \in 1..Len(o.ks) : Ok(o.val[j]) /\ (~Ok(o.val2[j]) \/ o.val2[j].out # o.val[j].out) THEN C("TargetDecodes:derived-string-renders-differently")
      ELSE IF \E j \in 1..Len(o.ks) : ValBad(j) THEN C("TargetDecodes:convert_value_str")
      ELSE IF EscDevSeen THEN D("Dev_EscapeCharNotEscaped") ELSE NoC,
      IF ~Ok(o.re_matches) THEN C("RegexSameLanguage:exception")
      ELSE IF {o.re_matches.out[j] : j \in 1..Len(o.re_matches.out)} # {s \in Subjects : WildMatch(P, s)}
           THEN C("RegexSameLanguage") ELSE NoC,
      \* the same value object rendered once more, now for a literal delimited by o.rdelim: every occurrence of the
      \* delimiter is escaped (the literal ends at the first bare one) and the language is still the same
      IF ~Ok(o.rd) THEN C("RegexLiteral:exception")
      ELSE IF \E i \in 1..Len(o.rd.out.text) : o.rd.out.text[i] = o.rdelim /\ ~EscapedAt(o.rd.out.text, i) THEN C("RegexLiteral:bare-delimiter")
      ELSE IF {o.rd.out.matches[j] : j \in 1..Len(o.rd.out.matches)} # {s \in Subjects : WildMatch(P, s)} THEN C("RegexLiteral:language")
      \* escaped for a target whose escape character is escaped too: still no bare delimiter, and undoing the escapes
      \* (backslash + c stands for c) gives back the expression the value stands for
      ELSE IF ~Ok(o.rdesc) THEN C("RegexLiteral:escape-exception")
      ELSE IF \E i \in 1..Len(o.rdesc.out.esc) : o.rdesc.out.esc[i] = o.rdelim /\ ~EscapedAt(o.rdesc.out.esc, i) THEN C("RegexLiteral:escaped-bare-delimiter")
      ELSE IF UnescapePairs(o.rdesc.out.esc) # o.rdesc.out.plain THEN C("RegexLiteral:escapes-undone")
      \* every path of a backend that has the form as template variable hands the template the form for ITS delimiter
      \* (<<-1>>: the value does not take that path - e.g. a value without wildcard is no wildcard match)
      ELSE IF ~Ok(o.rdpaths) THEN C("RegexLiteral:backend-exception")
      ELSE IF \E k \in 1..Len(o.rdpaths.out) : o.rdpaths.out[k] # <<(0 - 1)>> /\ o.rdpaths.out[k] # o.rd.out.text THEN C("RegexLiteral:backend-path-differs")
      ELSE NoC,
      \* regex transformation: plain = same language; the two ignore-case methods = the case-insensitive language
      LET SubjCI == SeqsUpTo({o.subjci[j] : j \in 1..Len(o.subjci)}, 3)
          set(r) == {r.out[j] : j \in 1..Len(r.out)}
          skipped(r) == r.out = <<(<<0 - 7>>)>>
      IN  IF P = <<>> THEN NoC            \* the empty string is documented to stay a string
          ELSE IF \E k \in 1..3 : ~Ok(o.rxt[k]) \/ skipped(o.rxt[k]) THEN C("RegexSameLanguage:transformation-exception")
          ELSE IF set(o.rxt[1]) # {s \in Subjects : WildMatch(P, s)} THEN C("RegexSameLanguage:transformation-plain")
          ELSE IF set(o.rxt[2]) # {s \in SubjCI : WildMatchCI(P, s)} THEN C("RegexSameLanguage:transformation-flag")
          ELSE IF set(o.rxt[3]) # {s \in SubjCI : WildMatchCI(P, s)} THEN C("RegexSameLanguage:transformation-brackets")
          ELSE NoC,
      IF SliceBad(1, 2, n) THEN C("SliceExact:[1:]")
      ELSE IF SliceBad(2, 1, n - 1) THEN C("SliceExact:[:-1]")
      ELSE IF SliceBad(3, 2, n - 1) THEN C("SliceExact:[1:-1]") ELSE NoC
    >>, LAMBDA c : c.name # "")

IsWordName(nm) == nm # <<>> /\ \A i \in 1..Len(nm) : IsWordChar(nm[i])
FieldClauses(o) ==
    LET Bad(j) ==
            LET FK == FieldConfigs[j]
                r == o.outs[j]
                d == DecodeField(FK, r.out)
            IN  \/ ~Ok(r)
                \/ d.name # o.name                              \* decoding returns the original name
                \/ (FK.quote # NONE /\ FK.always /\ ~d.quoted)
                \/ (~d.quoted /\ FK.quote # NONE /\ ~IsWordName(o.name))   \* bare only if harmless
                \/ (~d.quoted /\ \E i \in 1..Len(o.name) :                 \* configured chars are escaped
                        o.name[i] \in FK.escset /\ ~IsSubstr(<<FK.esc, o.name[i]>>, r.out))
    IN  IF \E j \in 1..Len(FieldConfigs) : Bad(j) THEN <<C("FieldDecodes")>> ELSE <<>>

\* total verdict: first real violation, else first recorded deviation, else ok
Verdict(o) ==
    LET cs == IF o.kind = "field" THEN FieldClauses(o) ELSE StrClauses(o)
        viol == SelectSeq(cs, LAMBDA c : ~c.dev)
    IN  [id |-> o.id,
         v |-> IF viol # <<>> THEN "violation:" \o viol[1].name
               ELSE IF cs # <<>> THEN "dev:" \o cs[1].name ELSE "ok"]

ASSUME ndJsonSerialize(IOEnv.VERIF_OUT, [i \in 1..Len(Obs) |-> Verdict(Obs[i])])
Init == x = 0
Next == UNCHANGED x
=============================================================================
