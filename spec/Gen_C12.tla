----------------------------- MODULE Gen_C12 -----------------------------
(* Mode B generator for C12: rules (bodies of the C01 library) x transformation lists
   (every transformation type that can be written in pipeline YAML with parameter variants,
   its identity instance, field scopes, a nested pipeline, chains of two) x 2 configurations. *)
EXTENDS Transform, RuleItems, Json, IOUtils, Randomization, TLC
VARIABLE x
Quick == IOEnv.VERIF_TIER = "quick"
Shard == atoi(IOEnv.VERIF_SHARD)
NShards == atoi(IOEnv.VERIF_NSHARDS)
MapBody(is) == [kind |-> "map", items |-> [k \in 1..Len(is) |-> Items[is[k]]], maps |-> <<>>, vals |-> <<>>]
MapsBody(ms) == [kind |-> "maps", items |-> <<>>,
                 maps |-> [k \in 1..Len(ms) |-> [j \in 1..Len(ms[k]) |-> Items[ms[k][j]]]], vals |-> <<>>]
KwBody(k) == [kind |-> "kw", items |-> <<>>, maps |-> <<>>, vals |-> KwLists[k]]
Pool == [i \in 1..Len(Items) |-> MapBody(<<i>>)] \o
        <<MapBody(<<1, 5>>), MapBody(<<2, 3>>), MapBody(<<1, 3, 7>>), MapBody(<<2, 19, 22>>), MapBody(<<11, 38>>),
          MapsBody(<<<<1>>, <<5, 7>>>>), MapsBody(<<<<19>>, <<2>>>>), KwBody(1), KwBody(3), KwBody(4)>>
N_sel1 == <<115, 101, 108, 49>>
Doc1(a, conds) == [dets |-> <<[name |-> N_sel1, body |-> Pool[a]]>>, conds |-> conds]

All == [mode |-> "all", names |-> <<>>]
Inc(ns) == [mode |-> "include", names |-> ns]
Exc(ns) == [mode |-> "exclude", names |-> ns]
T(type, m, s1, s2, flag, scope) == [type |-> type, m |-> m, s1 |-> s1, s2 |-> s2, flag |-> flag, scope |-> scope, sub |-> <<>>]
fA == <<102,65>> fB == <<102,66>> fC == <<102,67>> fU == <<102,85>> fJ == <<102,74>> g == <<103>> g2 == <<103,50>> other == <<111,116,104,101,114>>
x1 == <<120,49>> x2 == <<120,50>> y1 == <<121,49>> y2 == <<121,50>> kwf == <<107,119,102>> nosuch == <<110,111,115,117,99,104>>
t_x == <<120>> t_yy == <<121,121>> t_v == <<118>> t_w == <<119>> t_m1 == <<109,49>> t_m2 == <<109,50>> t_ZZZ == <<90,90,90>> t_q == <<113>>
Fmap1 == T("fmap", <<(<<fA, <<x1>>>>)>>, <<>>, <<>>, FALSE, All)
fR == <<102,82>> fZ == <<102,90>> g6 == <<103,54>>      \* (fR, fZ, g6: fields of negated items)
Fmap1n == T("fmap", <<(<<fA, <<x1, x2>>>>), (<<fB, <<y1, y2>>>>), (<<fU, <<y1, y2>>>>), (<<fR, <<y1, y2>>>>), (<<fZ, <<x1, x2>>>>), (<<g6, <<y1, y2>>>>)>>, <<>>, <<>>, FALSE, All)
FmapKw == T("fmap", <<(<<(<<>>), <<kwf>>>>)>>, <<>>, <<>>, FALSE, All)
FmapRef == T("fmap", <<(<<g, <<x1>>>>), (<<other, <<x1, x2>>>>), (<<fJ, <<y1>>>>)>>, <<>>, <<>>, FALSE, All)
FmapId == T("fmap", <<(<<nosuch, <<x1>>>>)>>, <<>>, <<>>, FALSE, All)
FmapScoped == T("fmap", <<(<<fA, <<x1>>>>), (<<fB, <<y1>>>>)>>, <<>>, <<>>, FALSE, Exc(<<fA>>))
Fpre == T("fprefix", <<>>, <<112,46>>, <<>>, FALSE, All)
Fsuf == T("fsuffix", <<>>, <<46,115>>, <<>>, FALSE, Inc(<<fA, fB, fU>>))
FpreMap == T("fprefixmap", <<(<<(<<102>>), <<(<<113>>)>>>>)>>, <<>>, <<>>, FALSE, All)
FpreMapN == T("fprefixmap", <<(<<(<<102>>), <<(<<113>>), (<<114,46>>)>>>>)>>, <<>>, <<>>, FALSE, All)
FpreMapId == T("fprefixmap", <<(<<(<<122,122>>), <<(<<113>>)>>>>)>>, <<>>, <<>>, FALSE, All)
Drop1 == T("drop", <<>>, <<>>, <<>>, FALSE, Inc(<<fB, <<102,68>>, <<102,55>>>>))
DropId == T("drop", <<>>, <<>>, <<>>, FALSE, Inc(<<nosuch>>))
Add1 == T("addcond", <<>>, <<105,100,120>>, <<109,97,105,110>>, FALSE, All)
AddNeg == T("addcond", <<>>, <<105,100,120>>, <<109,97,42>>, TRUE, All)
Repl == T("replace", <<>>, t_x, t_yy, FALSE, All)
ReplScoped == T("replace", <<>>, t_v, t_w, FALSE, Inc(<<fA, fU, <<102,32,84>>>>))
ReplId == T("replace", <<>>, t_ZZZ, t_q, FALSE, All)
MapS == T("mapstr", <<(<<t_x, <<t_m1, t_m2>>>>), (<<t_v, <<t_w>>>>)>>, <<>>, <<>>, FALSE, All)
MapSId == T("mapstr", <<(<<nosuch, <<t_q>>>>)>>, <<>>, <<>>, FALSE, All)
CaseU == T("case", <<>>, <<>>, <<>>, TRUE, All)
CaseL == T("case", <<>>, <<>>, <<>>, FALSE, Exc(<<fC>>))
SetV == T("setvalue", <<>>, <<>>, <<115,118>>, FALSE, Inc(<<fA, <<102,77>>, <<102,70>>>>))
SetVId == T("setvalue", <<>>, <<>>, <<115,118>>, FALSE, Inc(<<nosuch>>))
\* map_string on values that are not the objects parsed from the rule: under a wildcard modifier (the key is written with
\* the wildcards), after an earlier item of the chain
MapSWild == T("mapstr", <<(<<(<<42,121,42>>), <<t_m1>>>>), (<<(<<112,114,101,42>>), <<t_m1, t_m2>>>>)>>, <<>>, <<>>, FALSE, All)     \* "*y*" -> m1 ; "pre*" -> m1, m2
MapSUpper == T("mapstr", <<(<<(<<88>>), <<t_m1>>>>), (<<(<<65>>), <<t_m2>>>>)>>, <<>>, <<>>, FALSE, All)                  \* "X" -> m1 ; "A" -> m2
\* results that are falsy in Python: the empty string
ReplEmpty == T("replace", <<>>, t_x, <<>>, FALSE, All)
MapSEmpty == T("mapstr", <<(<<t_x, <<(<<>>)>>>>), (<<t_v, <<(<<>>), t_w>>>>)>>, <<>>, <<>>, FALSE, All)
SetVEmpty == T("setvalue", <<>>, <<>>, <<>>, FALSE, Inc(<<fA, <<102,77>>, <<102,70>>>>))
n1 == <<110,49>> n2 == <<110,50>> n3 == <<110,51>> fD == <<102,68>> fY == <<102,89>>
ToNum == T("convtype", <<>>, <<>>, <<>>, TRUE, Inc(<<n1, n2, n3, <<110,52>>, fY, fD, fA>>))
ToNumOne == T("convtype", <<>>, <<>>, <<>>, TRUE, Inc(<<n1, n2>>))
ToStr == T("convtype", <<>>, <<>>, <<>>, FALSE, All)
ToStrScoped == T("convtype", <<>>, <<>>, <<>>, FALSE, Exc(<<fD>>))
ConvId == T("convtype", <<>>, <<>>, <<>>, TRUE, Inc(<<nosuch>>))
a_MD5 == <<77,68,53>> a_SHA1 == <<83,72,65,49>> t_File == <<70,105,108,101>>
Hashes == T("hashes", <<(<<a_MD5, <<>>>>), (<<a_SHA1, <<>>>>)>>, t_File, <<>>, FALSE, All)
HashesDrop == T("hashes", <<(<<a_MD5, <<>>>>)>>, <<104,46>>, <<>>, TRUE, All)
HashesId == T("hashes", <<(<<a_MD5, <<>>>>)>>, t_File, <<>>, FALSE, Inc(<<nosuch>>))
Nest == [T("nest", <<>>, <<>>, <<>>, FALSE, All) EXCEPT !.sub = <<Fmap1, Repl>>]
Lists == {<<Fmap1>>, <<Fmap1n>>, <<FmapKw>>, <<FmapRef>>, <<FmapScoped>>, <<Fpre>>, <<Fsuf>>, <<FpreMap>>, <<FpreMapN>>, <<Drop1>>,
          <<Add1>>, <<AddNeg>>, <<Repl>>, <<ReplScoped>>, <<MapS>>, <<CaseU>>, <<CaseL>>, <<SetV>>, <<Nest>>,
          <<Fmap1, T("fmap", <<(<<x1, <<x2>>>>)>>, <<>>, <<>>, FALSE, All)>>, <<Fsuf, T("drop", <<>>, <<>>, <<>>, FALSE, Inc(<<fB \o <<46,115>>>>))>>,
          <<Add1, Fpre>>, <<Fmap1n, Repl>>, <<Repl, MapS>>, <<FmapKw, CaseU>>, <<Nest, Add1>>,
          <<Hashes>>, <<HashesDrop>>, <<Hashes, Fsuf>>, <<Hashes, CaseU>>,
          <<ReplEmpty>>, <<MapSEmpty>>, <<SetVEmpty>>, <<MapSWild>>, <<CaseU, MapSUpper>>, <<Repl, T("mapstr", <<(<<(<<121,121>>), <<t_m1>>>>)>>, <<>>, <<>>, FALSE, All)>>,
          <<ToNum>>, <<ToNumOne>>, <<ToStr>>, <<ToStrScoped>>, <<ToStr, Repl>>, <<ToNumOne, ToStr>>, <<Fmap1, ToStr>>}
Identities == {<<ConvId>>, <<HashesId>>, <<FmapId>>, <<FpreMapId>>, <<DropId>>, <<ReplId>>, <<MapSId>>, <<SetVId>>,
               <<[T("nest", <<>>, <<>>, <<>>, FALSE, All) EXCEPT !.sub = <<FmapId, ReplId>>]>>}
C_sel1 == N_sel1
C_notsel1 == S_not \o <<32>> \o N_sel1
Cases == {[doc |-> Doc1(a, <<c>>), Ts |-> ts, identity |-> FALSE, sw |-> s] :
             a \in 1..Len(Pool), c \in {C_sel1, C_notsel1}, ts \in Lists, s \in BOOLEAN}
         \cup {[doc |-> Doc1(a, <<c>>), Ts |-> ts, identity |-> TRUE, sw |-> s] :
             a \in 1..Len(Pool), c \in {C_sel1}, ts \in Identities, s \in {TRUE}}
ASSUME LET A == SetToSeq(Cases)
           mine == SelectSeq([i \in 1..Len(A) |-> [id |-> i] @@ A[i]], LAMBDA c : c.id % NShards = Shard)
       IN  ndJsonSerialize(IOEnv.VERIF_OUT, mine)
Init == x = 0
Next == UNCHANGED x
=============================================================================
