INIT Init
NEXT Next
