----------------------------- MODULE MC_Sharing -----------------------------
(* Mode A for C08 / C15: objects handed from a pipeline item to the rules it processes.
   The library works with mutable lists (a rule's field list, its condition list, the detections of an added
   condition).  A pipeline item is configured ONCE and applied to many rules; whatever it hands to a rule may be
   changed in place by a later item (add_field appends, a filter rewrites conditions, a prefix renames detection
   items).  The model has a heap of list objects, one configured object per item, and per rule a reference.

     Give(r)    the item hands its configured list to rule r - a COPY (Copies = TRUE) or the object itself
     Change(r)  a later item changes the list rule r holds, in place (appends the rule's own mark)

   Rules are processed one after the other, each by Give then (for the rules in Changing) Change.
   Invariants: the item's configuration never changes, and what a rule ends up with depends on that rule alone:
       list of r = configured list ++ (r's own mark, if r is one of the changing rules)
   With Copies = FALSE (the mechanism before the repairs of set_field, add_condition and the filter's
   condition list) TLC must refute both.                                                                   *)
EXTENDS Integers, Sequences, FiniteSets, TLC
CONSTANTS Copies,        \* TRUE: Give hands out a copy
          NRules
Rules == 1..NRules
Config == <<100>>                      \* the item's configured list
CfgObj == 0                            \* heap address of the configured list
VARIABLES heap, ref, pc, changing, next
vars == <<heap, ref, pc, changing, next>>
\* heap: address -> list ; ref[r]: address held by rule r (-1: none yet) ; pc[r] in {"new", "given", "done"}
Init == /\ heap = (CfgObj :> Config)
        /\ ref = [r \in Rules |-> 0 - 1]
        /\ pc = [r \in Rules |-> "new"]
        /\ changing \in SUBSET Rules      \* which rules the later item applies to (its rule conditions)
        /\ next = 1
Cur == CHOOSE r \in Rules : pc[r] # "done" /\ \A q \in Rules : q < r => pc[q] = "done"
Active == \E r \in Rules : pc[r] # "done"
Give == /\ Active /\ pc[Cur] = "new"
        /\ IF Copies
           THEN /\ heap' = heap @@ (next :> heap[CfgObj])
                /\ ref' = [ref EXCEPT ![Cur] = next]
                /\ next' = next + 1
           ELSE /\ ref' = [ref EXCEPT ![Cur] = CfgObj]
                /\ UNCHANGED <<heap, next>>
        /\ pc' = [pc EXCEPT ![Cur] = "given"]
        /\ UNCHANGED changing
Change == /\ Active /\ pc[Cur] = "given"
          /\ heap' = IF Cur \in changing THEN [heap EXCEPT ![ref[Cur]] = Append(@, Cur)] ELSE heap
          /\ pc' = [pc EXCEPT ![Cur] = "done"]
          /\ UNCHANGED <<ref, changing, next>>
Next == Give \/ Change
Spec == Init /\ [][Next]_vars

ConfigurationKept == heap[CfgObj] = Config
OwnResult(r) == Config \o (IF r \in changing THEN <<r>> ELSE <<>>)
EachRuleItsOwn == \A r \in Rules : pc[r] = "done" => heap[ref[r]] = OwnResult(r)
\* ... and it stays that way while the other rules are processed (an action property: what a finished rule holds never changes)
FinishedRulesUntouched == [][\A r \in Rules : pc[r] = "done" => heap'[ref[r]] = heap[ref[r]]]_vars
=============================================================================
