INIT Init
NEXT Next
INVARIANT EmptyAlwaysHolds
INVARIANT Linking
INVARIANT Negation
INVARIANT ExprAgrees
