SPECIFICATION Spec
CONSTANTS KeyOf = "object"
          MaxCalls = 4
INVARIANT AnswersTheRequest
CHECK_DEADLOCK FALSE
