------------------------------ MODULE MC_System ------------------------------
(* Mode A for the integrated layer: every sequence of up to MaxSteps public calls over two collection slots and one
   backend, with the document lists of LoadLists in every order.  Invariants: what Convert returns is the Ideal function
   of the collection's document set (whatever order, merging, backend history), resolved collections hold referenced
   rules first.                                                                                                     *)
EXTENDS System
CONSTANTS MaxSteps, MergeAllFilters
VARIABLES st, n
vars == <<st, n>>
Perms(S) == {p \in [1..Cardinality(S) -> S] : \A i, j \in 1..Cardinality(S) : i # j => p[i] # p[j]}
DocSets == {{1}, {1, 5}, {1, 2, 4}, {1, 2, 4, 5}, {3, 6}, {2, 3}, {4}, {6, 5}, {1, 2, 3, 4}, {5}, {1, 2, 4, 7}, {7}, {2, 8}, {8, 5}}
LoadLists == UNION {Perms(S) : S \in DocSets}
Ops == {[op |-> o, k |-> k, ds |-> ds, collect |-> FALSE] : o \in {"load", "loadu"}, k \in 1..2, ds \in LoadLists}
       \cup {[op |-> "merge", k |-> 1, ds |-> <<>>, collect |-> FALSE]}
       \cup {[op |-> "backend", k |-> 1, ds |-> <<>>, collect |-> c] : c \in BOOLEAN}
       \cup {[op |-> o, k |-> k, ds |-> <<>>, collect |-> FALSE] : o \in {"convert", "validate"}, k \in 1..2}
Init == st = SysInit /\ n = 0
Next == n < MaxSteps /\ n' = n + 1 /\ \E o \in Ops : Enabled(st, o) /\ st' = SysStepM(st, o, MergeAllFilters)
Spec == Init /\ [][Next]_vars
ConvertIdeal == ConvertIsIdeal(st)
SortedInv == Sorted(st)
=============================================================================
